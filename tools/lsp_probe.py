#!/usr/bin/env python3
"""Manual probe of oal-lsp: python3 lsp_probe.py <server> <folder> <script.json>
script: list of ["open", file, text] | ["change", file, text] | ["changer", file, [sl,sc,el,ec], text] | ["close", file]
        | ["definition"|"references"|"prepareRename", file, line, ch] | ["rename", file, line, ch, new] | ["sleep", s]"""
import json, subprocess, sys, os, time, threading, queue
srv, folder, script = sys.argv[1], os.path.abspath(sys.argv[2]), json.load(open(sys.argv[3])) if len(sys.argv)>3 else json.load(sys.stdin)
p = subprocess.Popen([srv], stdin=subprocess.PIPE, stdout=subprocess.PIPE, stderr=subprocess.DEVNULL)
q = queue.Queue()
def reader():
    while True:
        h = b""
        while not h.endswith(b"\r\n\r\n"):
            c = p.stdout.read(1)
            if not c: q.put(None); return
            h += c
        n = int([l for l in h.decode().split("\r\n") if l.lower().startswith("content-length")][0].split(":")[1])
        q.put(json.loads(p.stdout.read(n)))
threading.Thread(target=reader, daemon=True).start()
def send(m):
    b = json.dumps(m).encode(); p.stdin.write(b"Content-Length: %d\r\n\r\n" % len(b) + b); p.stdin.flush()
nid = [0]
def request(method, params):
    nid[0] += 1; send({"jsonrpc":"2.0","id":nid[0],"method":method,"params":params})
    while True:
        try: m = q.get(timeout=5)
        except queue.Empty: print("TIMEOUT; alive:", p.poll()); return None
        if m is None: print("SERVER EXITED", p.wait()); return None
        if m.get("id") == nid[0]: return m
        print("  <-", json.dumps(m)[:400])
def notify(method, params): send({"jsonrpc":"2.0","method":method,"params":params})
uri = lambda f: "file://" + os.path.join(folder, f)
print(json.dumps(request("initialize", {"processId": None, "rootUri": None, "capabilities": {"general": {"positionEncodings": ["utf-16"]}}, "workspaceFolders": [{"uri": "file://" + folder, "name": "w"}]}))[:200])
notify("initialized", {})
for st in script:
    k = st[0]
    if k == "open": notify("textDocument/didOpen", {"textDocument": {"uri": uri(st[1]), "languageId": "oal", "version": 1, "text": st[2]}})
    elif k == "change": notify("textDocument/didChange", {"textDocument": {"uri": uri(st[1]), "version": 2}, "contentChanges": [{"text": st[2]}]})
    elif k == "changer": notify("textDocument/didChange", {"textDocument": {"uri": uri(st[1]), "version": 2}, "contentChanges": [{"range": {"start": {"line": st[2][0], "character": st[2][1]}, "end": {"line": st[2][2], "character": st[2][3]}}, "text": st[3]}]})
    elif k == "close": notify("textDocument/didClose", {"textDocument": {"uri": uri(st[1])}})
    elif k == "sleep": time.sleep(st[1])
    elif k in ("definition", "references", "prepareRename", "rename"):
        params = {"textDocument": {"uri": uri(st[1])}, "position": {"line": st[2], "character": st[3]}}
        if k == "references": params["context"] = {"includeDeclaration": True}
        if k == "rename": params["newName"] = st[4]
        print(k, st[1:], "=>", json.dumps(request("textDocument/" + k, params)))
p.stdin.close(); time.sleep(0.2); print("alive" if p.poll() is None else "exit %s" % p.poll()); p.kill()
