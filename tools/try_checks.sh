#!/bin/bash
# tools/try_checks.sh <worktree> <k> <seed-id> <check>...   (second half of try_seeded.sh)
set -u
wt=$1; k=$2; id=$3; shift 3
d=$wt/deliver/$k; out=/verif/seeded/$id; log=$out/verification.log
cd /verif
git -C /repo status --short | grep -q . && { echo "/repo is not clean" | tee -a $log; exit 2; }
git -C /repo apply $d/patch.diff || { echo "PATCH DOES NOT APPLY TO /repo" | tee -a $log; exit 2; }
for c in "$@"; do
  echo "== ./check $c quick (patch applied to /repo)" >> $log
  ./check $c quick > $out/check_$c.txt 2>&1; rc=$?
  echo "$id: check $c exit=$rc" | tee -a $log
  grep -E "^VIOLATION|signature:|KNOWN-FINDING|MACHINERY" $out/check_$c.txt | cut -c1-260 >> $log
done
git -C /repo checkout -- .
