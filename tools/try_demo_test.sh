#!/bin/bash
# tools/try_demo_test.sh <worktree> <k> <seed-id> <crate-dir> [cargo test args...]
# Runs deliver/<k>/demo_test.rs as an integration test of <crate-dir> with and without the change.
set -u
wt=$1; k=$2; id=$3; crate=$4; shift 4
d=$wt/deliver/$k; log=/verif/seeded/$id/verification.log
cd $wt || exit 2
git checkout -q -- .
mkdir -p $crate/tests; cp $d/demo_test.rs $crate/tests/vdemo_$k.rs
git apply $d/patch.diff || exit 2
w=$(cargo test --offline -p $(basename $crate) --test vdemo_$k "$@" 2>&1 | grep -E "^test result" | head -1)
git checkout -q -- .
wo=$(cargo test --offline -p $(basename $crate) --test vdemo_$k "$@" 2>&1 | grep -E "^test result" | head -1)
rm -f $crate/tests/vdemo_$k.rs; rmdir $crate/tests 2>/dev/null
echo "demo (demo_test.rs as an integration test of $(basename $crate), run by hand): with change: $w | without change: $wo" | tee -a $log
