#!/usr/bin/env python3
"""Generates /verif/MANIFEST.json from the table below (kept here so that the manifest,
the engines and DESIGN.md are edited in one place)."""
import json, subprocess, sys

CHECKS = {
 "C16": dict(engine="textspace", design="§4 C16",
   technique="explicit-state exhaustive enumeration of all texts <= n symbols x all offsets/positions/spans through the real conversion functions, compared with a line-table reference model",
   text="Every text of up to 6 (quick) / 8 (thorough) symbols over {a, é, €, 😉, LF, CRLF} is a state; every byte offset, every (line, character) position including out-of-range ones and every span is converted by the real position_to_utf8 / utf8_to_position / utf8_range_to_position / CharSpan::from and compared with an independent line-table model. The space is enumerated completely, so the verdict is 'no text of that size has a wrong conversion', which example tests cannot give.",
   note="Trusts the line-table reference (40 lines) and rustc. Offsets between CR and LF and positions inside a surrogate pair are only required not to panic and to stay in range. Lone CR is outside the alphabet."),
}

NOT_YET = {
}

def main():
    hooks = subprocess.run(["git","-C","/repo","log","--format=%H %s","--grep=^verif hook"],capture_output=True,text=True).stdout.strip().splitlines()
    props = [json.loads(l) for l in open("/verif/properties.jsonl")]
    checks=[]; na=[]
    for p in props:
        pid=p["id"]
        if pid in CHECKS:
            c=CHECKS[pid]
            checks.append({
              "property_id": pid,
              "quick_cmd": f"./check {pid} quick",
              "thorough_cmd": f"./check {pid} thorough",
              "evidence_file": f"/verif/evidence/{pid}.json",
              "replay_cmd_template": "./check --replay {path}",
              "engine": c["engine"],
              "level_claimed": {"category":"model_checking","text":c["text"],"design_ref":c["design"]},
              "level_note": c["note"],
              "technique": c["technique"],
            })
        else:
            na.append({"property_id": pid, "reason": NOT_YET.get(pid, "check not built yet in this revision of /verif (the approach is described in DESIGN.md §4); not claimed until its engine passes on the pinned tree and detects its seeded changes")})
    engines={}
    for pid,c in CHECKS.items():
        engines.setdefault(c["engine"],[]).append(pid)
    m={
     "version":1,
     "setup_cmd":"./setup.sh",
     "hooks":{
       "guard":"cargo feature `verif` (oal-model, oal-compiler, oal-client)",
       "enable":"the harness crate /verif/mc depends on /repo/oal-* by path with features=[\"verif\"]; `./check` rebuilds it (cargo build --release --offline) from /repo's working tree before every run; oal-cli and oal-lsp are built with the feature off",
       "baseline_off_cmd":"cd /repo && cargo test --workspace --no-fail-fast --offline",
       "source_commits":[h.split()[0] for h in hooks],
       "add_only":True,
     },
     "engines":[{"name":k,"path":"/verif/mc/src/props","serves_properties":sorted(v),"kind_free_text":"bounded exhaustive exploration of the real code in worker processes (see DESIGN.md §2)"} for k,v in sorted(engines.items())],
     "checks":checks,
     "not_applicable":na,
     "notes":"All checks: ./check <id> <quick|thorough>; exit 0 held, 1 VIOLATION, 2 machinery error (never a verdict). Known findings are listed in /verif/known-findings.json and printed as KNOWN-FINDING lines.",
    }
    json.dump(m,open("/verif/MANIFEST.json","w"),indent=1,ensure_ascii=False)
    print("checks:",[c["property_id"] for c in checks],"not_applicable:",len(na))
main()
