#!/usr/bin/env python3
"""Generates /verif/MANIFEST.json from the table below (kept here so that the manifest,
the engines and DESIGN.md are edited in one place)."""
import json, subprocess, sys

CHECKS = {
 "C01": dict(engine="progspace", design="§4 C01",
   technique="bounded-exhaustive enumeration of programs (all expression trees <= k constructors x 28 contexts, two-module products, annotation matrix) through the real load+compile+eval+emit in worker processes; oracle: accepted => document or located error, never panic/abort/hang",
   text="Every program of the stated bounded spaces (quick: 0.58 M, thorough: 13.8 M programs) is run through the real pipeline; the checker decides acceptance and every accepted program must evaluate and emit without panic, abort (stack overflow / OOM are attributed to the case by the worker-process explorer) or hang (watchdog), returning a document or an error whose span lies in the sources. The space is closed under all syntax forms in all positions, so it visits the gap between 'checker says yes' and 'evaluator can cast the value' that the example tests never enter.",
   note="Bounds: expression size, one hole per context, <= 2 modules, 8 MiB stack. A panic during load/compile is C04's business. Crashes are classified by panic site + value variant and, for multi-module programs, by whether the merged single-module program is rejected; genuine defects already found are listed in known-findings.json."),
 "C02": dict(engine="progspace", design="§4 C02, §3.2, §3.3",
   technique="bounded-exhaustive enumeration of ten kind-directed program fragments; each program is compiled by the real pipeline and evaluated by an independent reference semantics; emitted YAML is extracted into an abstract document and compared exactly (implicit components by bisimulation)",
   text="For every program of fragments F1-F10 (schemas, contents x ranges, transfers, URIs/concat, declarations and scoping under all statement orders, recursion, @references, modules, annotations, collisions) the document emitted by the real compiler must equal the document computed by an independent, lexically scoped reference evaluator: same paths, operations, parameters, bodies, (status, media) responses, headers, required flags and annotations, same @components, implicit components equal up to unfolding and none left over.",
   note="The reference evaluator (refsem.rs), the YAML extractor (doc.rs) and serde_yaml are trusted. Constructs the language leaves undefined are reported as `unspecified` by the reference and only checked for crashes (listed in DESIGN.md §3.2). Map key order is not compared."),
 "C03": dict(engine="progspace", design="§4 C03",
   technique="bounded-exhaustive enumeration of accepted programs (fragments F1-F10, kind-agnostic space, annotation matrix, fragments x base documents) through the real pipeline; independent validator on the emitted YAML plus typed round trip",
   text="Every document emitted for the explored program spaces (quick: 73 k documents out of 230 k programs) is checked by a validator that knows nothing about the compiler: all $refs resolve inside the document, path-template variables and required path parameters agree per operation, response keys are default / 100-599 / 1XX-5XX, operationIds are unique, and the YAML text parses back to an equal openapiv3 value that re-serialises byte-identically.",
   note="Paths with repeated variable names and operationIds written by the program itself are excluded as the property states. Base documents only carry references outside components.schemas. Trusts serde_yaml and openapiv3 for the round trip."),
 "C04": dict(engine="tokspace", design="§4 C04",
   technique="exhaustive enumeration of texts (all token sequences <= L over the 54-token alphabet and reduced grammar alphabets, all character strings <= n over a lexer-corner alphabet, all 1- and 2-deviation mutants of a corpus, nesting families to depth 200, the parseable program spaces of C01/C02) through the tokenizer+parser and the playground entry in-process, and through the real oal-cli and oal-lsp",
   text="Every text of the stated spaces (quick 2.5 M, thorough 0.68 G) is answered by oal_syntax::parse and oal_wasm::compile inside worker processes that attribute panics, aborts (stack overflow), out-of-memory and hangs to the text in flight; each must terminate with a tree or output, or with diagnostics. All short token sequences, the corpus, the nesting families and one representative of every distinct in-process outcome class additionally go through the real oal-cli (exit status 0 or 1, target written exactly on 0) and the real oal-lsp (full-text change + one request; the server must answer and stay alive).",
   note="The accepted-but-crashing programs D3, D13, D14, D15 (see C01) are also texts, so they are known findings of this property for each of the three front ends. Bounds: nesting depth 200, 8 MiB stack, 10 s per text."),
 "C05": dict(engine="rewrite-bfs", design="§4 C05",
   technique="explicit-state breadth-first search over programs: a state is a program, a transition is one meaning-preserving rewrite at one site (8 rewrite kinds, every applicable site), states deduplicated by text; invariant checked on every state by running the real compiler and comparing the document with the seed's",
   text="From accepted fragment programs the search applies, at every site the abstract syntax offers, every rewrite the property lists (parenthesise, name a closed sub-expression, inline a declaration, abstract S[T] into a single-use function, alpha-rename a binder or qualifier with all its uses, swap adjacent statements, insert trivia at a token boundary, move every dependency-closed set of declarations into a new module imported qualified or unqualified) and chains them to depth 2 (thorough 3); every reachable state (quick 0.25 M) must be accepted by the real compiler and emit the seed's document up to the generated names of implicit components.",
   note="Rewrites are generated on the harness's own abstract syntax and printed; sites where the language's annotation rules make the rewrite change meaning are not transitions (listed in the evidence assumptions). Seeds without a defined reference meaning are skipped."),
 "C06": dict(engine="choice-tape", design="§4 C06, hook H4",
   technique="stateless model checking over hash-map iteration orders (ChoiceMap hook: every iteration is a choice point, all tapes with <= 2 deviations enumerated) and over prior in-process compilations (all ordered pairs / triples); byte comparison of the YAML",
   text="Iteration order of the compiler's hash maps is owned by the explorer through the ChoiceMap hook: for every corpus program the real pipeline is re-executed under every order of every hash-map iteration it performs (all n! orders up to 4 entries, <= 2 deviations) and after every ordered pair (thorough: triple) of other programs compiled before it in the same process; the YAML must be byte-identical. On the present tree the compile path meets zero choice points, i.e. no hash-ordered iteration can reach the output at all. A free-running run of the real oal-cli in 6 fresh processes per program is reported as confirmation only.",
   note="Only maps imported through the cfg-switched `use … HashMap` lines are controlled; time, threads and environment are not inputs of the compile path (it is single-threaded and reads no clock). The multi-process confirmation is sampling of hash seeds and is labelled as such."),
 "C07": dict(engine="unifspace", design="§4 C07",
   technique="exhaustive enumeration of tag-equation systems (<= 3 equations over a bounded term universe, all orders x orientations) fed to the real unifier through hook H1 and compared with a Robinson reference unifier; exhaustive statement permutations x renamings of whole programs compared with a reference kind checker",
   text="(1) Every system of up to 3 equations over the stated term universes (quick 5.4 M systems, 56 M unify runs) is pushed into the real InferenceSet in all E! orders and 2^E orientations: unify must terminate (watchdog / abort attribution), succeed exactly when a textbook Robinson unifier with a complete occurs check finds a solution, report InvalidType otherwise, and reduce() of every variable must equal the most general unifier up to renaming, identically over all orders. (2) Every program of the kind-agnostic space and of the scoping / recursion fragments is compiled under all permutations of its statements and two consistent renamings of all identifiers: accept/reject and the error kind must not change and must equal the verdict of the reference kind checker.",
   note="Term universes are bounded by depth and node count (stated per bound in the evidence); symmetry-reduced bounds explore one system per orbit of variable renamings. The reference kind checker models single-module programs."),
 "C08": dict(engine="progspace", design="§4 C08",
   technique="bounded-exhaustive enumeration of programs over colliding name pools (declarations, parameters, rec binders, qualified/unqualified imports); binding table of the real syntax trees compared with a reference lexical resolver; emitted document compared with a lexically scoped reference evaluator",
   text="For every program with <= 2 (thorough 3) declarations over the name pools {a,b,x,f,g,m} (300 k programs quick) the `definition()` recorded on every variable node of the real trees must be exactly the binder the reference resolver names (innermost rec binder, parameter, declaration regardless of order, import by qualifier, built-in), programs with an unbound use or a duplicate declaration must be rejected with NotInScope / InvalidIdentifier, and the document must equal the reference evaluator's, which is lexically scoped - so a binding leaking from a caller (the implementation uses a dynamic scope stack) shows as a different document.",
   note="Collisions the property does not order (declaration vs unqualified import or built-in, two imports providing one name, duplicate parameters) are explored for crashes only."),
 "C09": dict(engine="progspace", design="§4 C09",
   technique="bounded-exhaustive enumeration of declaration graphs (all assignments of 30/44 body forms to 2/3 declarations) and rec expressions; verdict compared with a reference kind + cycle rule, documents compared with the reference graph by bisimulation",
   text="All declaration graphs on <= 3 declarations over every body form (object, array, alias, alternative, wrapper function, identity function, content), rec expressions nested / shadowing / inside functions applied with equal and different arguments, and recursion in imported modules: accept/reject must equal the independent rule 'the graph restricted to declarations that are not schemas is acyclic' (with kinds solved by a reference unifier); every accepted program must compile in finite time (watchdog) to a document whose $ref graph is closed, in which no component is a bare $ref chain to itself, and whose unfolding is bisimilar to the reference graph with no implicit component left over - two instantiations with different arguments can therefore never share a component.",
   note="Reference kind checker covers single-module programs. D17 (unguarded alias cycle through a function) is a known finding; D16 (orphan duplicate component) was repaired in the repository."),
 "C10": dict(engine="modgraph", design="§4 C10",
   technique="exhaustive enumeration of all import graphs on <= N modules x use orders x spellings x duplicate / missing imports, through the real module::load with a recording in-memory loader whose parse / compile are the real ones; call trace compared with a plain graph-algorithm model",
   text="All directed graphs on up to 3 (thorough 4) modules, self loops included, with every order of the use statements, relative spellings of the same file, duplicate imports and missing targets are loaded by the real loader: the result class must be the one the graph model predicts (missing import reported as that import, cycle -> CycleDetected, otherwise success), every reachable module is loaded, parsed and compiled exactly once and nothing else is, each module is compiled after everything it imports, and result class and emitted document are invariant under use order and spelling.",
   note="The loader's collaborators (parse, compile) are the real functions; only file access is in memory. When both a missing import and a cycle are reachable either error class is accepted, as the property does not order them."),
 "C11": dict(engine="tokspace", design="§4 C11",
   technique="exhaustive enumeration of the C04 text spaces plus strings embedded in string / comment / annotation contexts; tokens, tree leaves and every reported span checked against an independent reference token splitter and hull computation",
   text="For every text of the spaces (quick 3.0 M, thorough 0.69 G): token spans and lexical-error spans tile the text in order without gap or overlap on character boundaries; every token re-lexes alone to the same kind and its value is the slice minus its delimiters; the leaves of the tree are exactly the non-trivia tokens before the 'remaining input' point, once each, in increasing order; every node's span is the hull of its leaves; every span of a syntax error, compile error or external definition lies in its module on character boundaries (at most one past the end).",
   note="The end-of-input span of direct production errors (E..E+1) is exempt from the character-boundary test past the end of the text; no front end surfaces it."),
 "C12": dict(engine="tokspace", design="§4 C12",
   technique="exhaustive enumeration of token sequences and mutants parsed twice (with and without the memo table) with structural comparison, plus read-count bound and affinity of reads(depth) over nesting families (hook H2 counters)",
   text="Every token sequence of the spaces (quick 2.1 M, thorough 0.92 G) is parsed with Context::new and with .without_cache(): the structural dump (node kinds, token kinds, spans) and the error list must be identical; with the memo table the number of token reads must stay <= 64 per token, and for each of 25 nesting / chain families the reads must be affine in the depth over 1..200 (constant first differences), which excludes quadratic or exponential growth independently of constants.",
   note="The uncached parse is exponential in nesting, so the equivalence half runs only on inputs whose static nesting weight keeps it feasible (stated in the evidence); workers run under RLIMIT_AS."),
 "C13": dict(engine="frontends", design="§4 C13",
   technique="exhaustive program x configuration matrix through the real oal-cli, oal_wasm::compile and the real oal-lsp; exit status, target file bytes, stderr and published diagnostics compared with a class table",
   text="For every failure phase (lexical, syntax, missing import, import cycle, unbound name, duplicate, kind mismatch, infinite type, bad recursion, invalid status, invalid annotation) and for success, every program of a hand-verified class table in every embedding (main, imported module, CRLF, multi-byte, diamond...) is run through the real CLI in every configuration (options / --conf / conf overridden, base none / valid / not YAML / not OpenAPI / missing, target absent / sentinel): exit 0 exactly when the complete document was written and equals the in-process Builder's; on failure exit 1, target byte-identical, stderr names the module and position; CLI success <=> playground success with the same document; the language server publishes >= 1 diagnostic exactly when the CLI fails.",
   note="Programs are a finite hand-written matrix, not a generated space; the expected class of each is verified in-process first (phase 1). Configuration errors only require exit 1, untouched target and a message."),
 "C14": dict(engine="frontends", design="§4 C14",
   technique="exhaustive enumeration of the feature lattice of base documents (3*2^17 bases x programs) through the real Builder::with_base in-process and a 2^k sub-lattice through the real oal-cli --base; output compared with the round-tripped base outside paths and components.schemas",
   text="Every base document of the 17-feature lattice (info members, servers in three shapes, security, tags, externalDocs, root extension, pre-existing paths, all eight components.* members; 393 216 bases), combined with up to six accepted programs, is merged by the real builder: outside `paths` and `components.schemas` the output must equal the base as parsed and printed by the same openapiv3 types, paths and schema components must equal those of the base-less output, and no top-level or components.* key of the raw base may disappear; a sub-lattice is repeated through the real CLI.",
   note="An added empty `components: {}` is normalised away. The quick tier may hit its wall-clock cap on a loaded machine; the evidence then reports the number of bases completed and exhaustive:false."),
 "C15": dict(engine="lsp-histories", design="§4 C15",
   technique="two explicit-state searches: (a) the complete edit-transition relation of Workspace::change over all texts <= n symbols x all ranges x replacements, against a client-side buffer model (hook H3); (b) all notification histories of depth <= d over a two-file workspace on the real oal-lsp, each compared with a fresh server given the final texts",
   text="(a) From every text of up to 4 (thorough 6) symbols over {a, é, €, 😉, LF, CRLF, U+FEFF} every didChange with every range (including past end of line / text) and replacement, and two-change batches, is applied by the real Workspace and compared with the client buffer model - every transition of the edit relation is checked, so no history over such texts can make the server's copy drift. (b) Every history of up to 3 (thorough 4-5) notifications (open, full and incremental changes that create and repair errors, close) over {main.oal, m.oal} and three disk states, under every placement of intermediate requests, is replayed on the real server; published diagnostics and the answers to definition / references / prepareRename / rename at every identifier must equal those of a fresh server handed the final texts, and the server must stay alive.",
   note="The idle refresh timer is explored as an explicit event in the thorough tier; histories slower than 0.8 s are re-run. Positions inside a surrogate pair are outside the property. Never-published and published-empty diagnostics are equivalent."),
 "C16": dict(engine="textspace", design="§4 C16",
   technique="explicit-state exhaustive enumeration of all texts <= n symbols x all offsets/positions/spans through the real conversion functions, compared with a line-table reference model",
   text="Every text of up to 6 (quick) / 8 (thorough) symbols over {a, é, €, 😉, LF, CRLF, U+2028, U+0085, FF} is a state (plus four texts with more than 65535 lines or UTF-16 units per line, probed around that line / column); every byte offset, every (line, character) position including out-of-range ones and every span is converted by the real position_to_utf8 / utf8_to_position / utf8_range_to_position / CharSpan::from and compared with an independent line-table model. The space is enumerated completely, so the verdict is 'no text of that size has a wrong conversion', which example tests cannot give.",
   note="Trusts the line-table reference (40 lines) and rustc. Offsets between CR and LF and positions inside a surrogate pair are only required not to panic and to stay in range. Lone CR is outside the alphabet."),
 "C17": dict(engine="lsp-sweep", design="§4 C17",
   technique="exhaustive cursor sweep: definition and references requested at every UTF-16 position of every file of every accepted program of the name-collision space on the real oal-lsp, compared with the reference resolver's binding relation",
   text="For every accepted program of the module / scoping fragments and of the C08 name-collision space, in three layouts (plain; multi-byte comment prefix + CRLF + blanks around the dot of qualified names; imported modules outside the workspace folder), the real language server is asked for definition and references at every cursor position: on a use the definition must lie in the binder's file, contain the binder identifier and lie within the binding construct; at non-identifier positions the answers must be empty; references on a declaration or on any of its uses must be exactly the uses bound to it across modules.",
   note="Positions at the end of an identifier, on qualifiers, parameters and rec binders themselves are not fixed by the property and not checked."),
 "C18": dict(engine="lsp-sweep", design="§4 C18",
   technique="exhaustive cursor sweep: prepareRename at every position, rename wherever it answers; edits compared with the reference resolver's occurrence set and applied client-side, the edited sources recompiled and their document compared with the original",
   text="For the same programs and layouts, wherever prepareRename offers a range, rename to a fresh name must leave the server alive and return pairwise disjoint edits that each replace one occurrence of the old name, exactly the binder plus all and only its uses (import qualifiers: the qualifier and its qualified uses); the edited sources must be accepted and compile to the original document (for an @reference with that component renamed).",
   note="The edited sources are compiled in-process by the library code the CLI runs."),
}

NOT_YET = {
}

def main():
    hooks = subprocess.run(["git","-C","/repo","log","--format=%H %s","--grep=^verif hook"],capture_output=True,text=True).stdout.strip().splitlines()
    props = [json.loads(l) for l in open("/verif/properties.jsonl")]
    checks=[]; na=[]
    for p in props:
        pid=p["id"]
        if pid in CHECKS:
            c=CHECKS[pid]
            checks.append({
              "property_id": pid,
              "quick_cmd": f"./check {pid} quick",
              "thorough_cmd": f"./check {pid} thorough",
              "evidence_file": f"/verif/evidence/{pid}.json",
              "replay_cmd_template": "./check --replay {path}",
              "engine": c["engine"],
              "level_claimed": {"category":"model_checking","text":c["text"],"design_ref":c["design"]},
              "level_note": c["note"],
              "technique": c["technique"],
            })
        else:
            na.append({"property_id": pid, "reason": NOT_YET.get(pid, "check not built yet in this revision of /verif (the approach is described in DESIGN.md §4); not claimed until its engine passes on the pinned tree and detects its seeded changes")})
    engines={}
    for pid,c in CHECKS.items():
        engines.setdefault(c["engine"],[]).append(pid)
    m={
     "version":1,
     "setup_cmd":"./setup.sh",
     "hooks":{
       "guard":"cargo feature `verif` (oal-model, oal-compiler, oal-client)",
       "enable":"the harness crate /verif/mc depends on /repo/oal-* by path with features=[\"verif\"]; `./check` rebuilds it (cargo build --release --offline) from /repo's working tree before every run; oal-cli and oal-lsp are built with the feature off",
       "baseline_off_cmd":"cd /repo && cargo test --workspace --no-fail-fast --offline",
       "source_commits":[h.split()[0] for h in hooks],
       "add_only":True,
     },
     "engines":[{"name":k,"path":"/verif/mc/src/props","serves_properties":sorted(v),"kind_free_text":"bounded exhaustive exploration of the real code in worker processes (see DESIGN.md §2)"} for k,v in sorted(engines.items())],
     "checks":checks,
     "not_applicable":na,
     "notes":"All checks: ./check <id> <quick|thorough>; exit 0 held, 1 VIOLATION, 2 machinery error (never a verdict). Known findings are listed in /verif/known-findings.json and printed as KNOWN-FINDING lines.",
    }
    json.dump(m,open("/verif/MANIFEST.json","w"),indent=1,ensure_ascii=False)
    print("checks:",[c["property_id"] for c in checks],"not_applicable:",len(na))
main()
