#!/usr/bin/env python3
"""tools/seed_meta.py <spec.json> — writes seeded/<id>/meta.json for every seed of the spec
from its verification.log and check_*.txt files, and prints the DESIGN.md table rows.

spec: {"<seed id>": {"change": ..., "needs": ..., "first": "caught at once" | "missed at first",
                     "outcome": free text (what the miss was and what was strengthened), "demo_note": optional}}
"""
import json, os, re, sys

ROOT = "/verif/seeded"


def read(p):
    try:
        return open(p, errors="replace").read()
    except OSError:
        return ""


def main():
    spec = json.load(open(sys.argv[1]))
    rows = []
    for sid, s in spec.items():
        d = f"{ROOT}/{sid}"
        log = read(f"{d}/verification.log")
        m = re.search(r"tests_ok_binaries=(\d+) tests_failed=(\d+) demo_exit_with_change=(\S+) demo_exit_without_change=(\S+)", log)
        tests = f"{m.group(1)} test binaries ok, {m.group(2)} failed" if m else "see verification.log"
        dw, dwo = (m.group(3), m.group(4)) if m else ("NA", "NA")
        manual = [l for l in log.splitlines() if l.startswith("demo (")]
        checks = {}
        for f in sorted(os.listdir(d)):
            mm = re.match(r"check_(C\d\d)\.txt$", f)
            if not mm:
                continue
            txt = read(f"{d}/{f}")
            viol = "VIOLATION property=" in txt
            sigs = [l.strip()[len("signature: "):][:400] for l in txt.splitlines() if l.strip().startswith("signature:")]
            checks[mm.group(1)] = {"final_result": "VIOLATION" if viol else "no violation", "signatures": sigs[:3]}
        prop = sid.split("-")[0]
        meta = {
            "seed": sid,
            "property": prop,
            "written_by": "independent sub-agent given only the property record, the list of mechanisms already used, and a scratch worktree of /repo",
            "change": s["change"],
            "needs_to_manifest": s["needs"],
            "verified_here": {
                "repository_tests_with_change": tests,
                "demo_exit_with_change": dw,
                "demo_exit_without_change": dwo,
                "demo_note": s.get("demo_note") or (manual[-1] if manual else None),
            },
            "what_i_ran": "tools/try_seeded.sh with VERIFY_ONLY=1 (tests + demonstration in the scratch worktree) then tools/try_checks.sh: git -C /repo apply patch.diff; ./check <id> quick; git -C /repo checkout -- .",
            "checks": checks,
            "outcome": s["outcome"],
        }
        json.dump(meta, open(f"{d}/meta.json", "w"), indent=1, ensure_ascii=False)
        caught = sorted(c for c, v in checks.items() if v["final_result"] == "VIOLATION")
        quiet = sorted(c for c, v in checks.items() if v["final_result"] != "VIOLATION")
        rows.append(f"| {sid} | {prop} | {s['change']} | {s['needs']} | {', '.join(caught) or '-'} | {', '.join(quiet) or '-'} | {s['first']} |")
    print("\n".join(rows))


main()
