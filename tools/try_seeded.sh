#!/bin/bash
# tools/try_seeded.sh <worktree> <k> <seed-id> <check> [<check>...]
# 1. in the scratch worktree: apply deliver/<k>/patch.diff, run the repository's own test
#    suite, run the demonstration with and without the change;
# 2. apply the patch to /repo, run the named checks (quick), undo the patch.
# Results go to /verif/seeded/<seed-id>/.
set -u
wt=$1; k=$2; id=$3; shift 3
d=$wt/deliver/$k
out=/verif/seeded/$id
mkdir -p $out
cp $d/patch.diff $out/patch.diff
mkdir -p $out/demo
for f in $d/*; do case "$(basename $f)" in patch.diff|*cargo_test*|*test_with*|*test_tail*|*test_summary*|*.log) ;; *) cp -r $f $out/demo/ 2>/dev/null;; esac; done
log=$out/verification.log
: > $log
cd $wt || exit 2
git checkout -q -- . ; git apply $d/patch.diff || { echo "PATCH DOES NOT APPLY" | tee -a $log; exit 2; }
echo "== repository test suite with the change" >> $log
CARGO_NET_OFFLINE=true cargo test --workspace --offline 2>&1 | grep -E "^test result|FAILED|panicked|error\[" >> $log
tests_ok=$(grep -c "test result: ok" $log); tests_bad=$(grep -c -E "FAILED|test result: F" $log)
demo_with=NA; demo_without=NA
if [ -f $d/demo.sh ]; then
  CARGO_NET_OFFLINE=true cargo build --offline -p oal-client --bins >/dev/null 2>&1
  (cd $d && sh ./demo.sh) > $out/demo_with.txt 2>&1; demo_with=$?
  git checkout -q -- .
  CARGO_NET_OFFLINE=true cargo build --offline -p oal-client --bins >/dev/null 2>&1
  (cd $d && sh ./demo.sh) > $out/demo_without.txt 2>&1; demo_without=$?
fi
git checkout -q -- .
echo "tests_ok_binaries=$tests_ok tests_failed=$tests_bad demo_exit_with_change=$demo_with demo_exit_without_change=$demo_without" | tee -a $log
[ "${VERIFY_ONLY:-0}" = "1" ] && exit 0
cd /verif
git -C /repo apply $d/patch.diff || { echo "PATCH DOES NOT APPLY TO /repo" | tee -a $log; exit 2; }
for c in "$@"; do
  echo "== ./check $c quick (patch applied to /repo)" >> $log
  ./check $c quick > $out/check_$c.txt 2>&1; rc=$?
  echo "check $c exit=$rc" | tee -a $log
  grep -E "^VIOLATION|signature:|KNOWN-FINDING|MACHINERY" $out/check_$c.txt | cut -c1-260 >> $log
done
git -C /repo checkout -- .
git -C /repo status --short | head -3
