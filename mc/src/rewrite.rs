//! Meaning-preserving rewrites of the language (C05): each function enumerates every
//! applicable site of one rewrite kind and returns the rewritten programs.

use crate::gen::*;
use crate::refsem::{self, Bind};
use std::collections::BTreeSet;

pub type Path = Vec<usize>;

/// Direct sub-expressions in a fixed order.
pub fn children(e: &E) -> Vec<&E> {
    match e {
        E::Prim(_) | E::Str(_) | E::Num(_) | E::StatusRange(_) | E::Var(..) => vec![],
        E::App(_, _, a) => a.iter().collect(),
        E::Obj(v) | E::Op(_, v) => v.iter().collect(),
        E::Arr(i) | E::Paren(i) | E::Mark(i, _) | E::Prop(_, _, i) | E::Rec(_, i) | E::Ann(_, i, _) => vec![i],
        E::Content(m, b) => m.iter().map(|(_, e)| e).chain(b.iter().map(|b| &**b)).collect(),
        E::Uri(s, p) => s
            .iter()
            .filter_map(|s| if let Seg::Var(v) = s { Some(&**v) } else { None })
            .chain(p.iter().flatten())
            .collect(),
        E::Xfer { params, domain, range, .. } => params
            .iter()
            .flatten()
            .chain(domain.iter().map(|d| &**d))
            .chain(std::iter::once(&**range))
            .collect(),
        E::Rel(u, x) => std::iter::once(&**u).chain(x.iter()).collect(),
    }
}

/// Rebuilds an expression with new children (same order and number as `children`).
pub fn with_children(e: &E, mut c: Vec<E>) -> E {
    c.reverse();
    let mut next = || c.pop().expect("child");
    match e {
        E::Prim(_) | E::Str(_) | E::Num(_) | E::StatusRange(_) | E::Var(..) => e.clone(),
        E::App(q, f, a) => E::App(q.clone(), f.clone(), a.iter().map(|_| next()).collect()),
        E::Obj(v) => E::Obj(v.iter().map(|_| next()).collect()),
        E::Op(o, v) => E::Op(*o, v.iter().map(|_| next()).collect()),
        E::Arr(_) => E::Arr(Box::new(next())),
        E::Paren(_) => E::Paren(Box::new(next())),
        E::Mark(_, r) => E::Mark(Box::new(next()), *r),
        E::Prop(n, m, _) => E::Prop(n.clone(), *m, Box::new(next())),
        E::Rec(x, _) => E::Rec(x.clone(), Box::new(next())),
        E::Ann(a, _, b) => E::Ann(a.clone(), Box::new(next()), b.clone()),
        E::Content(m, b) => {
            let m2 = m.iter().map(|(k, _)| (*k, next())).collect();
            let b2 = b.as_ref().map(|_| Box::new(next()));
            E::Content(m2, b2)
        }
        E::Uri(s, p) => {
            let s2 = s
                .iter()
                .map(|s| match s {
                    Seg::Var(_) => Seg::Var(Box::new(next())),
                    o => o.clone(),
                })
                .collect();
            let p2 = p.as_ref().map(|p| p.iter().map(|_| next()).collect());
            E::Uri(s2, p2)
        }
        E::Xfer { methods, params, domain, .. } => {
            let params2 = params.as_ref().map(|p| p.iter().map(|_| next()).collect());
            let domain2 = domain.as_ref().map(|_| Box::new(next()));
            E::Xfer {
                methods: methods.clone(),
                params: params2,
                domain: domain2,
                range: Box::new(next()),
            }
        }
        E::Rel(_, x) => {
            let u = Box::new(next());
            E::Rel(u, x.iter().map(|_| next()).collect())
        }
    }
}

pub fn get<'a>(e: &'a E, path: &[usize]) -> &'a E {
    match path.split_first() {
        None => e,
        Some((i, rest)) => get(children(e)[*i], rest),
    }
}

pub fn replace(e: &E, path: &[usize], new: &E) -> E {
    match path.split_first() {
        None => new.clone(),
        Some((i, rest)) => {
            let cs: Vec<E> = children(e)
                .iter()
                .enumerate()
                .map(|(j, c)| if j == *i { replace(c, rest, new) } else { (*c).clone() })
                .collect();
            with_children(e, cs)
        }
    }
}

/// All sub-expression sites of `e`: (path, local binders in scope at the site, whether the
/// site starts from the empty annotation, i.e. its parent is a constructor).
pub fn sites(e: &E, locals: &[String]) -> Vec<(Path, Vec<String>, bool)> {
    let mut out = Vec::new();
    fn go(e: &E, path: &mut Path, locals: &mut Vec<String>, fresh_ann: bool, out: &mut Vec<(Path, Vec<String>, bool)>) {
        out.push((path.clone(), locals.clone(), fresh_ann));
        let child_fresh = match e {
            E::Ann(..) => false,
            E::Paren(_) | E::Rec(..) => fresh_ann,
            _ => true,
        };
        let pushed = if let E::Rec(x, _) = e {
            locals.push(x.clone());
            true
        } else {
            false
        };
        for (i, c) in children(e).into_iter().enumerate() {
            path.push(i);
            go(c, path, locals, child_fresh, out);
            path.pop();
        }
        if pushed {
            locals.pop();
        }
    }
    let mut l = locals.to_vec();
    go(e, &mut Vec::new(), &mut l, false, &mut out);
    out
}

/// Unqualified identifiers occurring free in `e` (not bound by a rec binder inside `e`).
pub fn free_idents(e: &E) -> BTreeSet<String> {
    fn go(e: &E, bound: &mut Vec<String>, out: &mut BTreeSet<String>) {
        match e {
            E::Var(None, n) => {
                if !bound.contains(n) {
                    out.insert(n.clone());
                }
            }
            E::App(None, f, _) => {
                if !bound.contains(f) {
                    out.insert(f.clone());
                }
            }
            _ => {}
        }
        let pushed = if let E::Rec(x, _) = e {
            bound.push(x.clone());
            true
        } else {
            false
        };
        for c in children(e) {
            go(c, bound, out);
        }
        if pushed {
            bound.pop();
        }
    }
    let mut out = BTreeSet::new();
    go(e, &mut Vec::new(), &mut out);
    out
}

fn closed_at(e: &E, locals: &[String]) -> bool {
    let f = free_idents(e);
    !locals.iter().any(|l| f.contains(l))
}

fn all_names(p: &Program) -> BTreeSet<String> {
    let printed = print(p);
    printed.occs.iter().map(|o| o.text.clone()).collect()
}

fn fresh(p: &Program, stem: &str) -> String {
    let names = all_names(p);
    let mut i = 0;
    loop {
        let n = format!("{stem}{i}");
        if !names.contains(&n) {
            return n;
        }
        i += 1;
    }
}

/// Expression roots of a module: (statement index, locals in scope, root expression).
fn roots(m: &Module) -> Vec<(usize, Vec<String>, &E)> {
    m.stmts
        .iter()
        .enumerate()
        .filter_map(|(i, s)| match s {
            Stmt::Let { params, body, .. } => Some((i, params.clone(), body)),
            Stmt::Res(e) => Some((i, vec![], e)),
            Stmt::Use(..) => None,
        })
        .collect()
}

fn with_root(p: &Program, mi: usize, si: usize, new: E) -> Program {
    let mut q = p.clone();
    match &mut q.modules[mi].stmts[si] {
        Stmt::Let { body, .. } => *body = new,
        Stmt::Res(e) => *e = new,
        Stmt::Use(..) => unreachable!(),
    }
    q
}

#[derive(Clone, Debug)]
pub struct Step {
    pub rule: &'static str,
    pub program: Program,
}

/// R1: parenthesise an expression.
pub fn parenthesise(p: &Program) -> Vec<Step> {
    let mut out = Vec::new();
    for (mi, m) in p.modules.iter().enumerate() {
        for (si, locals, root) in roots(m) {
            for (path, _, _) in sites(root, &locals) {
                let e = get(root, &path);
                if matches!(e, E::Paren(_)) {
                    continue;
                }
                let new = replace(root, &path, &E::Paren(Box::new(e.clone())));
                out.push(Step {
                    rule: "parenthesise",
                    program: with_root(p, mi, si, new),
                });
                // a term under line annotations, parenthesised together with its inline
                // annotation (the line annotations stay outside)
                if let E::Ann(lines, inner, Some(inline)) = e {
                    if !lines.is_empty() {
                        let split = E::Ann(
                            lines.clone(),
                            Box::new(E::Paren(Box::new(E::Ann(vec![], inner.clone(), Some(inline.clone()))))),
                            None,
                        );
                        out.push(Step {
                            rule: "parenthesise",
                            program: with_root(p, mi, si, replace(root, &path, &split)),
                        });
                    }
                }
            }
        }
    }
    out
}

/// R2: name a closed sub-expression with a fresh `let`.
pub fn name_subexpr(p: &Program) -> Vec<Step> {
    let mut out = Vec::new();
    let name = fresh(p, "zn");
    for (mi, m) in p.modules.iter().enumerate() {
        for (si, locals, root) in roots(m) {
            for (path, in_scope, _) in sites(root, &locals) {
                let e = get(root, &path);
                if matches!(e, E::Var(..)) || !closed_at(e, &in_scope) {
                    continue;
                }
                let new = replace(root, &path, &var(&name));
                let mut q = with_root(p, mi, si, new);
                q.modules[mi].stmts.push(let_(&name, e.clone()));
                out.push(Step {
                    rule: "name a closed sub-expression",
                    program: q,
                });
                // the same for a term with its inline annotation under line annotations
                if let E::Ann(lines, inner, Some(inline)) = e {
                    if !lines.is_empty() {
                        let split = E::Ann(lines.clone(), Box::new(var(&name)), None);
                        let mut q = with_root(p, mi, si, replace(root, &path, &split));
                        q.modules[mi].stmts.push(let_(&name, E::Ann(vec![], inner.clone(), Some(inline.clone()))));
                        out.push(Step {
                            rule: "name a closed sub-expression",
                            program: q,
                        });
                    }
                }
            }
        }
    }
    out
}

fn decl_graph_reaches(m: &Module, from: &str, to: &str) -> bool {
    let mut seen: Vec<String> = vec![];
    let mut stack = vec![from.to_owned()];
    while let Some(n) = stack.pop() {
        if seen.contains(&n) {
            continue;
        }
        seen.push(n.clone());
        for s in m.stmts.iter() {
            if let Stmt::Let { name, body, params, .. } = s {
                if *name == n {
                    for f in free_idents(body) {
                        if params.contains(&f) {
                            continue;
                        }
                        if f == to {
                            return true;
                        }
                        stack.push(f);
                    }
                }
            }
        }
    }
    false
}

/// R3: inline a plain (non-@, non-recursive, unannotated, parameterless) declaration at one use.
pub fn inline_decl(p: &Program) -> Vec<Step> {
    let mut out = Vec::new();
    for (mi, m) in p.modules.iter().enumerate() {
        for (si, locals, root) in roots(m) {
            for (path, in_scope, _) in sites(root, &locals) {
                let E::Var(None, n) = get(root, &path) else { continue };
                if in_scope.contains(n) || n.starts_with('@') {
                    continue;
                }
                let decls: Vec<&Stmt> = m
                    .stmts
                    .iter()
                    .filter(|s| matches!(s, Stmt::Let { name, .. } if name == n))
                    .collect();
                if decls.len() != 1 {
                    continue;
                }
                let Stmt::Let { anns, params, body, .. } = decls[0] else { continue };
                if !anns.is_empty() || !params.is_empty() || decl_graph_reaches(m, n, n) {
                    continue;
                }
                if !closed_at(body, &in_scope) {
                    continue;
                }
                let new = replace(root, &path, body);
                out.push(Step {
                    rule: "inline a declaration",
                    program: with_root(p, mi, si, new),
                });
            }
        }
    }
    out
}

/// R4: turn a closed sub-expression S[T] into a single-use function applied to T.
pub fn abstract_function(p: &Program) -> Vec<Step> {
    let mut out = Vec::new();
    let fname = fresh(p, "zf");
    let pname = fresh(p, "zp");
    for (mi, m) in p.modules.iter().enumerate() {
        for (si, locals, root) in roots(m) {
            for (path, in_scope, _) in sites(root, &locals) {
                let s = get(root, &path);
                if !closed_at(s, &in_scope) || matches!(s, E::Var(..)) {
                    continue;
                }
                // T: a proper closed sub-expression of S whose position starts from the
                // empty annotation and that is not under a rec binder of S that it uses.
                for (tpath, tscope, fresh_ann) in sites(s, &[]) {
                    // (A term and the annotations written on it are one sub-expression: the
                    // numeric / format annotations are consumed where the term is built, so
                    // `zp \`minimum: 1\`` applied to `num` is not the same program.)
                    if tpath.is_empty() || !fresh_ann {
                        continue;
                    }
                    let t = get(s, &tpath);
                    if !closed_at(t, &tscope) || !closed_at(t, &in_scope) {
                        continue;
                    }
                    let body = replace(s, &tpath, &var(&pname));
                    let call = E::App(None, fname.clone(), vec![t.clone()]);
                    let new = replace(root, &path, &call);
                    let mut q = with_root(p, mi, si, new);
                    q.modules[mi].stmts.push(fun(&fname, &[pname.as_str()], body));
                    out.push(Step {
                        rule: "abstract into a single-use function",
                        program: q,
                    });
                }
            }
        }
    }
    out
}

/// Applies `f(occurrence index)` to every identifier in print order; `Some(new)` renames.
pub fn rename_occs(p: &Program, f: &dyn Fn(usize) -> Option<String>) -> Program {
    struct W<'a> {
        next: usize,
        f: &'a dyn Fn(usize) -> Option<String>,
    }
    impl W<'_> {
        fn id(&mut self, s: &mut String) {
            if let Some(n) = (self.f)(self.next) {
                *s = n;
            }
            self.next += 1;
        }
        fn var(&mut self, q: &mut Option<String>, n: &mut String) {
            if let Some(q) = q {
                self.id(q);
            }
            self.id(n);
        }
        fn expr(&mut self, e: &mut E) {
            match e {
                E::Prim(_) | E::Str(_) | E::Num(_) | E::StatusRange(_) => {}
                E::Var(q, n) => self.var(q, n),
                E::App(q, f, args) => {
                    self.var(q, f);
                    for a in args {
                        self.expr(a);
                    }
                }
                E::Obj(v) | E::Op(_, v) => v.iter_mut().for_each(|x| self.expr(x)),
                E::Arr(i) | E::Paren(i) | E::Mark(i, _) | E::Prop(_, _, i) | E::Ann(_, i, _) => self.expr(i),
                E::Content(m, b) => {
                    for (_, v) in m {
                        self.expr(v);
                    }
                    if let Some(b) = b {
                        self.expr(b);
                    }
                }
                E::Uri(s, ps) => {
                    for s in s {
                        if let Seg::Var(v) = s {
                            self.expr(v);
                        }
                    }
                    if let Some(ps) = ps {
                        ps.iter_mut().for_each(|x| self.expr(x));
                    }
                }
                E::Xfer { params, domain, range, .. } => {
                    if let Some(ps) = params {
                        ps.iter_mut().for_each(|x| self.expr(x));
                    }
                    if let Some(d) = domain {
                        self.expr(d);
                    }
                    self.expr(range);
                }
                E::Rel(u, xs) => {
                    self.expr(u);
                    xs.iter_mut().for_each(|x| self.expr(x));
                }
                E::Rec(x, body) => {
                    self.id(x);
                    self.expr(body);
                }
            }
        }
    }
    let mut q = p.clone();
    let mut w = W { next: 0, f };
    for m in q.modules.iter_mut() {
        for s in m.stmts.iter_mut() {
            match s {
                Stmt::Use(_, qual) => {
                    if let Some(qual) = qual {
                        w.id(qual);
                    }
                }
                Stmt::Let { name, params, body, .. } => {
                    w.id(name);
                    for x in params {
                        w.id(x);
                    }
                    w.expr(body);
                }
                Stmt::Res(e) => w.expr(e),
            }
        }
    }
    q
}

/// R5: alpha-rename one binder (declaration, parameter, rec binder, import qualifier)
/// together with all its uses.
pub fn alpha_rename(p: &Program) -> Vec<Step> {
    let printed = print(p);
    let reso = refsem::resolve(p, &printed);
    if reso.unspecified.is_some() || reso.unbound || reso.duplicates {
        return vec![];
    }
    // a name that uses the whole identifier alphabet: inner and final dashes, `$`, a digit
    let new = {
        let names = all_names(p);
        (0..).map(|i| format!("z-r${i}-")).find(|n| !names.contains(n)).unwrap()
    };
    let mut out = Vec::new();
    for (bi, b) in printed.occs.iter().enumerate() {
        match b.kind {
            OccKind::DeclName | OccKind::Param | OccKind::RecBinder => {
                if b.text.starts_with('@') {
                    continue;
                }
                let uses: Vec<usize> = reso
                    .uses
                    .iter()
                    .filter(|(_, bind)| *bind == Bind::Binder(bi))
                    .map(|(u, _)| *u)
                    .collect();
                let q = rename_occs(p, &|i| {
                    if i == bi || uses.contains(&i) {
                        Some(new.clone())
                    } else {
                        None
                    }
                });
                out.push(Step {
                    rule: "alpha-rename a binder",
                    program: q,
                });
                // A parameter or rec binder may also take the name of a declaration of its
                // module that the statement it sits in never mentions: the inner binder
                // shadows the declaration there, and nothing is captured.
                if b.kind != OccKind::DeclName {
                    let Some(stmt) = printed.stmts.iter().find(|(m, s, e, _)| *m == b.module && *s <= b.start && b.end <= *e) else {
                        continue;
                    };
                    let mut taken: Vec<&str> = Vec::new();
                    for d in printed.occs.iter().filter(|d| d.kind == OccKind::DeclName && d.module == b.module) {
                        if d.text.starts_with('@') || d.text == b.text || d.text == "concat" || taken.contains(&d.text.as_str()) {
                            continue;
                        }
                        let mentioned = printed
                            .occs
                            .iter()
                            .any(|o| o.module == b.module && stmt.1 <= o.start && o.end <= stmt.2 && o.text == d.text);
                        if mentioned {
                            continue;
                        }
                        taken.push(d.text.as_str());
                        let name = d.text.clone();
                        let q = rename_occs(p, &|i| if i == bi || uses.contains(&i) { Some(name.clone()) } else { None });
                        out.push(Step {
                            rule: "rename an inner binder to the name of a declaration it shadows",
                            program: q,
                        });
                    }
                }
            }
            OccKind::ImportQualifier => {
                // all qualified uses of that qualifier in the same module
                let targets: Vec<usize> = printed
                    .occs
                    .iter()
                    .enumerate()
                    .filter(|(_, o)| o.kind == OccKind::UseQualifier && o.module == b.module && o.text == b.text)
                    .map(|(i, _)| i)
                    .collect();
                // two imports may share a qualifier: rename them together
                let imports: Vec<usize> = printed
                    .occs
                    .iter()
                    .enumerate()
                    .filter(|(_, o)| o.kind == OccKind::ImportQualifier && o.module == b.module && o.text == b.text)
                    .map(|(i, _)| i)
                    .collect();
                if imports[0] != bi {
                    continue;
                }
                let q = rename_occs(p, &|i| {
                    if imports.contains(&i) || targets.contains(&i) {
                        Some(new.clone())
                    } else {
                        None
                    }
                });
                out.push(Step {
                    rule: "alpha-rename an import qualifier",
                    program: q,
                });
            }
            _ => {}
        }
    }
    out
}

/// R6: swap two adjacent statements.
pub fn swap_statements(p: &Program) -> Vec<Step> {
    let mut out = Vec::new();
    for (mi, m) in p.modules.iter().enumerate() {
        for i in 0..m.stmts.len().saturating_sub(1) {
            let mut q = p.clone();
            q.modules[mi].stmts.swap(i, i + 1);
            out.push(Step {
                rule: "swap adjacent statements",
                program: q,
            });
        }
    }
    out
}

/// R8: move a dependency-closed set of declarations of main into a new imported module.
pub fn extract_module(p: &Program) -> Vec<Step> {
    let mut out = Vec::new();
    let main = &p.modules[0];
    // For programs whose main has no import yet, or only the import created by a first
    // extraction (a second group can then go to a second module).
    let prior: Vec<&Stmt> = main.stmts.iter().filter(|s| matches!(s, Stmt::Use(..))).collect();
    let (file, qual) = match prior.len() {
        0 => ("zx.oal", "zx"),
        1 if matches!(prior[0], Stmt::Use(p, _) if p == "zx.oal") && !p.modules.iter().any(|m| m.name == "zy.oal") => ("zy.oal", "zy"),
        _ => return out,
    };
    if p.modules.iter().any(|m| m.name == file) {
        return out;
    }
    // Declarations that use something of an existing import stay where they are.
    let imported_names: Vec<String> = p.modules.iter().skip(1).flat_map(|m| m.stmts.iter()).filter_map(|s| match s {
        Stmt::Let { name, .. } => Some(name.clone()),
        _ => None,
    }).collect();
    let decls: Vec<(usize, &String, BTreeSet<String>)> = main
        .stmts
        .iter()
        .enumerate()
        .filter_map(|(i, s)| match s {
            Stmt::Let { name, params, body, .. } => {
                let mut f = free_idents(body);
                for x in params {
                    f.remove(x);
                }
                Some((i, name, f))
            }
            _ => None,
        })
        .collect();
    let n = decls.len();
    if n == 0 || n > 5 {
        return out;
    }
    let names: Vec<&String> = decls.iter().map(|d| d.1).collect();
    for mask in 1u32..(1 << n) {
        let chosen: Vec<usize> = (0..n).filter(|i| mask & (1 << i) != 0).collect();
        // dependency closed: every declaration used by a chosen one is chosen (or a built-in)
        let closed = chosen.iter().all(|&i| {
            decls[i].2.iter().all(|f| match names.iter().position(|n| *n == f) {
                Some(j) => chosen.contains(&j),
                None => !imported_names.contains(f),
            })
        }) && chosen.iter().all(|&i| !has_qualified(match &main.stmts[decls[i].0] {
            Stmt::Let { body, .. } => body,
            _ => unreachable!(),
        }));
        if !closed {
            continue;
        }
        let moved: Vec<Stmt> = chosen.iter().map(|&i| main.stmts[decls[i].0].clone()).collect();
        let moved_names: Vec<String> = chosen.iter().map(|&i| decls[i].1.clone()).collect();
        for qualified in [false, true] {
            let mut q = p.clone();
            let keep: Vec<Stmt> = main
                .stmts
                .iter()
                .enumerate()
                .filter(|(i, _)| !chosen.iter().any(|&c| decls[c].0 == *i))
                .map(|(_, s)| s.clone())
                .collect();
            let mut stmts = vec![Stmt::Use(file.into(), if qualified { Some(qual.into()) } else { None })];
            stmts.extend(keep);
            q.modules[0].stmts = stmts;
            q.modules.push(Module {
                name: file.into(),
                stmts: moved.clone(),
            });
            if qualified {
                // qualify the uses of moved names in main that resolve to the declarations
                let printed = print(&q);
                let reso = refsem::resolve(&q, &printed);
                if reso.unspecified.is_some() {
                    continue;
                }
                // Unqualified uses in main are now unbound: add the qualifier by AST rewrite.
                q.modules[0] = qualify(&q.modules[0], &moved_names, qual);
            }
            out.push(Step {
                rule: if qualified {
                    "move declarations into a module imported with a qualifier"
                } else {
                    "move declarations into an imported module"
                },
                program: q,
            });
        }
    }
    out
}

fn has_qualified(e: &E) -> bool {
    matches!(e, E::Var(Some(_), _) | E::App(Some(_), _, _)) || children(e).into_iter().any(has_qualified)
}

fn qualify(m: &Module, names: &[String], q: &str) -> Module {
    fn go(e: &E, names: &[String], q: &str, bound: &mut Vec<String>) -> E {
        let this = match e {
            E::Var(None, n) if names.contains(n) && !bound.contains(n) => E::Var(Some(q.into()), n.clone()),
            E::App(None, f, a) if names.contains(f) && !bound.contains(f) => E::App(Some(q.into()), f.clone(), a.clone()),
            other => other.clone(),
        };
        let pushed = if let E::Rec(x, _) = &this {
            bound.push(x.clone());
            true
        } else {
            false
        };
        let cs: Vec<E> = children(&this).into_iter().map(|c| go(c, names, q, bound)).collect();
        if pushed {
            bound.pop();
        }
        with_children(&this, cs)
    }
    let stmts = m
        .stmts
        .iter()
        .map(|s| match s {
            Stmt::Let { anns, name, params, body } => {
                let mut b = params.clone();
                Stmt::Let {
                    anns: anns.clone(),
                    name: name.clone(),
                    params: params.clone(),
                    body: go(body, names, q, &mut b),
                }
            }
            Stmt::Res(e) => Stmt::Res(go(e, names, q, &mut vec![])),
            u => u.clone(),
        })
        .collect();
    Module {
        name: m.name.clone(),
        stmts,
    }
}

pub fn all_steps(p: &Program) -> Vec<Step> {
    let mut v = Vec::new();
    v.extend(parenthesise(p));
    v.extend(name_subexpr(p));
    v.extend(inline_decl(p));
    v.extend(abstract_function(p));
    v.extend(alpha_rename(p));
    v.extend(swap_statements(p));
    v.extend(extract_module(p));
    v
}

/// R7 (text level, terminal): every text obtained by inserting one trivia token at one
/// token boundary of one module.
pub fn trivia_variants(texts: &[(String, String)]) -> Vec<(String, Vec<(String, String)>)> {
    let mut out = Vec::new();
    let trivia = [" ", "\n", "/* c */ ", "// c\n", "\t", "/* é😉 */", "/* r/w: http://x/y */ "];
    for (mi, (_, text)) in texts.iter().enumerate() {
        // token boundaries: the end of every token but the last (the reference splitter of the
        // token space also cuts between the segments of a URI and the parts of `q.name`, which
        // the printer glues together)
        let mut bounds = vec![];
        match crate::tokspace::ref_split(text) {
            Some(pieces) => {
                let toks: Vec<_> = pieces.iter().filter(|p| !p.trivia).collect();
                for t in toks.iter().take(toks.len().saturating_sub(1)) {
                    bounds.push(t.end);
                }
            }
            None => {
                for (i, c) in text.bytes().enumerate() {
                    if c == b' ' {
                        bounds.push(i);
                    }
                }
            }
        }
        for pos in bounds {
            for t in trivia {
                let mut nt = String::with_capacity(text.len() + t.len());
                nt.push_str(&text[..pos]);
                nt.push(' ');
                nt.push_str(t);
                nt.push_str(&text[pos..]);
                let mut all = texts.to_vec();
                all[mi].1 = nt;
                out.push(("insert trivia".to_owned(), all));
            }
        }
    }
    out
}
