//! The real compilation pipeline, driven in-process over in-memory modules.

use crate::explore::{guard, PanicInfo};
use oal_compiler::errors::{Error as CError, Kind};
use oal_compiler::module::{Loader, ModuleSet};
use oal_compiler::tree::Tree;
use oal_model::locator::Locator;
use oal_model::span::Span;
use std::collections::BTreeMap;

pub const BASE: &str = "file:///";

pub fn locator(name: &str) -> Locator {
    Locator::try_from(format!("{BASE}{name}").as_str()).unwrap()
}

/// Name of a module relative to the base, from its locator.
pub fn module_name(loc: &Locator) -> String {
    loc.url().as_str().trim_start_matches(BASE).to_owned()
}

#[derive(Debug)]
pub enum LoadError {
    /// Lexical / syntax errors of one module: (message, span)
    Syntax(Locator, Vec<(String, Span)>),
    /// A compiler error (resolution, inference, checks, module graph).
    Compile(CError),
    /// The loader was asked for a module that does not exist.
    Missing(Locator),
}

impl From<CError> for LoadError {
    fn from(e: CError) -> Self {
        LoadError::Compile(e)
    }
}

pub fn kind_name(k: &Kind) -> &'static str {
    match k {
        Kind::Locator(_) => "Locator",
        Kind::Yaml(_) => "Yaml",
        Kind::Syntax(_) => "Syntax",
        Kind::NotInScope => "NotInScope",
        Kind::InvalidType => "InvalidType",
        Kind::CycleDetected => "CycleDetected",
        Kind::InvalidLiteral => "InvalidLiteral",
        Kind::InvalidIdentifier => "InvalidIdentifier",
        Kind::InvalidModule(_) => "InvalidModule",
    }
}

impl LoadError {
    pub fn class(&self) -> &'static str {
        match self {
            LoadError::Syntax(..) => "Syntax",
            LoadError::Compile(e) => kind_name(&e.kind),
            LoadError::Missing(_) => "Missing",
        }
    }
    /// First line of the message, without positions.
    pub fn message(&self) -> String {
        let m = match self {
            LoadError::Syntax(_, errs) => errs.first().map(|(m, _)| m.clone()).unwrap_or_default(),
            LoadError::Compile(e) => e.to_string(),
            LoadError::Missing(_) => "missing module".into(),
        };
        m.lines().next().unwrap_or("").chars().take(60).collect()
    }
    pub fn spans(&self) -> Vec<Span> {
        match self {
            LoadError::Syntax(_, errs) => errs.iter().map(|(_, s)| s.clone()).collect(),
            LoadError::Compile(e) => e.span().cloned().into_iter().collect(),
            LoadError::Missing(_) => vec![],
        }
    }
}

/// In-memory loader with the semantics of the CLI / playground loaders: any lexical or
/// syntax error rejects the module.
pub struct MemLoader<'a> {
    pub files: &'a BTreeMap<String, String>,
}

impl Loader<LoadError> for MemLoader<'_> {
    fn is_valid(&mut self, loc: &Locator) -> bool {
        self.files.contains_key(&module_name(loc))
    }

    fn load(&mut self, loc: &Locator) -> Result<String, LoadError> {
        self.files
            .get(&module_name(loc))
            .cloned()
            .ok_or_else(|| LoadError::Missing(loc.clone()))
    }

    fn parse(&mut self, loc: Locator, input: String) -> Result<Tree, LoadError> {
        let (tree, errs) = oal_syntax::parse(loc.clone(), input);
        if !errs.is_empty() {
            let errs = errs
                .iter()
                .map(|e| {
                    let span = match e {
                        oal_syntax::errors::Error::Grammar(g) => g.span(),
                        oal_syntax::errors::Error::Lexicon(l) => l.span(),
                        _ => Span::new(loc.clone(), 0..0),
                    };
                    (e.to_string(), span)
                })
                .collect();
            return Err(LoadError::Syntax(loc, errs));
        }
        tree.ok_or_else(|| LoadError::Syntax(loc, vec![]))
    }

    fn compile(&mut self, mods: &ModuleSet, loc: &Locator) -> Result<(), LoadError> {
        oal_compiler::compile::compile(mods, loc)?;
        Ok(())
    }
}

pub fn files_of(texts: &[(String, String)]) -> BTreeMap<String, String> {
    // A module "outside" the main module's directory (`../shared/m.oal`): above the root of
    // the in-memory file system `..` is the root itself.
    texts.iter().map(|(n, t)| (n.trim_start_matches("../").to_owned(), t.clone())).collect()
}

/// Loads and compiles; `texts[0]` is the main module.
pub fn load(files: &BTreeMap<String, String>, main: &str) -> Result<ModuleSet, LoadError> {
    let mut loader = MemLoader { files };
    oal_compiler::module::load(&mut loader, &locator(main))
}

pub enum EmitOutcome {
    Doc(String),
    EvalError(CError),
}

/// Evaluates and emits YAML (no base).
pub fn emit(mods: &ModuleSet) -> EmitOutcome {
    match oal_compiler::eval::eval(mods) {
        Ok(spec) => {
            let api = oal_openapi::Builder::new(spec).into_openapi();
            EmitOutcome::Doc(serde_yaml::to_string(&api).expect("serialisation"))
        }
        Err(e) => EmitOutcome::EvalError(e),
    }
}

/// Evaluates and emits with an optional base document; returns the typed document too.
pub fn emit_full(
    mods: &ModuleSet,
    base: Option<openapiv3::OpenAPI>,
) -> Result<(openapiv3::OpenAPI, String), CError> {
    let spec = oal_compiler::eval::eval(mods)?;
    let mut b = oal_openapi::Builder::new(spec);
    if let Some(base) = base {
        b = b.with_base(base);
    }
    let api = b.into_openapi();
    let yaml = serde_yaml::to_string(&api).expect("serialisation");
    Ok((api, yaml))
}

/// Complete outcome of the pipeline on a set of module texts.
pub enum Run {
    Rejected(LoadError),
    LoadPanic(PanicInfo),
    EvalError(CError, ModuleSet),
    BackendPanic(PanicInfo),
    Doc(String, ModuleSet),
}

pub fn run(files: &BTreeMap<String, String>, main: &str) -> Run {
    let mods = match guard(|| load(files, main)) {
        Err(p) => return Run::LoadPanic(p),
        Ok(Err(e)) => return Run::Rejected(e),
        Ok(Ok(m)) => m,
    };
    match guard(|| emit(&mods)) {
        Err(p) => Run::BackendPanic(p),
        Ok(EmitOutcome::Doc(d)) => Run::Doc(d, mods),
        Ok(EmitOutcome::EvalError(e)) => Run::EvalError(e, mods),
    }
}

/// Checks that a span lies inside one of the module texts, on character boundaries
/// (at most one past the end).
pub fn span_ok(files: &BTreeMap<String, String>, span: &Span) -> Result<(), String> {
    let name = module_name(span.locator());
    let Some(text) = files.get(&name) else {
        return Err(format!("span {span} names an unknown module"));
    };
    let (s, e) = (span.start(), span.end());
    if s > e || e > text.len() + 1 {
        return Err(format!("span {span} outside text of length {}", text.len()));
    }
    for o in [s, e] {
        if o <= text.len() && !text.is_char_boundary(o) {
            return Err(format!("span {span} not on a character boundary"));
        }
    }
    Ok(())
}
