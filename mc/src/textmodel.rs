//! Reference model of an editor-side text document: a line table with UTF-16 columns.
//! Written independently of `oal-client/src/lsp/unicode.rs`: it first builds the table of
//! lines (start offset, content end offset), then answers by table look-up.

#[derive(Clone, Copy, PartialEq, Eq, Debug, Hash, PartialOrd, Ord)]
pub struct Pos {
    pub line: u32,
    pub character: u32,
}

pub struct LineTable<'a> {
    pub text: &'a str,
    /// (start offset, end of content offset i.e. before the terminator, end incl. terminator)
    pub lines: Vec<(usize, usize, usize)>,
}

impl<'a> LineTable<'a> {
    pub fn new(text: &'a str) -> Self {
        let b = text.as_bytes();
        let mut lines = Vec::new();
        let mut start = 0;
        let mut i = 0;
        while i < b.len() {
            if b[i] == b'\n' {
                let content_end = if i > start && b[i - 1] == b'\r' { i - 1 } else { i };
                lines.push((start, content_end, i + 1));
                start = i + 1;
            }
            i += 1;
        }
        lines.push((start, b.len(), b.len()));
        LineTable { text, lines }
    }

    pub fn len(&self) -> usize {
        self.text.len()
    }

    /// True if the offset is between the CR and the LF of one CRLF terminator.
    pub fn inside_crlf(&self, o: usize) -> bool {
        let b = self.text.as_bytes();
        o > 0 && o < b.len() && b[o - 1] == b'\r' && b[o] == b'\n'
    }

    /// Position of a byte offset that lies on a character boundary (offsets past the end
    /// are clamped to the end).
    pub fn position(&self, o: usize) -> Pos {
        let o = o.min(self.len());
        // Last line whose start is <= o.
        let mut l = 0;
        for (i, (s, _, _)) in self.lines.iter().enumerate() {
            if *s <= o {
                l = i;
            }
        }
        let (s, _, _) = self.lines[l];
        let character = self.text[s..o].encode_utf16().count() as u32;
        Pos {
            line: l as u32,
            character,
        }
    }

    /// Offset of a position, clamped to the end of the line (before its terminator) or to
    /// the end of the text. Returns `None` in `exact` when the position falls between the
    /// two UTF-16 units of one character (no defined offset).
    pub fn offset(&self, p: Pos) -> (usize, bool) {
        let l = p.line as usize;
        if l >= self.lines.len() {
            return (self.len(), true);
        }
        let (s, ce, _) = self.lines[l];
        let mut col = 0u32;
        let mut off = s;
        for c in self.text[s..ce].chars() {
            if col == p.character {
                return (off, true);
            }
            let w = c.len_utf16() as u32;
            if col + w > p.character {
                // Inside a surrogate pair.
                return (off, false);
            }
            col += w;
            off += c.len_utf8();
        }
        (ce, true)
    }

    pub fn max_col(&self) -> u32 {
        self.lines
            .iter()
            .map(|(s, ce, _)| self.text[*s..*ce].encode_utf16().count() as u32)
            .max()
            .unwrap_or(0)
    }
}

/// Applies an LSP range edit to a client-side buffer.
pub fn apply_edit(text: &str, start: Pos, end: Pos, replacement: &str) -> String {
    let t = LineTable::new(text);
    let (s, _) = t.offset(start);
    let (e, _) = t.offset(end);
    let (s, e) = if s <= e { (s, e) } else { (s, s) };
    let mut out = String::with_capacity(text.len() + replacement.len());
    out.push_str(&text[..s]);
    out.push_str(replacement);
    out.push_str(&text[e..]);
    out
}

/// The symbols of the text alphabet used by C15(a) and C16.
pub const SYMBOLS: [&str; 6] = ["a", "\u{e9}", "\u{20ac}", "\u{1F609}", "\n", "\r\n"];

/// The `idx`-th text of exactly `n` symbols (mixed radix, first symbol most significant).
pub fn text_of(n: usize, mut idx: u64, alphabet: &[&str]) -> String {
    let k = alphabet.len() as u64;
    let mut syms = vec![0usize; n];
    for i in (0..n).rev() {
        syms[i] = (idx % k) as usize;
        idx /= k;
    }
    syms.iter().map(|i| alphabet[*i]).collect()
}
