//! C17 — go-to-definition and find-references mirror the compiler's binding relation.
//!
//! For every accepted multi-module program of the C08 space (plus module and scoping
//! fragments), in two text layouts, the real `oal-lsp` is asked for definition and
//! references at EVERY cursor position of every file; the answers are compared with the
//! reference resolver's binding relation.

use crate::explore::*;
use crate::frags;
use crate::gen::*;
use crate::lspdrv::{LspError, LspServer, TempWorkspace};
use crate::lspsweep::*;
use crate::pipeline;
use crate::props::c02;
use crate::props::c08;
use crate::refsem::Bind;
use serde_json::{json, Value};
use std::collections::BTreeSet;

pub struct C17;

/// Accepted programs with a fully specified binding relation.
pub fn sweepable(p: &Program) -> bool {
    let l = layout(p, 0);
    if l.reso.unspecified.is_some() || l.reso.unbound || l.reso.duplicates {
        return false;
    }
    matches!(guard(|| pipeline::load(&pipeline::files_of(&l.texts), "main.oal")), Ok(Ok(_)))
}

pub fn corpus(tier_full: bool) -> Vec<Program> {
    let mut out = Vec::new();
    // modules and scoping fragments
    for f in [7usize, 4] {
        for (i, p) in frags::fragment(f, false).programs.into_iter().enumerate() {
            // every 6th scoping program, and always those that use the built-in function
            if f == 4 && i % 6 != 0 && !tier_full && !print(&p).texts.iter().any(|(_, t)| t.contains("concat")) {
                continue;
            }
            out.push(p);
        }
    }
    // rec expressions: directly in a resource, nested, shadowing, inside applied functions
    for (i, p) in frags::f6_rec_programs().into_iter().enumerate() {
        if i % 2 == 0 || tier_full {
            out.push(p);
        }
    }
    // the C08 name-collision space
    let k1 = c08::Space::new(1, true);
    for i in 0..k1.count() {
        out.push(k1.program(i));
    }
    out
}

/// The second bound: the C08 space with two declarations, enumerated lazily.
pub fn second_bound(sink: &mut Sink, visit: &mut dyn FnMut(&mut Sink, u64, &Program)) {
    let k2 = c08::Space::new(2, false);
    let total = k2.count();
    let mut idx = sink.single().unwrap_or(sink.shard);
    while idx < total {
        if sink.expired() {
            return;
        }
        let p = k2.program(idx);
        visit(sink, idx, &p);
        if sink.single().is_some() {
            return;
        }
        idx += sink.nshards;
    }
}

fn empty_answer(v: &Value) -> bool {
    v.is_null() || v.as_array().map_or(false, |a| a.is_empty())
}

fn died(e: &LspError, method: &str, srv: &mut LspServer) -> (String, String) {
    match e {
        LspError::ServerDied(info) => (
            format!("server died | {method} | {}", srv.death_cause()),
            format!("server exited with {info} while answering {method}"),
        ),
        LspError::Timeout => (format!("no answer | {method} | timeout"), "request timed out".into()),
        LspError::Protocol(m) => (format!("protocol error | {method}"), m.clone()),
    }
}

/// Sweeps one layout of one program. Returns the number of requests answered.
pub fn sweep(p: &Program, variant: usize) -> Result<u64, (String, String)> {
    let l = layout(p, variant);
    let (_ws, mut srv) = l.start()?;
    let positions = l.positions();
    let mut answered = 0u64;
    // Pipelined in batches.
    for chunk in positions.chunks(48) {
        let mut ids = Vec::new();
        for (mi, pos, _) in chunk {
            let file = l.texts[*mi].0.clone();
            let pp = srv.position_params(&file, pos.line, pos.character, Value::Null);
            let d = srv.send_request("textDocument/definition", pp).map_err(|e| died(&e, "textDocument/definition", &mut srv))?;
            let rp = srv.position_params(&file, pos.line, pos.character, json!({"context": {"includeDeclaration": true}}));
            let r = srv.send_request("textDocument/references", rp).map_err(|e| died(&e, "textDocument/references", &mut srv))?;
            ids.push((d, r));
        }
        for ((mi, pos, off), (d, r)) in chunk.iter().zip(ids) {
            let def = srv.wait_response(d).map_err(|e| died(&e, "textDocument/definition", &mut srv))?;
            let refs = srv.wait_response(r).map_err(|e| died(&e, "textDocument/references", &mut srv))?;
            answered += 2;
            check_position(&l, &srv, *mi, *pos, *off, &def, &refs)?;
        }
    }
    if !srv.is_alive() {
        return Err(("server died | after the sweep".into(), srv.death_cause()));
    }
    srv.shutdown();
    Ok(answered)
}

fn location(l: &Layout, srv: &LspServer, v: &Value) -> Option<(usize, usize, usize)> {
    let uri = v.get("uri")?.as_str()?;
    let file = srv.relative_path(uri);
    let mi = l.module_index(&file)?;
    let (s, e) = range_offsets(&l.texts[mi].1, v.get("range")?)?;
    Some((mi, s, e))
}

fn check_position(
    l: &Layout,
    srv: &LspServer,
    mi: usize,
    pos: crate::textmodel::Pos,
    off: usize,
    def: &Value,
    refs: &Value,
) -> Result<(), (String, String)> {
    let here = format!("{}:{}:{}", l.texts[mi].0, pos.line, pos.character);
    let at = l.classify(mi, off);
    let expected_refs = |binder: usize| -> BTreeSet<(usize, usize, usize)> {
        l.uses_of(binder)
            .into_iter()
            .map(|u| (l.occs[u].module, l.occs[u].start, l.occs[u].end))
            .collect()
    };
    let got_refs = || -> Result<BTreeSet<(usize, usize, usize)>, (String, String)> {
        let mut out = BTreeSet::new();
        for r in refs.as_array().cloned().unwrap_or_default() {
            match location(l, srv, &r) {
                Some(x) => {
                    out.insert(x);
                }
                None => {
                    return Err((
                        "references | location outside the sources or not on exact positions".into(),
                        format!("at {here}: {r}"),
                    ))
                }
            }
        }
        Ok(out)
    };
    match at {
        At::Elsewhere => {
            if !empty_answer(def) {
                return Err((
                    "definition | non-empty answer at a position that is not an identifier".into(),
                    format!("at {here}: {def}"),
                ));
            }
            if !empty_answer(refs) {
                return Err((
                    "references | non-empty answer at a position that is not an identifier".into(),
                    format!("at {here}: {refs}"),
                ));
            }
        }
        At::IdentEnd => {}
        At::Occ(i) => {
            let o = &l.occs[i];
            match o.kind {
                OccKind::Use => match l.binding(i) {
                    Some(Bind::Binder(b)) => {
                        let bo = &l.occs[*b];
                        let (cm, cs, ce) = l.constructs[*b];
                        let loc = if def.is_object() { location(l, srv, def) } else { None };
                        match loc {
                            Some((m, s, e)) if m == bo.module && s <= bo.start && bo.end <= e && cs <= s && e <= ce && cm == m => {}
                            _ => {
                                return Err((
                                    format!("definition | does not point at the binder | use bound to a {:?}", bo.kind),
                                    format!(
                                        "at {here} (`{}`): answer {def}; binder `{}` at {}:{}..{} within construct {}..{}",
                                        o.text, bo.text, l.texts[bo.module].0, bo.start, bo.end, cs, ce
                                    ),
                                ))
                            }
                        }
                        let want = expected_refs(*b);
                        let got = got_refs()?;
                        if got != want {
                            return Err((
                                format!("references | differ from the uses bound to the binder | on a use bound to a {:?}", bo.kind),
                                format!("at {here} (`{}`): got {got:?}, bound uses {want:?}", o.text),
                            ));
                        }
                    }
                    Some(Bind::Builtin) => {
                        if !empty_answer(def) {
                            return Err((
                                "definition | non-empty answer for a built-in".into(),
                                format!("at {here}: {def}"),
                            ));
                        }
                        // the uses bound to the built-in, across all modules
                        let want: BTreeSet<(usize, usize, usize)> = l
                            .reso
                            .uses
                            .iter()
                            .filter(|(u, b)| *b == Bind::Builtin && l.occs[*u].text == o.text)
                            .map(|(u, _)| (l.occs[*u].module, l.occs[*u].start, l.occs[*u].end))
                            .collect();
                        let got = got_refs()?;
                        if got != want {
                            return Err((
                                "references | differ from the uses bound to the built-in | on a use of a built-in".into(),
                                format!("at {here} (`{}`): got {got:?}, uses of the built-in {want:?}", o.text),
                            ));
                        }
                    }
                    _ => {}
                },
                OccKind::DeclName => {
                    let want = expected_refs(i);
                    let got = got_refs()?;
                    if got != want {
                        return Err((
                            "references | differ from the uses bound to the declaration | on the declaration name".into(),
                            format!("at {here} (`{}`): got {got:?}, bound uses {want:?}", o.text),
                        ));
                    }
                }
                // Cursor on a parameter or a rec binder: whether the server answers is not
                // fixed, but "every reference returned goes back to that declaration": whatever
                // it returns must be uses bound to this very binder.
                OccKind::Param | OccKind::RecBinder => {
                    let want = expected_refs(i);
                    let got = got_refs()?;
                    if !got.is_subset(&want) {
                        return Err((
                            format!("references | a reference that is not bound to the binder under the cursor | on a {:?}", o.kind),
                            format!("at {here} (`{}`): got {got:?}, uses bound to it {want:?}", o.text),
                        ));
                    }
                }
                // Cursor on the qualifier part of `q.name`: which identifier is meant is not
                // fixed, but the two requests must mean the same one: when go-to-definition
                // answers with the binder of `name`, find-references answers with its uses.
                OccKind::UseQualifier => {
                    let next = l.occs.iter().enumerate().find(|(_, u)| u.module == o.module && u.kind == OccKind::Use && u.start >= o.end && u.start <= o.end + 2);
                    if let Some((ui, _)) = next {
                        if let Some(Bind::Binder(b)) = l.binding(ui) {
                            let bo = &l.occs[*b];
                            let (cm, cs, ce) = l.constructs[*b];
                            let loc = if def.is_object() { location(l, srv, def) } else { None };
                            let treats_as_name = matches!(loc, Some((m, s, e)) if m == bo.module && s <= bo.start && bo.end <= e && cs <= s && e <= ce && cm == m);
                            if treats_as_name {
                                let want = expected_refs(*b);
                                let got = got_refs()?;
                                if got != want {
                                    return Err((
                                        "references | differ from the uses bound to the binder that go-to-definition names at the same position | on the qualifier part of a qualified use".into(),
                                        format!("at {here} (`{}`): definition {def}; references {got:?}, bound uses {want:?}", o.text),
                                    ));
                                }
                            }
                        }
                    }
                }
                // Cursor on an import qualifier: the property does not say.
                _ => {}
            }
        }
    }
    Ok(())
}

pub fn judge(p: &Program, sink: Option<&mut Sink>) -> Outcome {
    let mut total = 0u64;
    for variant in variants_of(p) {
        match sweep(p, variant) {
            Ok(n) => total += n,
            Err((sig, summary)) => {
                if sig.starts_with("harness:") {
                    panic!("{sig}: {summary}");
                }
                let mut case = c02::program_json(p, &layout(p, variant).texts);
                case["variant"] = json!(variant);
                return Outcome::bad("lsp-disagrees", sig, summary, case);
            }
        }
    }
    if let Some(s) = sink {
        s.count("requests", total);
        s.count("sessions", variants_of(p).len() as u64);
    }
    Outcome::ok("answers mirror the binding relation", Some(hash_of(&print(p).texts)))
}

impl Engine for C17 {
    fn id(&self) -> &'static str {
        "C17"
    }
    fn engine_name(&self) -> &'static str {
        "lsp-sweep"
    }
    fn phases(&self, tier: Tier) -> Vec<Phase> {
        match tier {
            Tier::Quick => vec![Phase::new("modules + scoping fragments, C08 space with <= 1 declaration: every cursor position, 2 layouts", json!({"full": false}))],
            Tier::Thorough => vec![
                Phase::new("modules + scoping fragments, C08 space with <= 1 declaration: every cursor position, 2 layouts", json!({"full": false})),
                Phase::new("C08 space with 2 declarations: every cursor position, 2 layouts", json!({"full": true})),
            ],
        }
    }
    fn run_phase(&self, phase: &Phase, sink: &mut Sink) {
        let full = phase.param["full"].as_bool().unwrap();
        if full {
            second_bound(sink, &mut |sink, idx, p| {
                if sweepable(p) {
                    sink.visit(idx, || c02::program_json(p, &print(p).texts), |s| judge(p, Some(s)));
                }
            });
            return;
        }
        let progs = corpus(false);
        for (i, p) in progs.iter().enumerate() {
            let idx = i as u64;
            if !sink.mine(idx) {
                continue;
            }
            if sink.expired() {
                return;
            }
            if !sweepable(p) {
                continue;
            }
            sink.visit(idx, || c02::program_json(p, &print(p).texts), |s| judge(p, Some(s)));
        }
    }
    fn replay(&self, case: &Value) -> Outcome {
        match serde_json::from_value::<Program>(case["ast"].clone()) {
            Ok(p) => judge(&p, None),
            Err(_) => Outcome::ok("replay needs the ast", None),
        }
    }
    fn rule(&self) -> String {
        "accepted programs (binding relation fully specified) of the module and scoping fragments and of the C08 name-collision space (imports unqualified / `as m` / `as a`, declarations, parameters and rec binders over colliding names); each in two layouts (as printed; every file prefixed with a multi-byte block comment and CRLF line ends); one real oal-lsp per layout; definition and references requested at EVERY UTF-16 position of every file. Oracle: on a use bound to a binder the definition lies in the binder's file, contains the binder identifier and lies within the binding construct; at non-identifier positions both answers are empty; references on a declaration name or on any use == exactly the uses bound to that binder across all modules (hence every reference goes back to its declaration); references on a parameter or rec binder is a subset of the uses bound to it. Non-trivial = program with >= 1 identifier use; distinct = distinct programs".into()
    }
    fn assumptions(&self) -> Vec<String> {
        vec![
            "cursor exactly at the end of an identifier or on an import qualifier: the property does not fix the answer; not checked. On the qualifier part of `q.name` the two requests must agree: if go-to-definition answers with the binder of `name`, find-references must answer with exactly its uses. On a parameter or rec binder itself an empty answer is accepted, but every reference returned must be a use bound to that binder".into(),
            "programs that the compiler rejects or whose binding relation has an unspecified collision are skipped".into(),
        ]
    }
    fn budget_s(&self, tier: Tier) -> u64 {
        match tier {
            Tier::Quick => 55,
            Tier::Thorough => 1500,
        }
    }
    fn case_budget_ms(&self) -> u64 {
        60_000
    }
    fn state_counters(&self, m: &Stats) -> Option<(u64, u64, u64)> {
        let s = *m.counters.get("sessions").unwrap_or(&0);
        let r = *m.counters.get("requests").unwrap_or(&0);
        Some((s.max(1), r.max(1), s))
    }
}
