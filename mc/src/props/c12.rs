//! C12 — parser memoisation is invisible and keeps parsing linear.
//!
//! The parser is run twice on the same token list, `Context::new(tokens)` and
//! `Context::new(tokens).without_cache()`, exactly as `oal_syntax::parse` drives it.
//! (a) tree dump (node kind / token kind / span, pre-order with depth) and error list are
//! identical; (b) with the cache, token reads <= 64·n + 64 for n non-trivia tokens;
//! (c) for every nesting family, reads(d) with the cache is affine in d — one whole
//! family is one case; (d) the uncached half is only run where its cost is bounded.

use crate::explore::*;
use crate::tokspace::*;
use oal_model::grammar::{Context, NodeCursor, ParserMatch, SyntaxTrunk};
use oal_model::lexicon::Lexeme;
use oal_model::locator::Locator;
use oal_syntax::lexer::{tokenize, TokenKind};
use oal_syntax::parser::{parse_program, Gram};
use serde_json::{json, Value};

pub struct C12;

const MAIN: &str = "file:///main.oal";
/// The uncached parse is run when the static nesting weight of the input is at most this
/// (cost ~ 4^weight reads per token: 6 keeps it well below 10^6 reads).
const MAX_UNCACHED_WEIGHT: u32 = 6;
const READS_PER_TOKEN: u64 = 64;

type Fail = (String, String);

#[derive(Clone, Debug, PartialEq, Eq, Hash)]
enum Entry {
    Tree(u32, usize, Option<(usize, usize)>),
    Leaf(u32, TokenKind, (usize, usize)),
    Error(u32),
}

#[derive(Clone, Debug, PartialEq, Eq)]
pub struct Run {
    dump: Vec<Entry>,
    errors: Vec<(String, usize, usize)>,
    has_tree: bool,
}

pub struct Counters {
    pub reads: u64,
    pub hits: u64,
    pub cache_len: u64,
    /// non-trivia tokens
    pub tokens: u64,
    pub weight: u32,
}

/// Static bound on the nesting that multiplies the work of the uncached parser: open
/// brackets plus the properties / content tags pending in each of them.
pub fn nest_weight(kinds: &[TokenKind]) -> u32 {
    let mut stack: Vec<u32> = vec![0];
    let mut max = 0u32;
    for k in kinds {
        match k {
            TokenKind::ControlBraceLeft
            | TokenKind::ControlParenLeft
            | TokenKind::ControlBracketLeft
            | TokenKind::ControlChevronLeft => stack.push(0),
            TokenKind::ControlBraceRight
            | TokenKind::ControlParenRight
            | TokenKind::ControlBracketRight
            | TokenKind::ControlChevronRight => {
                if stack.len() > 1 {
                    stack.pop();
                }
            }
            TokenKind::Property
            | TokenKind::ContentMedia
            | TokenKind::ContentHeaders
            | TokenKind::ContentStatus => *stack.last_mut().unwrap() += 1,
            TokenKind::ControlComma => *stack.last_mut().unwrap() = 0,
            TokenKind::ControlSemicolon => {
                stack.clear();
                stack.push(0);
            }
            _ => {}
        }
        let w = (stack.len() as u32 - 1) + stack.iter().sum::<u32>();
        max = max.max(w);
    }
    max
}

fn dump_tree(tree: &oal_model::grammar::SyntaxTree<(), Gram>) -> Vec<Entry> {
    let mut out = Vec::new();
    let mut depth = 0u32;
    for ev in tree.root().traverse() {
        match ev {
            NodeCursor::Start(n) => {
                out.push(match n.syntax().trunk() {
                    SyntaxTrunk::Leaf(_) => {
                        let t = n.token();
                        let s = t.span();
                        Entry::Leaf(depth, t.kind(), (s.start(), s.end()))
                    }
                    SyntaxTrunk::Tree(k) => {
                        Entry::Tree(depth, *k as usize, n.span().map(|s| (s.start(), s.end())))
                    }
                    SyntaxTrunk::Error => Entry::Error(depth),
                });
                depth += 1;
            }
            NodeCursor::End(_) => depth -= 1,
        }
    }
    out
}

/// One parse, driven the way `oal_syntax::parse` does it.
fn parse_once(text: &str, cached: bool, want_dump: bool) -> Result<(Run, Counters), PanicInfo> {
    guard(|| {
        let loc = Locator::try_from(MAIN).unwrap();
        let (tokens, lex_errs) = tokenize(loc, text);
        let mut errors: Vec<(String, usize, usize)> = lex_errs
            .iter()
            .map(|e| ("tokenization".to_owned(), e.span().start(), e.span().end()))
            .collect();
        let Some(tokens) = tokens else {
            return (
                Run { dump: vec![], errors, has_tree: false },
                Counters { reads: 0, hits: 0, cache_len: 0, tokens: 0, weight: 0 },
            );
        };
        let mut kinds = Vec::with_capacity(tokens.len());
        let mut c = tokens.head();
        while c.is_valid() {
            let k = tokens.token_span(c).0.kind();
            if !k.is_trivia() {
                kinds.push(k);
            }
            c = tokens.advance(c);
        }
        let weight = nest_weight(&kinds);
        let mut ctx: Context<(), Gram> = Context::new(tokens);
        if !cached {
            ctx = ctx.without_cache();
        }
        let cursor = ctx.head();
        let mut root = None;
        match parse_program(&mut ctx, cursor) {
            Ok((s, r)) => {
                if s.is_valid() {
                    let sp = ctx.span(s);
                    errors.push(("cannot parse remaining input".to_owned(), sp.start(), sp.end()));
                }
                if let ParserMatch::Node(n) = r {
                    root = Some(n);
                }
            }
            Err(err) => {
                let sp = err.span();
                errors.push((err.to_string(), sp.start(), sp.end()));
            }
        }
        // counters are read before the context is consumed
        let (reads, hits, cache_len) = ctx.verif_counters();
        let counters = Counters {
            reads: reads as u64,
            hits: hits as u64,
            cache_len: cache_len as u64,
            tokens: kinds.len() as u64,
            weight,
        };
        let (dump, has_tree) = match root {
            Some(n) => {
                let tree = ctx.tree().finalize(n);
                (if want_dump { dump_tree(&tree) } else { vec![] }, true)
            }
            None => (vec![], false),
        };
        (Run { dump, errors, has_tree }, counters)
    })
}

fn panicked(which: &str, p: &PanicInfo, text: &str) -> Fail {
    (
        format!("panic | {} | parser {which}", stable_site(&p.location, &p.message)),
        format!("the parser ({which}) panicked at {}: {} on {}", p.location, p.message, show(text)),
    )
}

fn show_entry(e: &Entry) -> String {
    match e {
        Entry::Tree(d, k, s) => format!("depth {d} node kind #{k} span {s:?}"),
        Entry::Leaf(d, k, s) => format!("depth {d} leaf {k:?} span {s:?}"),
        Entry::Error(d) => format!("depth {d} error node"),
    }
}

fn check_bound(c: &Counters, text: &str) -> Result<(), Fail> {
    let bound = READS_PER_TOKEN * c.tokens + READS_PER_TOKEN;
    if c.reads > bound {
        return Err((
            "work | parser with memo table | more than 64 token reads per token".to_owned(),
            format!(
                "{} token reads for {} tokens (bound {bound}, {} cache hits, {} cache entries) on {}",
                c.reads,
                c.tokens,
                c.hits,
                c.cache_len,
                show(text)
            ),
        ));
    }
    Ok(())
}

pub struct Obs {
    pub tag: &'static str,
    pub class: u64,
    pub reads: u64,
    pub states: u64,
    pub uncached_reads: u64,
}

/// Checks (a), (b) and (d) on one text; the uncached half runs up to `max_weight`.
pub fn check_text(text: &str, max_weight: u32) -> Result<Obs, Fail> {
    let (with, cw) = parse_once(text, true, true).map_err(|p| panicked("with memo table", &p, text))?;
    check_bound(&cw, text)?;
    let class = hash_of(&(&with.dump, &with.errors));
    if cw.weight > max_weight {
        return Ok(Obs {
            tag: "cached only (nesting too deep for the uncached parser)",
            class,
            reads: cw.reads,
            states: cw.cache_len,
            uncached_reads: 0,
        });
    }
    let (without, cu) =
        parse_once(text, false, true).map_err(|p| panicked("without memo table", &p, text))?;
    if cu.hits != 0 || cu.cache_len != 0 {
        return Err((
            "memo | Context::without_cache | the uncached context used the memo table".to_owned(),
            format!("{} hits, {} entries on {}", cu.hits, cu.cache_len, show(text)),
        ));
    }
    if with.errors != without.errors || with.has_tree != without.has_tree {
        return Err((
            "memo | parser with / without memo table | different errors".to_owned(),
            format!(
                "{}: with memo table {:?} (tree: {}), without {:?} (tree: {})",
                show(text),
                with.errors,
                with.has_tree,
                without.errors,
                without.has_tree
            ),
        ));
    }
    if with.dump != without.dump {
        let i = with
            .dump
            .iter()
            .zip(without.dump.iter())
            .position(|(a, b)| a != b)
            .unwrap_or(with.dump.len().min(without.dump.len()));
        return Err((
            "memo | parser with / without memo table | different trees".to_owned(),
            format!(
                "{}: {} nodes with memo table, {} without; first difference at node #{i}: with [{}], without [{}]",
                show(text),
                with.dump.len(),
                without.dump.len(),
                with.dump.get(i).map(show_entry).unwrap_or_else(|| "nothing".into()),
                without.dump.get(i).map(show_entry).unwrap_or_else(|| "nothing".into()),
            ),
        ));
    }
    Ok(Obs {
        tag: if with.errors.is_empty() {
            "identical, parsed"
        } else {
            "identical, syntax error"
        },
        class,
        reads: cw.reads,
        states: cw.cache_len,
        uncached_reads: cu.reads,
    })
}

/// (c) one whole family: reads(d) affine in d, the linear bound at every depth, and
/// equivalence with the uncached parser at the shallow depths.
pub fn check_family(name: &str, thorough: bool) -> Result<Obs, Fail> {
    let fam = family(name).ok_or_else(|| ("harness | unknown family".to_owned(), name.to_owned()))?;
    let mut total_reads = 0u64;
    let mut states = 0u64;
    let mut uncached = 0u64;
    let mut series: Vec<(usize, u64)> = Vec::new();
    let max_d = match fam.kind {
        FamilyKind::Digits => 40,
        _ => 200,
    };
    for d in 1..=max_d {
        let text = family_text(name, d);
        let (_, c) = parse_once(&text, true, false).map_err(|p| panicked("with memo table", &p, &text))?;
        check_bound(&c, &text)?;
        total_reads += c.reads;
        states += c.cache_len;
        series.push((d, c.reads));
        // Equivalence at the depths the uncached parser can afford (and on all chains of
        // the quick depth list, which are flat).
        let shallow = c.weight <= MAX_UNCACHED_WEIGHT && (d <= 10 || QUICK_DEPTHS.contains(&d));
        if shallow {
            let o = check_text(&text, MAX_UNCACHED_WEIGHT)?;
            uncached += o.uncached_reads;
        }
    }
    match fam.kind {
        FamilyKind::Digits => {
            // one literal: the work may not depend on its length at all (an out-of-range
            // literal is dropped by the lexer, hence two plateaus)
            let distinct: std::collections::BTreeSet<u64> = series.iter().map(|s| s.1).collect();
            if distinct.len() > 2 {
                return Err((
                    "work | parser with memo table | reads depend on the length of a literal".to_owned(),
                    format!("family {name}: reads by number of digits {series:?}"),
                ));
            }
        }
        _ => {
            let diffs: Vec<i64> = series.windows(2).map(|w| w[1].1 as i64 - w[0].1 as i64).collect();
            let step = diffs[0];
            if let Some(i) = diffs.iter().position(|x| *x != step) {
                return Err((
                    "work | parser with memo table | reads not affine in the nesting depth".to_owned(),
                    format!(
                        "family {name} ({}): reads(d+1) - reads(d) is {step} from d = 1 but {} at d = {}; reads(1..=8) = {:?}",
                        show(&family_text(name, 3)),
                        diffs[i],
                        i + 1,
                        series.iter().take(8).map(|s| s.1).collect::<Vec<_>>()
                    ),
                ));
            }
            if step < 0 {
                return Err((
                    "work | parser with memo table | reads decrease with depth".to_owned(),
                    format!("family {name}: step {step}"),
                ));
            }
            if fam.kind == FamilyKind::Chain {
                let longs: &[usize] = if thorough { &LONG_CHAIN } else { &QUICK_CHAIN[7..] };
                for d in longs.iter().copied() {
                    let text = family_text(name, d);
                    let (_, c) = parse_once(&text, true, false)
                        .map_err(|p| panicked("with memo table", &p, &text))?;
                    check_bound(&c, &text)?;
                    total_reads += c.reads;
                    states += c.cache_len;
                    let want = series[0].1 as i64 + step * (d as i64 - 1);
                    if c.reads as i64 != want {
                        return Err((
                            "work | parser with memo table | reads not affine in the chain length".to_owned(),
                            format!(
                                "family {name}: {} reads at length {d}, affine extrapolation from lengths 1..=200 gives {want}",
                                c.reads
                            ),
                        ));
                    }
                    if c.weight <= MAX_UNCACHED_WEIGHT {
                        let o = check_text(&text, MAX_UNCACHED_WEIGHT)?;
                        uncached += o.uncached_reads;
                    }
                }
            }
        }
    }
    Ok(Obs {
        tag: "family affine",
        class: hash_of(&(name, &series)),
        reads: total_reads,
        states,
        uncached_reads: uncached,
    })
}

fn to_outcome(r: Result<Obs, Fail>, sink: Option<&mut Sink>, case: Value) -> Outcome {
    match r {
        Ok(o) => {
            if let Some(s) = sink {
                s.count("states", o.states);
                s.count("transitions", o.reads);
                s.count("uncached_reads", o.uncached_reads);
                s.count("traces", 1);
            }
            Outcome::ok(o.tag, Some(o.class))
        }
        Err((sig, summary)) => Outcome::bad("violation", sig, summary, case),
    }
}

/// A program of `n` statements of one shape, each with its own names.
fn flat_program(kind: usize, n: usize) -> String {
    let mut t = String::new();
    for i in 0..n {
        match kind {
            0 => t.push_str(&format!("let v{i} = {{ 'a num, 'b [str] }};\n")),
            1 => t.push_str(&format!("res /r{i}/{{ 'id int }} on get -> <status=200, {{}}> :: <status=404>;\n")),
            _ => t.push_str(&format!("# description: \"d{i}\"\nlet f{i} x y = (x | y) & {{ 'p{i}? uri }} `title: t`;\n")),
        }
    }
    t
}

fn flat_cases(thorough: bool) -> Vec<(usize, usize)> {
    let sizes: &[usize] = if thorough { &[1000, 3000, 6000, 10_000] } else { &[1000, 3000, 6000] };
    let mut v = Vec::new();
    for kind in 0..3 {
        for n in sizes {
            v.push((kind, *n));
        }
    }
    v
}

impl Engine for C12 {
    fn id(&self) -> &'static str {
        "C12"
    }
    fn engine_name(&self) -> &'static str {
        "tokspace"
    }
    fn phases(&self, tier: Tier) -> Vec<Phase> {
        let thorough = tier == Tier::Thorough;
        let mut v = vec![Phase::new("corpus of valid programs, 0 deviations", p_corpus())];
        let full = if thorough { 4 } else { 2 };
        for k in 0..=full {
            v.push(Phase::new(
                &format!("full token alphabet, sequences of {k}"),
                p_seq("full54", k),
            ));
        }
        let reduced = if thorough { 7 } else { 5 };
        for k in full + 1..=reduced {
            v.push(Phase::new(
                &format!("reduced alphabet (18), sequences of {k}"),
                p_seq("reduced18", k),
            ));
        }
        if thorough {
            for k in [5, 6] {
                v.push(Phase::new(
                    &format!("reduced alphabet (25), sequences of {k}"),
                    p_seq("reduced25", k),
                ));
            }
        }
        v.push(Phase::new(
            "corpus mutants, 1 deviation (whole corpus)",
            p_mut(1, 100_000),
        ));
        if thorough {
            v.push(Phase::new(
                "corpus mutants, 2 deviations (programs of <= 12 tokens)",
                p_mut(2, 12),
            ));
        }
        v.push(Phase::new(
            "corpus and generated single-module programs with one matched pair of parentheses removed",
            p_unparen(),
        ));
        v.push(Phase::new(
            "corpus with one token of the full alphabet inserted at one site",
            p_ins(if thorough { 100_000 } else { 40 }),
        ));
        v.push(Phase::new(
            "corpus programs cut after each token (end of text, or one line break, right after it)",
            p_prefix(),
        ));
        v.push(Phase::new(
            "number literals at and around the ends of the integer types, in five places",
            p_numbers(),
        ));
        v.push(Phase::new(
            "every string of <= 5 characters over the alphabet of a token class (path segment, property name, identifier, reference)",
            p_lexemes(),
        ));
        v.push(Phase::new(
            "ordered pairs of generated expressions of <= 2 constructors side by side, unparenthesised, in six list positions",
            p_pairs(),
        ));
        v.push(Phase::new(
            "syntactically valid programs: kind-agnostic expressions of <= 2 constructors x 28 contexts",
            json!({"space": "programs", "k": 2}),
        ));
        v.push(Phase::new(
            "syntactically valid programs: kind-agnostic expressions of 3 constructors x 28 contexts",
            json!({"space": "programs", "k": 3}),
        ));
        if thorough {
            v.push(Phase::new(
                "syntactically valid programs: kind-agnostic expressions of 4 constructors x 28 contexts",
                json!({"space": "programs", "k": 4}),
            ));
        }
        v.push(Phase::new(
            "nesting families, depths 1..=200, each family one case; flat programs of 1000..6000 (thorough 10000) statements in three shapes",
            json!({"space": "families", "thorough": thorough}),
        ));
        v
    }
    fn run_phase(&self, phase: &Phase, sink: &mut Sink) {
        if phase.param["space"] == "families" {
            let thorough = phase.param["thorough"].as_bool().unwrap_or(false);
            for (i, f) in FAMILIES.iter().enumerate() {
                if sink.expired() {
                    break;
                }
                if !sink.mine(i as u64) {
                    continue;
                }
                sink.visit(
                    i as u64,
                    || json!({"family": f.name, "thorough": thorough, "example": family_text(f.name, 3)}),
                    |s| to_outcome(check_family(f.name, thorough), Some(s), Value::Null),
                );
            }
            // long flat programs (thousands of statements, nesting weight of one statement):
            // the memo table holds 10^5..10^6 entries and must still be invisible
            for (j, (kind, n)) in flat_cases(thorough).into_iter().enumerate() {
                let i = (FAMILIES.len() + j) as u64;
                if sink.expired() {
                    break;
                }
                if !sink.mine(i) {
                    continue;
                }
                sink.visit(
                    i,
                    || json!({"flat": kind, "statements": n}),
                    |s| to_outcome(check_text(&flat_program(kind, n), MAX_UNCACHED_WEIGHT), Some(s), Value::Null),
                );
            }
            return;
        }
        if phase.param["space"] == "programs" {
            // every generated program is inside the grammar: the memo table must be invisible on
            // accepted input as well (a cached failure must never shadow a later success)
            let k = phase.param["k"].as_u64().unwrap() as usize;
            let all = crate::space::agnostic_exprs(k);
            let sizes: Vec<usize> = if k == 2 { vec![1, 2] } else { vec![k] };
            let mut idx = 0u64;
            for sz in sizes {
                for e in all[sz].iter() {
                    for c in 0..crate::space::N_CONTEXTS {
                        if sink.mine(idx) {
                            if sink.expired() {
                                return;
                            }
                            let printed = crate::gen::print(&crate::space::context(c, e));
                            let text = printed.texts[0].1.clone();
                            sink.visit(
                                idx,
                                || json!({"text": text, "made": "generated program"}),
                                |s| to_outcome(check_text(&text, MAX_UNCACHED_WEIGHT), Some(s), Value::Null),
                            );
                        }
                        idx += 1;
                    }
                }
            }
            return;
        }
        let space = TextSpace::from_param(&phase.param);
        walk_texts(&space, sink, &describe_text, &|_, text, s| {
            to_outcome(check_text(text, MAX_UNCACHED_WEIGHT), Some(s), Value::Null)
        });
    }
    fn replay(&self, case: &Value) -> Outcome {
        if let Some(f) = case["family"].as_str() {
            return to_outcome(
                check_family(f, case["thorough"].as_bool().unwrap_or(false)),
                None,
                case.clone(),
            );
        }
        if let (Some(kind), Some(n)) = (case["flat"].as_u64(), case["statements"].as_u64()) {
            return to_outcome(check_text(&flat_program(kind as usize, n as usize), MAX_UNCACHED_WEIGHT), None, case.clone());
        }
        let text = case["text"].as_str().unwrap_or("");
        to_outcome(check_text(text, MAX_UNCACHED_WEIGHT), None, case.clone())
    }
    fn rule(&self) -> String {
        "token lists: every sequence of <= L tokens over the full alphabet (54) and of L+1..=L' over the reduced grammar alphabet, the corpus and all its 1-deviation token mutants, 42 nesting / chain / digit families (closed, unclosed and mismatched brackets). Each list is parsed by parse_program through Context::new(tokens) and Context::new(tokens).without_cache() (the latter only when the static nesting weight is <= 6, the uncached parser being exponential in it): identical pre-order dump (depth, node kind / token kind, span) and error list; with the memo table reads <= 64·n + 64; per family reads(d), d = 1..=200 (chains also 1000 and 10000, thorough 500..10000), has constant first differences. states = memoised (cursor, production) pairs, transitions = token reads with the memo table, both summed over all cases (hook Context::verif_counters); a family counts as one case".into()
    }
    fn case_budget_ms(&self) -> u64 {
        // the flat programs take seconds on a busy machine
        60_000
    }
    fn crash_signature(&self, kind: &str, _case: &Value) -> String {
        format!("{kind} | parser with and without memo table in-process | worker process died or stalled on one case")
    }
    fn assumptions(&self) -> Vec<String> {
        vec![
            "equivalence with the uncached parser is not checked on inputs whose static nesting weight exceeds 6 (histogram key `cached only`); the linear bound is checked on all".into(),
            "n counts non-trivia tokens".into(),
        ]
    }
    fn state_counters(&self, m: &Stats) -> Option<(u64, u64, u64)> {
        let g = |k: &str| *m.counters.get(k).unwrap_or(&0);
        Some((g("states"), g("transitions"), g("traces")))
    }
}
