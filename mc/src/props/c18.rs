//! C18 — rename is meaning-preserving and never crashes the server.
//!
//! Same programs and layouts as C17. At every cursor position `prepareRename` is asked;
//! wherever it answers a range, `rename` to a fresh name is requested and the edits are
//! checked: server alive, edits disjoint, each replacing exactly one occurrence of the old
//! name, the set of edits equal to the binder plus all and only its uses (reference
//! resolver), and the edited sources accepted with the same document (for an @reference:
//! the same document with that component renamed).

use crate::doc;
use crate::explore::*;
use crate::gen::*;
use crate::lspdrv::{LspError, LspServer, TempWorkspace};
use crate::lspsweep::*;
use crate::pipeline::{self, Run};
use crate::props::c02;
use crate::props::c17;
use crate::refsem::Bind;
use serde_json::{json, Value};
use std::collections::{BTreeMap, BTreeSet};

pub struct C18;

fn died(e: &LspError, method: &str, srv: &mut LspServer, on: &str) -> (String, String) {
    match e {
        LspError::ServerDied(info) => (
            format!("server died | {method} | {} | cursor on {on}", srv.death_cause()),
            format!("server exited with {info} while answering {method}"),
        ),
        LspError::Timeout => (format!("no answer | {method} | timeout"), "request timed out".into()),
        LspError::Protocol(m) => (format!("protocol error | {method}"), m.clone()),
    }
}

fn emitted(texts: &[(String, String)]) -> Result<doc::Doc, String> {
    emitted_text(texts).map(|(d, _)| d)
}

/// The abstract document and the YAML text it was read from.
fn emitted_text(texts: &[(String, String)]) -> Result<(doc::Doc, String), String> {
    match pipeline::run(&pipeline::files_of(texts), "main.oal") {
        Run::Doc(y, _) => {
            let v: serde_yaml::Value = serde_yaml::from_str(&y).map_err(|e| e.to_string())?;
            Ok((doc::extract(&v), y))
        }
        Run::Rejected(e) => Err(format!("rejected: {}", e.class())),
        Run::EvalError(e, _) => Err(format!("evaluation error: {e}")),
        Run::LoadPanic(p) | Run::BackendPanic(p) => Err(format!("panic: {}", p.message.chars().take(80).collect::<String>())),
    }
}

fn rename_component(d: &doc::Doc, old: &str, new: &str) -> doc::Doc {
    fn go(s: &doc::S, old: &str, new: &str) -> doc::S {
        match s {
            doc::S::Ref(n) if n == old => doc::S::Ref(new.to_owned()),
            doc::S::Ref(n) => doc::S::Ref(n.clone()),
            doc::S::Node(n) => {
                let mut n = (**n).clone();
                n.kind = match &n.kind {
                    doc::SK::Array(i) => doc::SK::Array(go(i, old, new)),
                    doc::SK::Object { props, required } => doc::SK::Object {
                        props: props.iter().map(|(k, v)| (k.clone(), go(v, old, new))).collect(),
                        required: required.clone(),
                    },
                    doc::SK::AllOf(v) => doc::SK::AllOf(v.iter().map(|x| go(x, old, new)).collect()),
                    doc::SK::OneOf(v) => doc::SK::OneOf(v.iter().map(|x| go(x, old, new)).collect()),
                    doc::SK::AnyOf(v) => doc::SK::AnyOf(v.iter().map(|x| go(x, old, new)).collect()),
                    k => k.clone(),
                };
                doc::S::Node(Box::new(n))
            }
        }
    }
    let mut out = d.clone();
    let m = |media: &mut Vec<(String, doc::Media)>| {
        for (_, md) in media.iter_mut() {
            if let Some(s) = &md.schema {
                md.schema = Some(go(s, old, new));
            }
        }
    };
    for (_, pi) in out.paths.iter_mut() {
        for p in pi.params.iter_mut() {
            p.schema = go(&p.schema, old, new);
        }
        for (_, op) in pi.ops.iter_mut() {
            for p in op.params.iter_mut() {
                p.schema = go(&p.schema, old, new);
            }
            if let Some(b) = op.body.as_mut() {
                m(&mut b.content);
            }
            for (_, r) in op.responses.iter_mut() {
                m(&mut r.content);
                for (_, h) in r.headers.iter_mut() {
                    h.schema = go(&h.schema, old, new);
                }
            }
        }
    }
    out.components = d
        .components
        .iter()
        .map(|(k, v)| (if k == old { new.to_owned() } else { k.clone() }, go(v, old, new)))
        .collect();
    out
}

pub fn sweep(p: &Program, variant: usize) -> Result<(u64, u64), (String, String)> {
    let l = layout(p, variant);
    let original = emitted(&l.texts).map_err(|e| ("harness: original not accepted".to_owned(), e))?;
    let (_ws, mut srv) = l.start()?;
    let mut requests = 0u64;
    let mut renames = 0u64;
    let mut opened: BTreeSet<usize> = BTreeSet::new();
    for (mi, pos, off) in l.positions() {
        let file = l.texts[mi].0.clone();
        let at = l.classify(mi, off);
        let on = match at {
            At::Occ(i) => format!("{:?}", l.occs[i].kind),
            At::IdentEnd => "the end of an identifier".to_owned(),
            At::Elsewhere => "no identifier".to_owned(),
        };
        let here = format!("{file}:{}:{}", pos.line, pos.character);
        let prep = srv
            .prepare_rename(&file, pos.line, pos.character)
            .map_err(|e| died(&e, "textDocument/prepareRename", &mut srv, &on))?;
        requests += 1;
        if prep.is_null() {
            continue;
        }
        // Positions whose meaning the property leaves open. (On the qualifier part of `q.name`
        // the server may offer either name: whatever it offers must then be what it renames,
        // so only the "identifier under the cursor" and the expected-set rules are skipped.)
        if at == At::IdentEnd {
            continue;
        }
        let Some((ps, pe)) = range_offsets(&l.texts[mi].1, &prep) else {
            return Err(("prepareRename | range not on exact positions".into(), format!("at {here}: {prep}")));
        };
        let old = l.texts[mi].1[ps..pe].to_owned();
        if let At::Occ(i) = at {
            let o = &l.occs[i];
            if o.kind != OccKind::UseQualifier && (ps, pe) != (o.start, o.end) {
                return Err((
                    format!("prepareRename | range is not the identifier under the cursor | cursor on {on}"),
                    format!("at {here}: range selects {old:?}, identifier `{}` at {}..{}", o.text, o.start, o.end),
                ));
            }
        }
        // fresh names over the whole identifier alphabet of the language
        let new = if old.starts_with('@') { "@9z-$" } else { "z-z$9-" };
        let edit = srv
            .rename(&file, pos.line, pos.character, new)
            .map_err(|e| died(&e, "textDocument/rename", &mut srv, &on))?;
        requests += 1;
        renames += 1;
        // Collect the edits per file as byte ranges.
        let mut edits: BTreeMap<usize, Vec<(usize, usize)>> = BTreeMap::new();
        if let Some(ch) = edit.get("changes").and_then(|c| c.as_object()) {
            for (uri, es) in ch.iter() {
                let f = srv.relative_path(uri);
                let Some(m) = l.module_index(&f) else {
                    return Err(("rename | edit in a file outside the program".into(), format!("at {here}: {uri}")));
                };
                for e in es.as_array().cloned().unwrap_or_default() {
                    if e.get("newText").and_then(|t| t.as_str()) != Some(new) {
                        return Err(("rename | edit does not insert the new name".into(), format!("at {here}: {e}")));
                    }
                    match e.get("range").and_then(|r| range_offsets(&l.texts[m].1, r)) {
                        Some(r) => edits.entry(m).or_default().push(r),
                        None => return Err(("rename | edit range not on exact positions".into(), format!("at {here}: {e}"))),
                    }
                }
            }
        }
        let mut flat: BTreeSet<(usize, usize, usize)> = BTreeSet::new();
        for (m, es) in edits.iter_mut() {
            es.sort();
            for w in es.windows(2) {
                if w[0].1 > w[1].0 {
                    return Err((
                        format!("rename | overlapping or duplicate edits | cursor on {on}"),
                        format!("at {here}: {:?} and {:?} in {}", w[0], w[1], l.texts[*m].0),
                    ));
                }
            }
            for (s, e) in es.iter() {
                if l.texts[*m].1[*s..*e] != old {
                    return Err((
                        format!("rename | an edit does not replace an occurrence of the old name | cursor on {on}"),
                        format!("at {here}: edit {s}..{e} of {} selects {:?}, old name {old:?}", l.texts[*m].0, &l.texts[*m].1[*s..*e]),
                    ));
                }
                flat.insert((*m, *s, *e));
            }
        }
        // Expected: the binder and all and only its uses.
        if let At::Occ(i) = at {
            let o = &l.occs[i];
            let binder = match o.kind {
                OccKind::DeclName => Some(i),
                OccKind::Use => match l.binding(i) {
                    Some(Bind::Binder(b)) => Some(*b),
                    _ => None,
                },
                _ => None,
            };
            let want: Option<BTreeSet<(usize, usize, usize)>> = if let Some(b) = binder {
                let mut s: BTreeSet<(usize, usize, usize)> = l
                    .uses_of(b)
                    .into_iter()
                    .map(|u| (l.occs[u].module, l.occs[u].start, l.occs[u].end))
                    .collect();
                s.insert((l.occs[b].module, l.occs[b].start, l.occs[b].end));
                Some(s)
            } else if o.kind == OccKind::ImportQualifier {
                let mut s: BTreeSet<(usize, usize, usize)> = l
                    .occs
                    .iter()
                    .filter(|q| q.module == o.module && q.text == o.text && matches!(q.kind, OccKind::UseQualifier | OccKind::ImportQualifier))
                    .map(|q| (q.module, q.start, q.end))
                    .collect();
                s.insert((o.module, o.start, o.end));
                Some(s)
            } else {
                None
            };
            if let Some(want) = want {
                if flat != want {
                    let kind = binder.map(|b| format!("{:?}", l.occs[b].kind)).unwrap_or_else(|| "ImportQualifier".into());
                    return Err((
                        format!("rename | edits are not the binder plus all and only its uses | binder is a {kind}, cursor on {on}"),
                        format!("at {here} (`{old}`): edits {flat:?}, expected {want:?}"),
                    ));
                }
            }
        }
        // Apply client-side and compile.
        let mut new_texts = l.texts.clone();
        for (m, es) in edits.iter() {
            let mut t = l.texts[*m].1.clone();
            for (s, e) in es.iter().rev() {
                t.replace_range(*s..*e, new);
            }
            new_texts[*m].1 = t;
        }
        match emitted_text(&new_texts) {
            Err(why) => {
                let class: String = why.chars().take_while(|c| *c != '(').take(40).collect();
                return Err((
                    format!("rename | edited sources are not accepted | {class} | cursor on {on}"),
                    format!("at {here} (`{old}` -> `{new}`): {why}"),
                ));
            }
            Ok((d, yaml)) => {
                // The same document, to the letter: a rename keeps every token where it was in
                // the token list, and the names of implicit components depend on nothing else.
                if !old.starts_with('@') {
                    if let Ok((_, before)) = emitted_text(&l.texts) {
                        if before != yaml && doc::compare(&d, &original).is_ok() {
                            let line = before.lines().zip(yaml.lines()).find(|(a, b)| a != b).map(|(a, b)| format!("`{}` became `{}`", a.trim(), b.trim())).unwrap_or_else(|| "different length".into());
                            return Err((
                                format!("rename | edited sources compile to a different text (names of implicit components) | cursor on {on}"),
                                format!("at {here} (`{old}` -> `{new}`): {line}"),
                            ));
                        }
                    }
                }
                let want = if old.starts_with('@') {
                    rename_component(&original, old.trim_start_matches('@'), "9z-$")
                } else {
                    original.clone()
                };
                if let Err(msg) = doc::compare(&d, &want) {
                    return Err((
                        format!("rename | edited sources compile to a different document | {} | cursor on {on}", c02::diff_class(&msg)),
                        format!("at {here} (`{old}` -> `{new}`): {msg}"),
                    ));
                }
            }
        }
        // A second rename of the same binder after the client applied the first one: once per
        // declaration (cursor on the first character of its name), the edits must be the
        // shifted occurrences, each replacing the name given by the first rename.
        if let At::Occ(i) = at {
            let o = &l.occs[i];
            if o.kind == OccKind::DeclName && off == o.start && !flat.is_empty() && !old.starts_with('@') {
                let delta = new.len() as i64 - old.len() as i64;
                let shift = |m: usize, s: usize| -> usize {
                    let before = flat.iter().filter(|(fm, fs, _)| *fm == m && *fs < s).count() as i64;
                    (s as i64 + before * delta) as usize
                };
                let want2: BTreeSet<(usize, usize, usize)> = flat.iter().map(|(m, s, _)| (*m, shift(*m, *s), shift(*m, *s) + new.len())).collect();
                for (m, _) in edits.iter() {
                    if opened.insert(*m) {
                        srv.open(&l.texts[*m].0, &l.texts[*m].1).map_err(|e| died(&e, "textDocument/didOpen", &mut srv, &on))?;
                    }
                    srv.change_full(&l.texts[*m].0, &new_texts[*m].1).map_err(|e| died(&e, "textDocument/didChange", &mut srv, &on))?;
                }
                let bstart = shift(o.module, o.start);
                let bpos = crate::textmodel::LineTable::new(&new_texts[o.module].1).position(bstart);
                let newer = "q$-9-";
                let edit2 = srv
                    .rename(&l.texts[o.module].0, bpos.line, bpos.character, newer)
                    .map_err(|e| died(&e, "textDocument/rename", &mut srv, &on))?;
                requests += 1;
                renames += 1;
                let mut got2: BTreeSet<(usize, usize, usize)> = BTreeSet::new();
                if let Some(ch) = edit2.get("changes").and_then(|c| c.as_object()) {
                    for (uri, es) in ch.iter() {
                        let f = srv.relative_path(uri);
                        let Some(m) = l.module_index(&f) else {
                            return Err(("rename | edit in a file outside the program".into(), format!("second rename at {here}: {uri}")));
                        };
                        for e in es.as_array().cloned().unwrap_or_default() {
                            match e.get("range").and_then(|r| range_offsets(&new_texts[m].1, r)) {
                                Some((s, e2)) => {
                                    got2.insert((m, s, e2));
                                }
                                None => return Err(("rename | edit range not on exact positions".into(), format!("second rename at {here}: {e}"))),
                            }
                        }
                    }
                }
                // put the original texts back before going on with the sweep
                for (m, _) in edits.iter() {
                    srv.change_full(&l.texts[*m].0, &l.texts[*m].1).map_err(|e| died(&e, "textDocument/didChange", &mut srv, &on))?;
                }
                if got2 != want2 {
                    return Err((
                        "rename | second rename after the client applied the first: edits are not the shifted occurrences".into(),
                        format!("at {here} (`{old}` -> `{new}` -> `{newer}`): edits {got2:?}, expected {want2:?}"),
                    ));
                }
            }
        }
    }
    if !srv.is_alive() {
        return Err(("server died | after the sweep".into(), srv.death_cause()));
    }
    srv.shutdown();
    Ok((requests, renames))
}

pub fn judge(p: &Program, sink: Option<&mut Sink>) -> Outcome {
    let (mut rq, mut rn) = (0u64, 0u64);
    for variant in variants_of(p) {
        match sweep(p, variant) {
            Ok((a, b)) => {
                rq += a;
                rn += b;
            }
            Err((sig, summary)) => {
                if sig.starts_with("harness:") {
                    panic!("{sig}: {summary}");
                }
                let mut case = c02::program_json(p, &layout(p, variant).texts);
                case["variant"] = json!(variant);
                return Outcome::bad("rename-wrong", sig, summary, case);
            }
        }
    }
    if let Some(s) = sink {
        s.count("requests", rq);
        s.count("renames", rn);
        s.count("sessions", variants_of(p).len() as u64);
    }
    Outcome::ok(
        if rn > 0 { "every offered rename is an alpha-conversion" } else { "no rename offered" },
        if rn > 0 { Some(hash_of(&print(p).texts)) } else { None },
    )
}

impl Engine for C18 {
    fn id(&self) -> &'static str {
        "C18"
    }
    fn engine_name(&self) -> &'static str {
        "lsp-sweep"
    }
    fn phases(&self, tier: Tier) -> Vec<Phase> {
        match tier {
            Tier::Quick => vec![Phase::new("modules + scoping fragments, C08 space with <= 1 declaration: every cursor position, 2 layouts", json!({"full": false}))],
            Tier::Thorough => vec![
                Phase::new("modules + scoping fragments, C08 space with <= 1 declaration: every cursor position, 2 layouts", json!({"full": false})),
                Phase::new("C08 space with 2 declarations: every cursor position, 2 layouts", json!({"full": true})),
            ],
        }
    }
    fn run_phase(&self, phase: &Phase, sink: &mut Sink) {
        let full = phase.param["full"].as_bool().unwrap();
        if full {
            c17::second_bound(sink, &mut |sink, idx, p| {
                if !c17::sweepable(p) {
                    return;
                }
                match emitted(&print(p).texts) {
                    Ok(d) if doc::compare(&d, &d).is_ok() => {}
                    _ => return,
                }
                sink.visit(idx, || c02::program_json(p, &print(p).texts), |s| judge(p, Some(s)));
            });
            return;
        }
        let progs = c17::corpus(false);
        for (i, p) in progs.iter().enumerate() {
            let idx = i as u64;
            if !sink.mine(idx) {
                continue;
            }
            if sink.expired() {
                return;
            }
            if !c17::sweepable(p) {
                continue;
            }
            // programs whose document the compiler cannot produce are outside the property
            match emitted(&print(p).texts) {
                // a document with an orphan component (D16) is not equal to itself
                Ok(d) if doc::compare(&d, &d).is_ok() => {}
                _ => continue,
            }
            sink.visit(idx, || c02::program_json(p, &print(p).texts), |s| judge(p, Some(s)));
        }
    }
    fn replay(&self, case: &Value) -> Outcome {
        match serde_json::from_value::<Program>(case["ast"].clone()) {
            Ok(p) => judge(&p, None),
            Err(_) => Outcome::ok("replay needs the ast", None),
        }
    }
    fn rule(&self) -> String {
        "same programs and layouts as C17; prepareRename at EVERY UTF-16 position of every file; wherever it answers a range, rename to the fresh name `z-z$9-` (`@9z-$` for a reference; both use the whole identifier alphabet, the first one ends in a dash). Oracle: server alive after every request; prepareRename's range is the identifier under the cursor; edits pairwise disjoint; each edit replaces text equal to the old name; the edit set equals the binder occurrence plus all and only the uses bound to it by the reference resolver (for an import qualifier: the qualifier and every qualified use of it in that module); the edited sources are accepted by the real compiler and emit the original document, byte for byte (for an @reference: the same abstract document with that component renamed). Non-trivial = at least one rename offered; distinct = distinct programs".into()
    }
    fn assumptions(&self) -> Vec<String> {
        vec![
            "cursor exactly at the end of an identifier or on the qualifier part of a qualified use: the property does not fix the answer; not checked".into(),
            "the edited sources are compiled in-process by the same library code that oal-cli runs".into(),
        ]
    }
    fn budget_s(&self, tier: Tier) -> u64 {
        match tier {
            Tier::Quick => 55,
            Tier::Thorough => 1500,
        }
    }
    fn case_budget_ms(&self) -> u64 {
        60_000
    }
    fn state_counters(&self, m: &Stats) -> Option<(u64, u64, u64)> {
        let s = *m.counters.get("sessions").unwrap_or(&0);
        let r = *m.counters.get("requests").unwrap_or(&0);
        Some((s.max(1), r.max(1), *m.counters.get("renames").unwrap_or(&0)))
    }
}
