//! C06 — compilation is deterministic.
//!
//! A stateless choice-point search: every iteration over a hash map on the compile path
//! goes through the `ChoiceMap` hook (H4), whose order is taken from a choice tape. For
//! every corpus program the pipeline is run under every tape (deviations from the
//! canonical order bounded by 2), and after every ordered pair / triple of other programs
//! compiled before it in the same process. A free-running confirmation (not the deciding
//! step) runs the real `oal-cli` in several fresh processes.

use crate::explore::*;
use crate::frags;
use crate::gen::*;
use crate::pipeline::{self, Run};
use crate::props::c01::{texts_from_json, texts_json};
use oal_model::verif as tape;
use serde_json::{json, Value};
use std::collections::BTreeMap;

pub struct C06;

/// Programs in which every map of the pipeline holds several entries.
pub fn corpus(thorough: bool) -> Vec<Program> {
    let mut out = Vec::new();
    let take = |f: usize, step: usize, out: &mut Vec<Program>| {
        for (i, p) in frags::fragment(f, false).programs.into_iter().enumerate() {
            if i % step == 0 {
                out.push(p);
            }
        }
    };
    // annotations with several examples / tags, several modules, parameters, declarations,
    // references, ranges
    take(8, if thorough { 1 } else { 12 }, &mut out);
    // the last programs of F9 differ from each other only inside annotations
    {
        let f9 = frags::fragment(8, false).programs;
        let n = f9.len();
        out.extend(f9.into_iter().skip(n.saturating_sub(10)));
    }
    take(7, if thorough { 1 } else { 4 }, &mut out);
    take(6, if thorough { 1 } else { 3 }, &mut out);
    take(5, if thorough { 3 } else { 60 }, &mut out);
    take(4, if thorough { 2 } else { 16 }, &mut out);
    take(2, if thorough { 5 } else { 60 }, &mut out);
    take(1, if thorough { 40 } else { 900 }, &mut out);
    // repeated and distinct tags composed from a declaration and its use
    out.push(single(vec![
        Stmt::Let {
            anns: vec!["tags: [t3, t1, t2, t1]".into()],
            name: "x".into(),
            params: vec![],
            body: xfer(Method::Get, E::Content(vec![], None)),
        },
        Stmt::Res(rel(uri_lit(&["a"]), vec![E::Ann(vec![], Box::new(var("x")), Some("tags: [t2, t4, t3, t0]".into()))])),
    ]));
    // several contents of one status (and of no status) that differ in media type, description
    // and headers: whatever the response takes from which, it takes it in every process
    {
        let c = |status: Option<u64>, media: &str, desc: &str, h: &str| {
            let mut tags = vec![(Meta::Media, E::Str(media.into())), (Meta::Headers, obj(vec![prop(h, E::Prim(Prim::Str))]))];
            if let Some(s) = status {
                tags.insert(0, (Meta::Status, E::Num(s)));
            }
            E::Ann(vec![], Box::new(E::Paren(Box::new(E::Content(tags, Some(Box::new(obj(vec![prop("v", E::Prim(Prim::Num))]))))))), Some(format!("description: {desc}")))
        };
        out.push(single(vec![Stmt::Res(rel(
            uri_lit(&["multi"]),
            vec![xfer(
                Method::Get,
                E::Op(Op::Range, vec![
                    c(Some(200), "application/json", "as json", "X-A"),
                    c(Some(200), "text/plain", "as text", "X-B"),
                    c(Some(200), "application/xml", "as xml", "X-C"),
                    c(None, "application/json", "fallback json", "X-D"),
                    c(None, "text/csv", "fallback csv", "X-E"),
                ]),
            )],
        ))]));
    }
    // a program the compiler rejects (a bare name that only two qualified imports declare):
    // the verdict, too, is the same in every process
    out.push(Program {
        modules: vec![
            Module {
                name: "main.oal".into(),
                stmts: vec![
                    Stmt::Use("users.oal".into(), Some("users".into())),
                    Stmt::Use("orders.oal".into(), Some("orders".into())),
                    Stmt::Res(rel(uri_lit(&["items"]), vec![xfer(Method::Get, content(var("item")))])),
                ],
            },
            Module { name: "users.oal".into(), stmts: vec![let_("item", obj(vec![prop("login", E::Prim(Prim::Str))]))] },
            Module { name: "orders.oal".into(), stmts: vec![let_("item", obj(vec![prop("sku", E::Prim(Prim::Str))]))] },
        ],
    });
    // a program built for this property: >= 3 entries in every collection
    let ex = "examples: {e3: u3, e1: u1, e2: u2}, tags: [c, a, b]";
    out.push(Program {
        modules: vec![
            Module {
                name: "main.oal".into(),
                stmts: vec![
                    Stmt::Use("m.oal".into(), Some("m".into())),
                    Stmt::Use("n.oal".into(), Some("n".into())),
                    Stmt::Use("o.oal".into(), None),
                    let_("@z", obj(vec![prop("c", qvar("m", "a")), prop("a", qvar("n", "b")), prop("b", var("c"))])),
                    let_("@y", arr(var("@z"))),
                    let_("@x", E::Rec("r".into(), Box::new(obj(vec![prop("k", arr(var("r")))])))),
                    fun("f", &["q", "p", "r"], obj(vec![prop("p", var("p")), prop("q", var("q")), prop("r", var("r"))])),
                    Stmt::Res(rel(
                        E::Uri(vec![Seg::Lit("a".into()), Seg::Var(Box::new(prop("id", E::Prim(Prim::Num))))], Some(vec![prop("s", E::Prim(Prim::Str)), prop("t", E::Prim(Prim::Num))])),
                        vec![
                            E::Ann(vec![], Box::new(E::Paren(Box::new(E::Xfer {
                                methods: vec![Method::Put, Method::Get, Method::Delete],
                                params: Some(vec![prop("u", E::Prim(Prim::Str)), prop("v", E::Prim(Prim::Str))]),
                                domain: Some(Box::new(E::Ann(vec![], Box::new(content(var("@y"))), Some(ex.into())))),
                                range: Box::new(E::Op(Op::Range, vec![
                                    E::Ann(vec![], Box::new(E::Content(vec![(Meta::Status, E::Num(200)), (Meta::Media, E::Str("b/b".into())), (Meta::Headers, obj(vec![prop("h2", E::Prim(Prim::Str)), prop("h1", E::Prim(Prim::Str))]))], Some(Box::new(var("@x"))))), Some(ex.into())),
                                    E::Content(vec![(Meta::Status, E::Num(200)), (Meta::Media, E::Str("a/a".into()))], Some(Box::new(E::App(None, "f".into(), vec![E::Prim(Prim::Num), E::Prim(Prim::Str), var("@z")])))),
                                    E::Content(vec![(Meta::Status, E::StatusRange(4))], None),
                                ])),
                            }))), Some(ex.into())),
                        ],
                    )),
                    Stmt::Res(rel(uri_lit(&["b"]), vec![xfer(Method::Get, content(var("@x")))])),
                    Stmt::Res(rel(uri_lit(&["c"]), vec![xfer(Method::Get, content(var("@z")))])),
                ],
            },
            Module { name: "m.oal".into(), stmts: vec![let_("a", E::Prim(Prim::Num)), let_("a2", E::Prim(Prim::Str))] },
            Module { name: "n.oal".into(), stmts: vec![let_("b", E::Prim(Prim::Str)), let_("b2", E::Prim(Prim::Str))] },
            Module { name: "o.oal".into(), stmts: vec![let_("c", E::Prim(Prim::Bool)), let_("c2", E::Prim(Prim::Str))] },
        ],
    });
    // collisions (F10): which of two clashing things wins may be unspecified, but it must not
    // depend on the process; and two imports that provide the same name, under no qualifier and
    // under the same qualifier, the name being used
    take(9, if thorough { 1 } else { 3 }, &mut out);
    for q in [None, Some("q".to_owned())] {
        let u = |n: &str| match &q {
            Some(q) => qvar(q, n),
            None => var(n),
        };
        out.push(Program {
            modules: vec![
                Module {
                    name: "main.oal".into(),
                    stmts: vec![
                        Stmt::Use("a.oal".into(), q.clone()),
                        Stmt::Use("b.oal".into(), q.clone()),
                        Stmt::Use("c.oal".into(), q.clone()),
                        Stmt::Res(rel(uri_lit(&["items"]), vec![xfer(Method::Get, content(obj(vec![prop("i", u("item")), prop("o", u("other"))])))])),
                    ],
                },
                Module { name: "a.oal".into(), stmts: vec![let_("item", obj(vec![prop("id", E::Prim(Prim::Num))])), let_("other", E::Prim(Prim::Num))] },
                Module { name: "b.oal".into(), stmts: vec![let_("item", obj(vec![prop("uuid", E::Prim(Prim::Str))])), let_("other", E::Prim(Prim::Str))] },
                Module { name: "c.oal".into(), stmts: vec![let_("item", obj(vec![prop("key", E::Prim(Prim::Bool))])), let_("other", E::Prim(Prim::Bool))] },
            ],
        });
    }
    // every tag of a content given by a function application, with recs inside (evaluating a
    // tag opens scopes: their order decides the names of implicit components)
    out.push(single(vec![
        fun("mk", &["t"], E::Str("application/json".into())),
        fun("st", &["s"], var("s")),
        fun("paging", &["t"], obj(vec![prop("X-Next", E::Rec("x".into(), Box::new(obj(vec![prop("v", var("t")), prop("n", arr(var("x")))]))))])),
        fun("tree", &["t"], E::Rec("y".into(), Box::new(obj(vec![prop("v", var("t")), prop("kids", arr(var("y")))])))),
        Stmt::Res(rel(
            uri_lit(&["tags"]),
            vec![xfer(
                Method::Get,
                E::Content(
                    vec![
                        (Meta::Media, E::App(None, "mk".into(), vec![E::Num(1)])),
                        (Meta::Headers, E::App(None, "paging".into(), vec![E::Prim(Prim::Str)])),
                        (Meta::Status, E::App(None, "st".into(), vec![E::Num(200)])),
                    ],
                    Some(Box::new(E::App(None, "tree".into(), vec![E::Prim(Prim::Num)]))),
                ),
            )],
        )),
    ]));
    // examples on a content and on its body schema (two maps meet), >= 2 entries each
    out.push(single(vec![
        Stmt::Let {
            anns: vec!["examples: {s3: u3, s1: u1, s2: u2}".into()],
            name: "body".into(),
            params: vec![],
            body: obj(vec![prop("p", E::Prim(Prim::Num))]),
        },
        Stmt::Res(rel(
            uri_lit(&["ex"]),
            vec![xfer(
                Method::Get,
                E::Ann(vec![], Box::new(content(var("body"))), Some("examples: {c2: v2, c1: v1, s1: w1}".into())),
            )],
        )),
    ]));
    // explicit references that nothing uses, in several modules
    out.push(Program {
        modules: vec![
            Module {
                name: "main.oal".into(),
                stmts: vec![
                    Stmt::Use("errors.oal".into(), Some("e".into())),
                    Stmt::Use("paging.oal".into(), Some("p".into())),
                    Stmt::Use("extra.oal".into(), None),
                    let_("@item", obj(vec![prop("id", E::Prim(Prim::Num))])),
                    let_("@unused", obj(vec![prop("u", E::Prim(Prim::Str))])),
                    Stmt::Res(rel(uri_lit(&["items"]), vec![xfer(Method::Get, content(arr(var("@item"))))])),
                ],
            },
            Module { name: "errors.oal".into(), stmts: vec![let_("@problem", obj(vec![prop("title", E::Prim(Prim::Str))])), let_("@violation", obj(vec![prop("field", E::Prim(Prim::Str))]))] },
            Module { name: "paging.oal".into(), stmts: vec![let_("@page", obj(vec![prop("n", E::Prim(Prim::Num))])), let_("@cursor", E::Prim(Prim::Str))] },
            Module { name: "extra.oal".into(), stmts: vec![let_("@extra", obj(vec![prop("x", E::Prim(Prim::Bool))]))] },
        ],
    });
    // several implicit components that only an explicit component refers to (they are found
    // in a later round of whatever collects the components that are in use)
    {
        let r = |b: &str, p: &str| E::Rec(b.into(), Box::new(obj(vec![prop(p, arr(var(b)))])));
        out.push(single(vec![
            let_("@hub", obj(vec![prop("a", r("x", "pa")), prop("b", r("y", "pb")), prop("c", r("z", "pc")), prop("d", r("w", "pd")), prop("e", r("v", "pe"))])),
            let_("@outer", obj(vec![prop("hub", var("@hub")), prop("f", r("u", "pf")), prop("g", r("t", "pg"))])),
            Stmt::Res(rel(uri_lit(&["hub"]), vec![xfer(Method::Get, content(var("@outer")))])),
        ]));
    }
    out.push(large_program(if thorough { 1500 } else { 900 }));
    out
}

/// A module large enough to overflow any plausible fixed-size table of the pipeline (memo
/// table, scope pool, interner): `n` declarations that each look a name up twice, then an
/// implicit (content-addressed) component that is defined after all of them.
pub fn large_program(n: usize) -> Program {
    let mut stmts = vec![let_("base", obj(vec![prop("b", E::Prim(Prim::Num))]))];
    for i in 0..n {
        stmts.push(let_(
            &format!("t{i}"),
            E::Op(Op::Join, vec![var("base"), obj(vec![prop(&format!("p{i}"), E::Prim(Prim::Str))])]),
        ));
    }
    stmts.push(let_("tree", E::Rec("x".into(), Box::new(obj(vec![prop("kids", arr(var("x"))), prop("first", var("t0")), prop("last", var(&format!("t{}", n - 1)))])))));
    stmts.push(Stmt::Res(rel(uri_lit(&["tree"]), vec![xfer(Method::Get, content(var("tree")))])));
    stmts.push(Stmt::Res(rel(uri_lit(&["list"]), vec![xfer(Method::Get, content(arr(var("tree"))))])));
    single(stmts)
}

/// Number of large programs at the end of the corpus.
const LARGE: usize = 1;

fn run_under(files: &BTreeMap<String, String>, script: Vec<usize>) -> (String, Vec<tape::ChoicePoint>) {
    heartbeat();
    tape::set_tape(script);
    let out = match pipeline::run(files, "main.oal") {
        Run::Doc(d, _) => d,
        Run::Rejected(e) => format!("<rejected {}>", e.class()),
        Run::EvalError(e, _) => format!("<eval error {e}>"),
        Run::LoadPanic(p) | Run::BackendPanic(p) => format!("<panic {}>", p.message),
    };
    let log = tape::take_log();
    tape::set_tape(vec![]);
    (out, log)
}

/// Explores all tapes with at most `bound` deviations from the canonical order.
/// Returns (executions, choice points met on the canonical run, Err(description) on a
/// difference).
pub fn explore_tapes(files: &BTreeMap<String, String>, bound: usize) -> (u64, usize, Result<String, String>) {
    explore_tapes_capped(files, bound, usize::MAX)
}

/// The same, trying at most `cap` alternative orders per choice point (the first ones:
/// reversal, then transpositions from the front) and at most the last `cap` choice points
/// plus the first `cap` ones when there are more than 4 * cap of them.
pub fn explore_tapes_capped(files: &BTreeMap<String, String>, bound: usize, cap: usize) -> (u64, usize, Result<String, String>) {
    let (base, log0) = run_under(files, vec![]);
    let mut execs = 1u64;
    let mut stack: Vec<(Vec<usize>, usize)> = vec![(vec![], 0)];
    while let Some((prefix, dev)) = stack.pop() {
        let (out, log) = if prefix.is_empty() {
            (base.clone(), log0.clone())
        } else {
            execs += 1;
            run_under(files, prefix.clone())
        };
        if out != base {
            return (
                execs,
                log0.len(),
                Err(format!(
                    "the tape that deviates from the canonical order at (choice point, order) {:?}, i.e. at (site, entries, order) {:?}, changes the output",
                    prefix.iter().enumerate().filter(|(_, k)| **k != 0).collect::<Vec<_>>(),
                    log.iter().filter(|c| c.chosen != 0).map(|c| (c.site.clone(), c.entries, c.chosen)).collect::<Vec<_>>()
                )),
            );
        }
        if dev >= bound {
            continue;
        }
        // Branch on every choice point after the scripted prefix.
        for i in prefix.len()..log.len() {
            if cap != usize::MAX && log.len() > 4 * cap && i >= cap && i + cap < log.len() && (i - cap) % (log.len() / (2 * cap)).max(1) != 0 {
                continue;
            }
            heartbeat();
            for alt in 1..tape::orders(log[i].entries).min(cap.saturating_add(1)) {
                let mut next = prefix.clone();
                next.resize(i, 0);
                next.push(alt);
                stack.push((next, dev + 1));
            }
        }
    }
    (execs, log0.len(), Ok(base))
}

fn cli_runs(texts: &[(String, String)], n: usize) -> Result<(), String> {
    let cli = std::env::var("OAL_CLI").unwrap_or_else(|_| "/verif/.build/repo/debug/oal-cli".into());
    let dir = format!("/var/tmp/oalmc-c06-{}-{} \u{e9}", std::process::id(), hash_of(&texts.to_vec()));
    let _ = std::fs::remove_dir_all(&dir);
    // Failures of the harness's own file handling are machinery errors, never verdicts.
    std::fs::create_dir_all(&dir).expect("harness: scratch directory");
    for (name, text) in texts {
        let path = std::path::PathBuf::from(format!("{dir}/{name}"));
        if let Some(parent) = path.parent() {
            std::fs::create_dir_all(parent).expect("harness: module directory");
        }
        std::fs::write(&path, text).expect("harness: write module");
    }
    let mut first: Option<Vec<u8>> = None;
    let mut res = Ok(());
    for i in 0..n {
        let out = format!("{dir}/out{i}.yaml");
        let st = std::process::Command::new(&cli)
            .args(["-m", "main.oal", "-t", &format!("out{i}.yaml")])
            .current_dir(&dir)
            .stderr(std::process::Stdio::null())
            .stdout(std::process::Stdio::null())
            .status();
        let bytes = std::fs::read(&out).unwrap_or_default();
        if let Err(e) = st {
            panic!("harness: cannot run oal-cli: {e}");
        }
        match &first {
            None => first = Some(bytes),
            Some(f) if *f != bytes => {
                res = Err(format!("process {i} wrote a different document than process 0"));
                break;
            }
            _ => {}
        }
    }
    // the same files named through a configuration file, from three other working directories
    if res.is_ok() {
        std::fs::write(format!("{dir}/oal.toml"), "[api]\nmain = \"main.oal\"\ntarget = \"outc.yaml\"\n").expect("harness: write oal.toml");
        let sub = format!("{dir}/w d");
        std::fs::create_dir_all(&sub).expect("harness: sub-directory");
        for cwd in [sub.as_str(), "/var/tmp", "/"] {
            let out = format!("{dir}/outc.yaml");
            let _ = std::fs::remove_file(&out);
            let st = std::process::Command::new(&cli)
                .args(["--conf", &format!("{dir}/oal.toml")])
                .current_dir(cwd)
                .stderr(std::process::Stdio::null())
                .stdout(std::process::Stdio::null())
                .status();
            if let Err(e) = st {
                panic!("harness: cannot run oal-cli: {e}");
            }
            let bytes = std::fs::read(&out).unwrap_or_default();
            if Some(&bytes) != first.as_ref() {
                res = Err(format!("the process started in {cwd:?} (sources named through --conf) wrote a different document than the one started in the source directory"));
                break;
            }
        }
    }
    let _ = std::fs::remove_dir_all(&dir);
    res
}

// ---------------------------------------------------------------------------
// oal-cli histories: the bytes found in the target after a successful run depend on the
// sources alone, not on what was compiled to that target before or on file times.

const HIST_OPS: [&str; 5] = ["compile", "edit main", "edit import", "edit base", "delete target"];

fn hist_ops(len: usize, mut k: u64) -> Vec<&'static str> {
    let mut v = Vec::with_capacity(len);
    for _ in 0..len {
        v.push(HIST_OPS[(k % HIST_OPS.len() as u64) as usize]);
        k /= HIST_OPS.len() as u64;
    }
    v
}

fn hist_source(which: usize, variant: bool) -> (&'static str, String) {
    match which {
        0 => ("main.oal", format!(
            "use \"defs.oal\" as d;\nlet tree = rec x {{ 'kids [x], 'item d.item }};\nres /{} on get -> <tree>;\nres /items on get -> <[d.item]>;\n",
            if variant { "wood" } else { "tree" }
        )),
        1 => ("defs.oal", format!("let item = {{ '{} str, 'id int }};\n", if variant { "code" } else { "name" })),
        _ => ("base.yaml", format!(
            "openapi: 3.0.3\ninfo:\n  title: {}\n  version: '1'\nx-one: 1\nx-two:\n  k: v\nx-three: [a, b]\nx-four: true\npaths: {{}}\ntags:\n- name: t1\n- name: t2\n",
            if variant { "Other" } else { "First" }
        )),
    }
}

fn set_mtime(path: &str, tick: u64) {
    let t = std::time::UNIX_EPOCH + std::time::Duration::from_secs(1_700_000_000 + 10 * tick);
    let f = std::fs::File::options().write(true).open(path).expect("harness: open for set_modified");
    f.set_modified(t).expect("harness: set_modified");
}

fn run_cli_in(dir: &str) -> (Option<i32>, Vec<u8>) {
    let cli = std::env::var("OAL_CLI").unwrap_or_else(|_| "/verif/.build/repo/debug/oal-cli".into());
    let st = std::process::Command::new(&cli)
        .args(["-m", "main.oal", "-t", "out.yaml", "-b", "base.yaml"])
        .current_dir(dir)
        .stderr(std::process::Stdio::null())
        .stdout(std::process::Stdio::null())
        .status()
        .unwrap_or_else(|e| panic!("harness: cannot run oal-cli: {e}"));
    (st.code(), std::fs::read(format!("{dir}/out.yaml")).unwrap_or_default())
}

fn judge_cli_history(ops: &[&'static str], sink: Option<&mut Sink>) -> Outcome {
    let dir = format!("/var/tmp/oalmc-c06h-{}-{} \u{e9}", std::process::id(), hash_of(&ops.to_vec()));
    let _ = std::fs::remove_dir_all(&dir);
    let _ = std::fs::remove_dir_all(format!("{dir}-saved"));
    std::fs::create_dir_all(&dir).expect("harness: scratch directory");
    // A logical clock decides every modification time, so that the same history always
    // presents the same time stamps to the subject.
    let mut tick = 0u64;
    let mut variant = [false; 3];
    let write = |d: &str, which: usize, variant: bool, tick: u64| {
        let (name, text) = hist_source(which, variant);
        let path = format!("{d}/{name}");
        std::fs::write(&path, text).expect("harness: write source");
        set_mtime(&path, tick);
    };
    for w in 0..3 {
        tick += 1;
        write(&dir, w, false, tick);
    }
    let mut processes = 0u64;
    let mut verdict: Result<(), String> = Ok(());
    let mut all: Vec<&str> = ops.to_vec();
    all.push("compile");
    for (step, op) in all.iter().enumerate() {
        tick += 1;
        match *op {
            "compile" => {
                let target = format!("{dir}/out.yaml");
                let before = std::fs::metadata(&target).ok().and_then(|m| m.modified().ok());
                let (code, bytes) = run_cli_in(&dir);
                processes += 1;
                let after = std::fs::metadata(&target).ok().and_then(|m| m.modified().ok());
                if after.is_some() && after != before {
                    set_mtime(&target, tick);
                }
                // the same sources at the same location, compiled where nothing was compiled
                // before: the history directory steps aside for the duration of that run
                let saved = format!("{dir}-saved");
                std::fs::rename(&dir, &saved).expect("harness: set the history aside");
                std::fs::create_dir_all(&dir).expect("harness: fresh directory");
                for w in 0..3 {
                    write(&dir, w, variant[w], w as u64 + 1);
                }
                let (fcode, fbytes) = run_cli_in(&dir);
                std::fs::remove_dir_all(&dir).expect("harness: remove the fresh directory");
                std::fs::rename(&saved, &dir).expect("harness: restore the history");
                processes += 1;
                if code != fcode || bytes != fbytes {
                    verdict = Err(format!(
                        "after {:?} (step {step}) the target holds {} bytes (exit {code:?}), the same sources compiled at the same location without that history give {} bytes (exit {fcode:?})",
                        &all[..=step], bytes.len(), fbytes.len()
                    ));
                    break;
                }
                if code != Some(0) || bytes.is_empty() {
                    verdict = Err(format!("compilation of valid sources failed at step {step}: exit {code:?}"));
                    break;
                }
            }
            "delete target" => {
                let _ = std::fs::remove_file(format!("{dir}/out.yaml"));
            }
            edit => {
                let w = match edit {
                    "edit main" => 0,
                    "edit import" => 1,
                    _ => 2,
                };
                variant[w] = !variant[w];
                write(&dir, w, variant[w], tick);
            }
        }
    }
    let _ = std::fs::remove_dir_all(&dir);
    if let Some(s) = sink {
        s.count("cli_processes", processes);
        s.count("executions", processes);
    }
    match verdict {
        Ok(()) => Outcome::ok("target equals the fresh compilation after every compile", Some(hash_of(&(variant, ops.iter().filter(|o| **o == "compile").count())))),
        Err(why) => Outcome::bad(
            "history-dependent-target",
            "the target written by oal-cli depends on earlier runs or file times".into(),
            why,
            json!({"kind":"cli-history","ops": ops}),
        ),
    }
}

// ---------------------------------------------------------------------------
// Processor histories: the client library's own Processor (what oal-cli is built from), used
// the way a long-lived tool uses it: one thread compiles main.oal again and again while the
// sources change on disk. Each compilation is compared with one of the same files by a fresh
// thread. The two versions of every file have the same length, and under the frozen clock
// every write carries the same modification time (edits within one second).

const PROC_OPS: [&str; 3] = ["compile", "edit main", "edit import"];

fn proc_ops(len: usize, mut k: u64) -> Vec<&'static str> {
    let mut v = Vec::with_capacity(len);
    for _ in 0..len {
        v.push(PROC_OPS[(k % PROC_OPS.len() as u64) as usize]);
        k /= PROC_OPS.len() as u64;
    }
    v
}

fn processor_compile(dir: &str) -> String {
    let main = std::path::PathBuf::from(format!("{dir}/main.oal"));
    let loc = oal_model::locator::Locator::from(url::Url::from_file_path(&main).expect("harness: file url"));
    let r = guard(|| {
        let proc = oal_client::cli::Processor::new();
        let mods = match proc.load(&loc) {
            Ok(m) => m,
            Err(e) => return format!("<load error {e}>"),
        };
        match proc.eval(&mods) {
            Ok(spec) => serde_yaml::to_string(&oal_openapi::Builder::new(spec).into_openapi()).expect("serialisation"),
            Err(e) => format!("<eval error {e}>"),
        }
    });
    r.unwrap_or_else(|p| format!("<panic {}>", p.message))
}

fn judge_processor_history(ops: &[&'static str], frozen: bool, sink: Option<&mut Sink>) -> Outcome {
    let dir = format!("/var/tmp/oalmc-c06p-{}-{} \u{e9}", std::process::id(), hash_of(&(ops.to_vec(), frozen)));
    let _ = std::fs::remove_dir_all(&dir);
    std::fs::create_dir_all(&dir).expect("harness: scratch directory");
    let mut all: Vec<&'static str> = vec!["compile"];
    all.extend(ops.iter().copied());
    all.push("compile");
    let dir2 = dir.clone();
    let all2 = all.clone();
    // the whole history runs on one fresh thread; every referee on a thread of its own
    let (verdict, compiles, variant) = std::thread::scope(|sc| {
        std::thread::Builder::new()
            .stack_size(8 << 20)
            .spawn_scoped(sc, move || {
                let dir = dir2;
                let mut tick = 0u64;
                let mut variant = [false; 2];
                let write = |which: usize, variant: bool, tick: u64| {
                    let (name, text) = hist_source(which, variant);
                    let path = format!("{dir}/{name}");
                    std::fs::write(&path, text).expect("harness: write source");
                    set_mtime(&path, if frozen { 0 } else { tick });
                };
                for w in 0..2 {
                    tick += 1;
                    write(w, false, tick);
                }
                let mut compiles = 0u64;
                for (step, op) in all2.iter().enumerate() {
                    tick += 1;
                    match *op {
                        "compile" => {
                            heartbeat();
                            let here = processor_compile(&dir);
                            let d = dir.clone();
                            let referee = std::thread::scope(|s2| {
                                std::thread::Builder::new()
                                    .stack_size(8 << 20)
                                    .spawn_scoped(s2, move || processor_compile(&d))
                                    .expect("spawn")
                                    .join()
                                    .unwrap_or_else(|_| "<panic in the referee>".into())
                            });
                            compiles += 2;
                            if here != referee {
                                return (
                                    Err(format!(
                                        "after {:?} (step {step}, {} clock) the thread that ran the history gets {} bytes, a fresh thread gets {} bytes for the same files",
                                        &all2[..=step],
                                        if frozen { "frozen" } else { "advancing" },
                                        here.len(),
                                        referee.len()
                                    )),
                                    compiles,
                                    variant,
                                );
                            }
                            if here.starts_with('<') {
                                return (Err(format!("compilation of valid sources failed at step {step}: {}", here.chars().take(120).collect::<String>())), compiles, variant);
                            }
                        }
                        edit => {
                            let w = if edit == "edit main" { 0 } else { 1 };
                            variant[w] = !variant[w];
                            write(w, variant[w], tick);
                        }
                    }
                }
                (Ok(()), compiles, variant)
            })
            .expect("spawn")
            .join()
            .unwrap_or_else(|_| (Err("the history thread panicked".into()), 0, [false; 2]))
    });
    let _ = std::fs::remove_dir_all(&dir);
    if let Some(s) = sink {
        s.count("executions", compiles);
    }
    match verdict {
        Ok(()) => Outcome::ok(
            "every compilation equals the one of a fresh thread",
            Some(hash_of(&(variant, frozen, ops.iter().filter(|o| **o == "compile").count()))),
        ),
        Err(why) => Outcome::bad(
            "history-dependent-processor",
            "the document a thread gets from the client library depends on what it compiled before".into(),
            why,
            json!({"kind":"processor-history","ops": ops, "frozen": frozen}),
        ),
    }
}

fn judge_tapes(texts: &[(String, String)], sink: Option<&mut Sink>) -> Outcome {
    let files = pipeline::files_of(texts);
    // The large programs: 1 deviation, 3 alternative orders at a spread of choice points.
    let big = texts.iter().map(|(_, t)| t.len()).sum::<usize>() > 20_000;
    let (execs, points, res) = if big { explore_tapes_capped(&files, 1, 3) } else { explore_tapes(&files, 2) };
    if let Some(s) = sink {
        s.count("executions", execs);
        s.count("choice_points", points as u64);
    }
    match res {
        Ok(doc) => Outcome::ok(
            if points == 0 { "no choice point on the compile path" } else { "same bytes under every tape" },
            Some(hash_of(&doc)),
        ),
        Err(why) => Outcome::bad(
            "order-dependent",
            "output depends on hash-map iteration order".into(),
            why,
            json!({"kind": "tapes", "modules": texts_json(texts)["modules"]}),
        ),
    }
}

fn judge_history(history: &[&Vec<(String, String)>], sink: Option<&mut Sink>) -> Outcome {
    // The last program is the subject; the others are compiled before it in the same
    // process and thread.
    let (last, before) = history.split_last().unwrap();
    // Stand-alone: on a fresh thread, so that neither thread-local nor per-thread state
    // of this worker's earlier compilations can reach it.
    let alone = {
        let files = pipeline::files_of(last);
        std::thread::scope(|s| {
            std::thread::Builder::new()
                .stack_size(8 << 20)
                .spawn_scoped(s, || run_under(&files, vec![]).0)
                .expect("spawn")
                .join()
                .unwrap_or_else(|_| "<panic in the stand-alone compilation>".into())
        })
    };
    // the earlier programs are compiled in another directory and then where the subject lives (state keyed by addresses or positions must not leak across locations)
    for t in before.iter() {
        let moved: Vec<(String, String)> = t.iter().map(|(n, x)| (format!("elsewhere/{n}"), x.clone())).collect();
        heartbeat();
        tape::set_tape(vec![]);
        let _ = guard(|| pipeline::run(&pipeline::files_of(&moved), "elsewhere/main.oal"));
        let _ = tape::take_log();
        let _ = run_under(&pipeline::files_of(t), vec![]);
    }
    let after = run_under(&pipeline::files_of(last), vec![]).0;
    let again = run_under(&pipeline::files_of(last), vec![]).0;
    // One loaded module set evaluated and emitted three times (what a long-lived process does
    // when it keeps the loaded modules): the same bytes each time.
    let reeval: Vec<String> = match guard(|| pipeline::load(&pipeline::files_of(last), "main.oal")) {
        Ok(Ok(mods)) => (0..3)
            .map(|_| match guard(|| pipeline::emit(&mods)) {
                Ok(pipeline::EmitOutcome::Doc(d)) => d,
                Ok(pipeline::EmitOutcome::EvalError(e)) => format!("<eval error {e}>"),
                Err(p) => format!("<panic {}>", p.message),
            })
            .collect(),
        _ => vec![],
    };
    if let Some(s) = sink {
        s.count("executions", before.len() as u64 + 3 + reeval.len() as u64);
    }
    if let Some(k) = reeval.iter().position(|d| *d != alone) {
        return Outcome::bad(
            "re-evaluation-dependent",
            "output depends on earlier evaluations of the same loaded modules".into(),
            format!("evaluation #{} of one loaded module set emits a document that differs from the stand-alone one", k + 1),
            json!({"kind": "history", "programs": history.iter().map(|t| texts_json(t)["modules"].clone()).collect::<Vec<_>>()}),
        );
    }
    if alone == after && after == again {
        Outcome::ok("same bytes after prior compilations", Some(hash_of(&(alone, before.len()))))
    } else {
        Outcome::bad(
            "history-dependent",
            "output depends on earlier compilations in the same process".into(),
            "the document compiled after other programs differs from the stand-alone one".into(),
            json!({"kind": "history", "programs": history.iter().map(|t| texts_json(t)["modules"].clone()).collect::<Vec<_>>()}),
        )
    }
}

impl Engine for C06 {
    fn id(&self) -> &'static str {
        "C06"
    }
    fn engine_name(&self) -> &'static str {
        "choice-tape"
    }
    fn phases(&self, tier: Tier) -> Vec<Phase> {
        let t = tier == Tier::Thorough;
        let mut v = vec![
            Phase::new("all choice tapes with <= 2 deviations per corpus program", json!({"kind":"tapes","thorough":t})),
            Phase::new("ordered pairs of corpus programs compiled in one process (first: every 4th program and the 12 built for this property, thorough every one; second: every one)", json!({"kind":"pairs","thorough":t})),
            Phase::new("free-running confirmation: oal-cli in 6 fresh processes per program (not the deciding step), then from three other working directories through --conf", json!({"kind":"cli","thorough":t})).workers(8),
        ];
        v.push(Phase::new(
            &format!("oal-cli histories: every sequence of <= {} operations (compile to the same target, edit main / the import / the base, delete the target), target compared with a compilation of the same sources in a fresh directory", if t { 5 } else { 4 }),
            json!({"kind":"cli-history","thorough":t,"depth": if t { 5 } else { 4 }}),
        ).workers(8));
        v.push(Phase::new(
            &format!("Processor histories: one thread compiles main.oal through oal_client::cli::Processor before, between and after every sequence of <= {} operations (compile, edit main, edit the import; equal-length versions) under an advancing and a frozen file clock, each compilation compared with a fresh thread's", if t { 6 } else { 4 }),
            json!({"kind":"processor-history","thorough":t,"depth": if t { 6 } else { 4 }}),
        ).workers(8));
        if t {
            v.insert(2, Phase::new("all ordered triples of a 40-program sub-corpus compiled in one process", json!({"kind":"triples","thorough":t})));
            // the tape search over the whole corpus is by far the longest bound of the thorough
            // tier: it goes last, so that a wall-clock cap cuts it and not the others
            let tapes = v.remove(0);
            v.push(tapes);
        }
        v
    }
    fn run_phase(&self, phase: &Phase, sink: &mut Sink) {
        let thorough = phase.param["thorough"].as_bool().unwrap();
        if phase.param["kind"] == "cli-history" {
            let depth = phase.param["depth"].as_u64().unwrap() as usize;
            let mut idx = 0u64;
            for len in 0..=depth {
                for k in 0..(HIST_OPS.len() as u64).pow(len as u32) {
                    if sink.mine(idx) {
                        if sink.expired() {
                            return;
                        }
                        let ops = hist_ops(len, k);
                        sink.visit(idx, || json!({"kind":"cli-history","ops": ops}), |s| judge_cli_history(&ops, Some(s)));
                    }
                    idx += 1;
                }
            }
            return;
        }
        if phase.param["kind"] == "processor-history" {
            let depth = phase.param["depth"].as_u64().unwrap() as usize;
            let mut idx = 0u64;
            for len in 0..=depth {
                for k in 0..(PROC_OPS.len() as u64).pow(len as u32) {
                    for frozen in [false, true] {
                        if sink.mine(idx) {
                            if sink.expired() {
                                return;
                            }
                            let ops = proc_ops(len, k);
                            sink.visit(idx, || json!({"kind":"processor-history","ops": ops, "frozen": frozen}), |s| judge_processor_history(&ops, frozen, Some(s)));
                        }
                        idx += 1;
                    }
                }
            }
            return;
        }
        let progs = corpus(thorough);
        let texts: Vec<Vec<(String, String)>> = progs.iter().map(|p| print(p).texts).collect();
        match phase.param["kind"].as_str().unwrap() {
            "tapes" => {
                for (i, t) in texts.iter().enumerate() {
                    if sink.expired() {
                        return;
                    }
                    sink.visit(i as u64, || json!({"kind":"tapes","modules": texts_json(t)["modules"]}), |s| judge_tapes(t, Some(s)));
                }
            }
            "pairs" => {
                let n = texts.len();
                // first program (compiled before the subject): every 4th one (thorough: every
                // one) and the programs built for this property; second program: every one
                let step = if thorough { 1 } else { 4 };
                for i in (0..n).filter(|i| i % step == 0 || *i + 12 >= n) {
                    for j in 0..n {
                        let idx = (i * n + j) as u64;
                        if !sink.mine(idx) {
                            continue;
                        }
                        if sink.expired() {
                            return;
                        }
                        let h = [&texts[i], &texts[j]];
                        sink.visit(idx, || json!({"kind":"history","programs": h.iter().map(|t| texts_json(t)["modules"].clone()).collect::<Vec<_>>()}), |s| judge_history(&h, Some(s)));
                    }
                }
            }
            "triples" => {
                let sub: Vec<&Vec<(String, String)>> = texts.iter().step_by((texts.len() / 40).max(1)).take(40).collect();
                let n = sub.len();
                for i in 0..n {
                    for j in 0..n {
                        for k in 0..n {
                            let idx = ((i * n + j) * n + k) as u64;
                            if !sink.mine(idx) {
                                continue;
                            }
                            if sink.expired() {
                                return;
                            }
                            let h = [sub[i], sub[j], sub[k]];
                            sink.visit(idx, || json!({"kind":"history","programs": h.iter().map(|t| texts_json(t)["modules"].clone()).collect::<Vec<_>>()}), |s| judge_history(&h, Some(s)));
                        }
                    }
                }
            }
            "cli" => {
                let step = if thorough { 4 } else { 8 };
                let n = texts.len();
                // every step-th program and always the two programs built for this property
                for (i, t) in texts.iter().enumerate().filter(|(i, _)| i % step == 0 || *i + 6 + LARGE >= n) {
                    if sink.expired() {
                        return;
                    }
                    sink.visit(i as u64, || json!({"kind":"cli","modules": texts_json(t)["modules"]}), |s| {
                        s.count("cli_processes", 6);
                        match cli_runs(t, 6) {
                            Ok(()) => Outcome::ok("same bytes in 6 fresh processes", Some(hash_of(t))),
                            Err(why) => Outcome::bad(
                                "process-dependent",
                                "output differs between fresh processes".into(),
                                why,
                                json!({"kind":"cli","modules": texts_json(t)["modules"]}),
                            ),
                        }
                    });
                }
            }
            _ => unreachable!(),
        }
    }
    fn replay(&self, case: &Value) -> Outcome {
        match case["kind"].as_str() {
            Some("history") => {
                let progs: Vec<Vec<(String, String)>> = case["programs"]
                    .as_array()
                    .map(|a| a.iter().map(|m| texts_from_json(&json!({"modules": m}))).collect())
                    .unwrap_or_default();
                let refs: Vec<&Vec<(String, String)>> = progs.iter().collect();
                judge_history(&refs, None)
            }
            Some("cli-history") => {
                let ops: Vec<String> = case["ops"].as_array().map(|a| a.iter().filter_map(|o| o.as_str().map(|s| s.to_owned())).collect()).unwrap_or_default();
                let ops: Vec<&'static str> = ops.iter().filter_map(|o| HIST_OPS.iter().copied().find(|h| h == o)).collect();
                judge_cli_history(&ops, None)
            }
            Some("processor-history") => {
                let ops: Vec<String> = case["ops"].as_array().map(|a| a.iter().filter_map(|o| o.as_str().map(|s| s.to_owned())).collect()).unwrap_or_default();
                let ops: Vec<&'static str> = ops.iter().filter_map(|o| PROC_OPS.iter().copied().find(|h| h == o)).collect();
                judge_processor_history(&ops, case["frozen"].as_bool().unwrap_or(false), None)
            }
            Some("cli") => match cli_runs(&texts_from_json(case), 6) {
                Ok(()) => Outcome::ok("same bytes", None),
                Err(why) => Outcome::bad("process-dependent", "output differs between fresh processes".into(), why, case.clone()),
            },
            _ => judge_tapes(&texts_from_json(case), None),
        }
    }
    fn rule(&self) -> String {
        "corpus = fragment programs chosen so that every map of the pipeline holds >= 2 entries (examples, tags, modules, parameters, declarations, references, ranges) plus one program with >= 3 entries everywhere; per program a stateless search over all choice tapes (orders of every hash-map iteration met through the ChoiceMap hook; all n! orders for n <= 4; <= 2 deviations from the canonical order); ordered pairs of corpus programs compiled in one process (quick: the first one from every 4th program and the 12 programs built for this property, the second one from the whole corpus; thorough: all pairs and the triples of a 40-program sub-corpus), last output compared with the stand-alone output; one large program (900 / 1500 declarations, then an implicit component) under <= 1 deviation at a spread of its choice points; oal-cli histories over {compile to out.yaml with a base, edit main.oal, edit the imported defs.oal, edit base.yaml, delete the target} of <= 4 (thorough 5) operations followed by a compile, modification times set by a logical clock, the target compared after every compile with the result of compiling the same sources in a fresh directory; Processor histories: the same sources (the two versions of each file have equal lengths) compiled in-process through oal_client::cli::Processor by one thread before, between and after every sequence of <= 4 (thorough 6) operations {compile, edit main, edit the import}, once with the logical clock advancing and once with every write carrying the same modification time, each compilation compared with a fresh thread's compilation of the same files; oracle: byte-identical YAML. Non-trivial = a document was produced; distinct = distinct documents".into()
    }
    fn assumptions(&self) -> Vec<String> {
        vec![
            "only hash maps imported through the cfg-switched `use … HashMap` lines of oal-compiler and of the parser's memo table (oal-model/src/grammar.rs) are under the explorer's control; a hash-ordered iteration introduced through a new import is only caught by the free-running multi-process confirmation".into(),
            "zero choice points on the compile path means no hash-ordered iteration can reach the output".into(),
        ]
    }
    fn state_counters(&self, m: &Stats) -> Option<(u64, u64, u64)> {
        let ex = *m.counters.get("executions").unwrap_or(&0);
        let cp = *m.counters.get("choice_points").unwrap_or(&0);
        Some((m.cases.max(1), (ex + cp).max(1), ex))
    }
}
