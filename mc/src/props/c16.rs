//! C16 — editor positions and byte offsets convert exactly in both directions.
//!
//! State space: every text of <= n symbols over {a, é, €, 😉, LF, CRLF, U+2028, U+0085, FF}. For each text,
//! every byte offset 0..=len+2, every position (line 0..=lines+1, character
//! 0..=maxcol+2) and every span s <= e is pushed through the real conversion functions
//! (hook H3) and compared with the line-table reference model.

use crate::explore::*;
use crate::textmodel::*;
use oal_client::lsp::unicode::verif as subject;
use oal_model::locator::Locator;
use oal_model::span::{CharSpan, Span};
use serde_json::{json, Value};

pub struct C16;

/// The text alphabet of C15(a) plus three characters that some editors break lines at and the
/// protocol does not (line separator, next line, form feed).
const SYMBOLS16: [&str; 9] = ["a", "\u{e9}", "\u{20ac}", "\u{1F609}", "\n", "\r\n", "\u{2028}", "\u{85}", "\u{c}"];

fn lsp_pos(p: Pos) -> lsp_types::Position {
    lsp_types::Position {
        line: p.line,
        character: p.character,
    }
}

fn from_lsp(p: lsp_types::Position) -> Pos {
    Pos {
        line: p.line,
        character: p.character,
    }
}

/// Checks one text. Returns (number of conversions checked, hash of the observations) or a
/// description of the first disagreement.
pub fn check_text(text: &str) -> Result<(u64, u64), (String, String)> {
    check_text_at(text, None)
}

/// The same on the offsets `probes` only (and the positions and spans they give): for texts
/// too long to take every offset.
pub fn check_text_at(text: &str, probes: Option<&[usize]>) -> Result<(u64, u64), (String, String)> {
    let t = LineTable::new(text);
    let len = text.len();
    let mut n = 0u64;
    let mut obs: Vec<u64> = Vec::new();
    let loc = Locator::try_from("file:///t.oal").unwrap();

    // 1. offsets -> positions -> offsets
    let all_offsets: Vec<usize> = match probes {
        Some(p) => p.to_vec(),
        None => (0..=len + 2).collect(),
    };
    for o in all_offsets.iter().copied() {
        if o <= len && (!text.is_char_boundary(o) || t.inside_crlf(o)) {
            // No defined position: only "does not panic, stays in range" is required.
            let p = guard(|| subject::utf8_to_position(text, o)).map_err(|e| {
                (
                    format!("panic utf8_to_position {}", panic_site(&e)),
                    format!("utf8_to_position({text:?}, {o}) panicked: {}", e.message),
                )
            })?;
            if (p.line as usize) >= t.lines.len() {
                return Err((
                    "utf8_to_position out of range".into(),
                    format!("utf8_to_position({text:?}, {o}) = {p:?}: line out of range"),
                ));
            }
            n += 1;
            continue;
        }
        let p = guard(|| subject::utf8_to_position(text, o)).map_err(|e| {
            (
                format!("panic utf8_to_position {}", panic_site(&e)),
                format!("utf8_to_position({text:?}, {o}) panicked: {}", e.message),
            )
        })?;
        n += 1;
        let expect = t.position(o);
        if from_lsp(p) != expect {
            return Err((
                "utf8_to_position differs from line table".into(),
                format!("utf8_to_position({text:?}, {o}) = {p:?}, reference {expect:?}"),
            ));
        }
        let back = guard(|| subject::position_to_utf8(text, p)).map_err(|e| {
            (
                format!("panic position_to_utf8 {}", panic_site(&e)),
                format!("position_to_utf8({text:?}, {p:?}) panicked: {}", e.message),
            )
        })?;
        n += 1;
        if back != o.min(len) {
            return Err((
                "offset -> position -> offset round trip".into(),
                format!("{text:?}: offset {o} -> {p:?} -> {back}"),
            ));
        }
        obs.push(hash_of(&(o, p.line, p.character)));
    }

    // 2. every position, including out-of-range ones
    let max_col = t.max_col();
    let all_positions: Vec<Pos> = match probes {
        Some(pr) => {
            let mut v = Vec::new();
            for o in pr.iter().filter(|o| **o <= len && text.is_char_boundary(**o) && !t.inside_crlf(**o)) {
                let p = t.position(*o);
                for dl in [0u32, 1] {
                    for dc in [0u32, 1, 2] {
                        v.push(Pos { line: p.line + dl, character: p.character + dc });
                    }
                }
            }
            v
        }
        None => {
            let mut v = Vec::new();
            for line in 0..=(t.lines.len() as u32 + 1) {
                for character in 0..=(max_col + 2) {
                    v.push(Pos { line, character });
                }
            }
            v
        }
    };
    {
        for p in all_positions {
            let (line, character) = (p.line, p.character);
            let got = guard(|| subject::position_to_utf8(text, lsp_pos(p))).map_err(|e| {
                (
                    format!("panic position_to_utf8 {}", panic_site(&e)),
                    format!("position_to_utf8({text:?}, {p:?}) panicked: {}", e.message),
                )
            })?;
            n += 1;
            let (expect, exact) = t.offset(p);
            if exact {
                if got != expect {
                    return Err((
                        "position_to_utf8 differs from line table (clamping)".into(),
                        format!("position_to_utf8({text:?}, {p:?}) = {got}, reference {expect}"),
                    ));
                }
            } else if got > len || !text.is_char_boundary(got) {
                return Err((
                    "position_to_utf8 out of range inside a surrogate pair".into(),
                    format!("position_to_utf8({text:?}, {p:?}) = {got}"),
                ));
            }
            obs.push(hash_of(&(line, character, got)));
        }
    }

    // 3. spans: the range sent for a span selects exactly the span's text client-side
    let bounds: Vec<usize> = match probes {
        Some(p) => p.iter().copied().filter(|o| *o <= len).collect::<Vec<_>>(),
        None => (0..=len).collect(),
    }
    .into_iter()
    .filter(|o| text.is_char_boundary(*o) && !t.inside_crlf(*o))
    .collect();
    let mut spans: Vec<(usize, usize)> = Vec::new();
    for (i, s) in bounds.iter().enumerate() {
        for e in bounds[i..].iter() {
            spans.push((*s, *e));
        }
    }
    spans.push((len, len + 1)); // the end-of-input span of the parser
    for (s, e) in spans {
        let r = guard(|| subject::utf8_range_to_position(text, s..e)).map_err(|err| {
            (
                format!("panic utf8_range_to_position {}", panic_site(&err)),
                format!("utf8_range_to_position({text:?}, {s}..{e}) panicked"),
            )
        })?;
        n += 1;
        let (cs, _) = t.offset(from_lsp(r.start));
        let (ce, _) = t.offset(from_lsp(r.end));
        let want = &text[s.min(len)..e.min(len)];
        if cs > ce || &text[cs..ce] != want {
            return Err((
                "range of a span does not select the span's text".into(),
                format!(
                    "{text:?}: span {s}..{e} -> {r:?} selects {:?}, expected {want:?}",
                    text.get(cs..ce)
                ),
            ));
        }
        // CharSpan::from (used by the CLI and the playground reports)
        let cspan = guard(|| CharSpan::from(text, Span::new(loc.clone(), s..e))).map_err(|err| {
            (
                format!("panic CharSpan::from {}", panic_site(&err)),
                format!("CharSpan::from({text:?}, {s}..{e}) panicked"),
            )
        })?;
        n += 1;
        let ws = text[..s.min(len)].chars().count();
        let we = text[..e.min(len)].chars().count();
        if cspan.start != ws || cspan.end != we {
            return Err((
                "CharSpan::from differs from chars().count()".into(),
                format!(
                    "{text:?}: span {s}..{e} -> chars {}..{}, expected {ws}..{we}",
                    cspan.start, cspan.end
                ),
            ));
        }
    }
    Ok((n, hash_of(&obs)))
}

/// Texts whose line count or line length (in UTF-16 units) passes 65535.
fn long_text(k: usize) -> String {
    match k {
        0 => format!("{}\u{e9}\u{1F609}a\nb\u{20ac}c", "a".repeat(65_534)),
        1 => format!("{}\u{e9}\u{1F609}", "a\n".repeat(65_537)),
        2 => format!("{}a\r\nb", "\u{1F609}".repeat(32_770)),
        _ => format!("{}z", "\u{e9}\r\n".repeat(65_540)),
    }
}
const LONG_TEXTS: usize = 4;

/// The offsets of a long text that are probed: the first and last ones, and every one whose
/// line or column lies within 6 of 65535.
fn long_probes(text: &str) -> Vec<usize> {
    let t = LineTable::new(text);
    let len = text.len();
    let mut v: Vec<usize> = (0..=len.min(4)).chain(len.saturating_sub(8)..=len + 2).collect();
    let (mut line, mut col) = (0u32, 0u32);
    let near = |x: u32| (65_529..=65_541).contains(&x);
    let b = text.as_bytes();
    let mut o = 0usize;
    for c in text.chars() {
        if (near(line) || near(col)) && !t.inside_crlf(o) {
            v.push(o);
        }
        if c == '\n' {
            line += 1;
            col = 0;
        } else if !(c == '\r' && b.get(o + 1) == Some(&b'\n')) {
            col += c.len_utf16() as u32;
        }
        o += c.len_utf8();
    }
    v.sort();
    v.dedup();
    v
}

fn run_long(k: usize, sink: &mut Sink) -> Outcome {
    let text = long_text(k);
    let probes = long_probes(&text);
    match check_text_at(&text, Some(&probes)) {
        Ok((n, h)) => {
            sink.count("transitions", n);
            sink.count("states", 1);
            Outcome::ok("agree", Some(h ^ hash_of(&k)))
        }
        Err((sig, summary)) => Outcome::bad(
            "disagree",
            sig,
            summary.chars().rev().take(400).collect::<String>().chars().rev().collect(),
            json!({"long": k}),
        ),
    }
}

fn run_text(text: &str, sink: &mut Sink) -> Outcome {
    match check_text(text) {
        Ok((n, h)) => {
            sink.count("transitions", n);
            sink.count("states", 1);
            let nontrivial = !text.is_ascii() || text.contains('\n');
            Outcome::ok(
                if nontrivial { "agree" } else { "agree-ascii" },
                if nontrivial { Some(h ^ hash_of(text)) } else { None },
            )
        }
        Err((sig, summary)) => Outcome::bad("disagree", sig, summary, json!({"text": text})),
    }
}

impl Engine for C16 {
    fn id(&self) -> &'static str {
        "C16"
    }
    fn engine_name(&self) -> &'static str {
        "textspace"
    }
    fn phases(&self, tier: Tier) -> Vec<Phase> {
        let max = match tier {
            Tier::Quick => 6,
            Tier::Thorough => 8,
        };
        let mut v: Vec<Phase> = (0..=max)
            .map(|n| Phase::new(&format!("texts of {n} symbols"), json!({"n": n})))
            .collect();
        v.push(Phase::new(
            "four texts with more than 65535 lines or UTF-16 units in a line, at the offsets around that line / column and at both ends",
            json!({"long": true}),
        ));
        v
    }
    fn run_phase(&self, phase: &Phase, sink: &mut Sink) {
        if phase.param["long"] == true {
            for k in 0..LONG_TEXTS {
                if sink.mine(k as u64) && !sink.expired() {
                    sink.visit(k as u64, || json!({"long": k}), |s| run_long(k, s));
                }
            }
            return;
        }
        let n = phase.param["n"].as_u64().unwrap() as usize;
        let total = (SYMBOLS16.len() as u64).pow(n as u32);
        let mut idx = sink.shard;
        // Index-addressable space: jump straight to this shard's cases.
        if let Some(i) = sink.single() {
            idx = i;
        }
        while idx < total {
            if sink.expired() {
                break;
            }
            let text = text_of(n, idx, &SYMBOLS16);
            sink.visit(idx, || json!({"text": text}), |s| run_text(&text, s));
            if sink.single().is_some() {
                break;
            }
            idx += sink.nshards;
        }
    }
    fn replay(&self, case: &Value) -> Outcome {
        if let Some(k) = case["long"].as_u64() {
            let text = long_text(k as usize);
            return match check_text_at(&text, Some(&long_probes(&text))) {
                Ok(_) => Outcome::ok("agree", None),
                Err((sig, summary)) => Outcome::bad("disagree", sig, summary.chars().rev().take(400).collect::<String>().chars().rev().collect(), case.clone()),
            };
        }
        let text = case["text"].as_str().unwrap_or("");
        match check_text(text) {
            Ok(_) => Outcome::ok("agree", None),
            Err((sig, summary)) => Outcome::bad("disagree", sig, summary, case.clone()),
        }
    }
    fn rule(&self) -> String {
        "every text of <= n symbols over {a, é, €, 😉, LF, CRLF, U+2028, U+0085, FF}; per text every byte offset 0..=len+2, every position (line 0..=lines+1, character 0..=maxcol+2) and every span s<=e on symbol boundaries plus the end-of-input span len..len+1, through the real position_to_utf8 / utf8_to_position / utf8_range_to_position / CharSpan::from, compared with a line-table reference; plus four texts with more than 65535 lines or more than 65535 UTF-16 units in a line, on the offsets, positions and spans around that line / column and at both ends. A text is non-trivial when it holds a multi-byte character or a line break; distinct = distinct observation vectors".into()
    }
    fn assumptions(&self) -> Vec<String> {
        vec![
            "offsets between CR and LF and positions between the two UTF-16 units of one character have no defined counterpart: only no-panic and in-range are required there".into(),
            "a lone CR (not followed by LF) is outside the alphabet".into(),
        ]
    }
    fn state_counters(&self, m: &Stats) -> Option<(u64, u64, u64)> {
        let s = *m.counters.get("states").unwrap_or(&0);
        let t = *m.counters.get("transitions").unwrap_or(&0);
        Some((s, t, s))
    }
}
