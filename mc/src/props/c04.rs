//! C04 — any text is answered with a result or diagnostics, never a crash.
//!
//! Subjects: `oal_syntax::parse` and `oal_wasm::compile` in-process (every text of every
//! space), and the real `oal-cli` process (every full-alphabet token sequence up to a small
//! length, the corpus, the nesting families and one representative text of every distinct
//! in-process outcome class), and the real `oal-lsp` server on the same texts.
//! Panics are caught by `guard`; stack overflows, aborts, memory exhaustion and hangs kill
//! the worker process and are attributed to the text in flight by the explorer.

use crate::explore::*;
use crate::lspdrv::{LspError, LspServer, TempWorkspace};
use crate::tokspace::*;
use oal_compiler::tree::Core;
use oal_model::locator::Locator;
use serde_json::{json, Value};
use std::collections::{BTreeMap, HashSet};
use std::io::Write;
use std::process::{Command, Stdio};
use std::sync::atomic::{AtomicU64, Ordering};
use std::sync::Mutex;
use std::time::{Duration, Instant};

pub struct C04;

const MAIN: &str = "file:///main.oal";
/// The CLI must exit within this time. It is kept just below the 10 s per-case watchdog of
/// the explorer so that a stalled CLI is reported (and its process and directory removed)
/// by this engine and not by the watchdog.
const CLI_TIMEOUT_MS: u64 = 9_000;

// ---------------------------------------------------------------------------
// In-process subjects

pub struct InProc {
    pub tag: &'static str,
    /// Canonical outcome class: parse verdict and error kinds, wasm verdict / first line
    /// of the error with positions stripped.
    pub class_key: String,
}

fn err_kind(e: &oal_syntax::errors::Error) -> String {
    match e {
        oal_syntax::errors::Error::Grammar(g) => format!("grammar: {g}"),
        oal_syntax::errors::Error::Lexicon(_) => "lexicon".to_owned(),
        oal_syntax::errors::Error::Domain => "domain".to_owned(),
    }
}

fn strip_positions(line: &str) -> String {
    let mut s: String = line
        .chars()
        .filter(|c| !c.is_ascii_digit())
        .take(120)
        .collect();
    while s.ends_with(' ') {
        s.pop();
    }
    s
}

/// Runs both in-process front ends on one text.
pub fn check_inproc(text: &str) -> Result<InProc, (String, String)> {
    let loc = Locator::try_from(MAIN).unwrap();
    let parsed = guard(|| {
        let (tree, errs) = oal_syntax::parse::<_, Core>(loc, text);
        let kinds: Vec<String> = errs.iter().map(err_kind).collect();
        (tree.is_some(), kinds)
    });
    let (has_tree, kinds) = match parsed {
        Ok(x) => x,
        Err(p) => {
            return Err((
                format!("panic | {} | oal_syntax::parse", stable_site(&p.location, &p.message)),
                format!(
                    "oal_syntax::parse panicked at {}: {} on {}",
                    p.location,
                    p.message,
                    show(text)
                ),
            ))
        }
    };
    if !has_tree && kinds.is_empty() {
        return Err((
            "silent | oal_syntax::parse | neither a tree nor an error".to_owned(),
            format!("oal_syntax::parse returned no tree and no error on {}", show(text)),
        ));
    }
    let compiled = guard(|| {
        let r = oal_wasm::compile(text);
        (r.api, r.error)
    });
    let (api, error) = match compiled {
        Ok(x) => x,
        Err(p) => {
            return Err((
                format!("panic | {} | oal_wasm::compile", stable_site(&p.location, &p.message)),
                format!(
                    "oal_wasm::compile panicked at {}: {} on {}",
                    p.location,
                    p.message,
                    show(text)
                ),
            ))
        }
    };
    if api.is_empty() == error.is_empty() {
        return Err((
            "silent | oal_wasm::compile | api and error both empty or both set".to_owned(),
            format!(
                "oal_wasm::compile returned api of {} bytes and error of {} bytes on {}",
                api.len(),
                error.len(),
                show(text)
            ),
        ));
    }
    let mut uniq = kinds.clone();
    uniq.sort();
    uniq.dedup();
    let wasm_class = if error.is_empty() {
        if api.contains("paths: {}") {
            "ok, no path".to_owned()
        } else {
            "ok, paths".to_owned()
        }
    } else {
        strip_positions(error.lines().next().unwrap_or(""))
    };
    let tag = if !kinds.is_empty() {
        "syntax-diagnostics"
    } else if !error.is_empty() {
        "compile-diagnostics"
    } else {
        "output"
    };
    Ok(InProc {
        tag,
        class_key: format!("parse tree={has_tree} errors={uniq:?} | wasm {wasm_class}"),
    })
}

// ---------------------------------------------------------------------------
// Representatives of the outcome classes, handed from the in-process phases to the CLI
// phase through a directory shared by the workers of one run.

fn reps_dir() -> String {
    // All workers (and describe calls) of one run are children of the same `oalmc check`.
    format!(
        "/var/tmp/oalmc-{}-c04-classes",
        std::os::unix::process::parent_id()
    )
}

struct Reps {
    seen: HashSet<u64>,
    file: Option<std::fs::File>,
}

static REPS: Mutex<Option<Reps>> = Mutex::new(None);

fn record_rep(sink: &Sink, ord: u64, idx: u64, class: u64, key: &str, text: &str) {
    if sink.single().is_some() {
        return; // describe / confirm modes do not feed the CLI and server phases
    }
    let mut g = REPS.lock().unwrap();
    let reps = g.get_or_insert_with(|| Reps {
        seen: HashSet::new(),
        file: None,
    });
    if !reps.seen.insert(class) {
        return;
    }
    if reps.file.is_none() {
        let dir = reps_dir();
        let _ = std::fs::create_dir_all(&dir);
        let path = format!(
            "{dir}/reps-{ord}-{}-{}.jsonl",
            sink.shard,
            std::process::id()
        );
        reps.file = std::fs::OpenOptions::new()
            .create(true)
            .append(true)
            .open(path)
            .ok();
    }
    if let Some(f) = reps.file.as_mut() {
        let line = json!({"class": format!("{class:016x}"), "ord": ord, "idx": idx, "key": key, "text": text});
        let _ = writeln!(f, "{line}");
        let _ = f.flush();
    }
}

/// One text per class: the one met first in the order (phase, index). Sorted the same way.
fn class_representatives() -> Vec<(String, String)> {
    let mut best: BTreeMap<String, (u64, u64, String, String)> = BTreeMap::new();
    let mut files: Vec<_> = match std::fs::read_dir(reps_dir()) {
        Ok(rd) => rd.filter_map(|e| e.ok()).map(|e| e.path()).collect(),
        Err(_) => vec![],
    };
    files.sort();
    for f in files {
        if !f
            .file_name()
            .and_then(|n| n.to_str())
            .map_or(false, |n| n.starts_with("reps-"))
        {
            continue;
        }
        let Ok(body) = std::fs::read_to_string(&f) else {
            continue;
        };
        for line in body.lines() {
            let Ok(v) = serde_json::from_str::<Value>(line) else {
                continue; // a line cut short by a dying worker
            };
            let (Some(class), Some(ord), Some(idx), Some(key), Some(text)) = (
                v["class"].as_str(),
                v["ord"].as_u64(),
                v["idx"].as_u64(),
                v["key"].as_str(),
                v["text"].as_str(),
            ) else {
                continue;
            };
            let cand = (ord, idx, key.to_owned(), text.to_owned());
            match best.get(class) {
                Some(b) if (b.0, b.1) <= (ord, idx) => {}
                _ => {
                    best.insert(class.to_owned(), cand);
                }
            }
        }
    }
    let mut v: Vec<_> = best.into_values().collect();
    v.sort();
    v.into_iter().map(|(_, _, k, t)| (k, t)).collect()
}

fn sweep_stale_dirs() {
    let Ok(rd) = std::fs::read_dir("/var/tmp") else {
        return;
    };
    for e in rd.filter_map(|e| e.ok()) {
        let name = e.file_name().to_string_lossy().to_string();
        if let Some(rest) = name.strip_prefix("oalmc-") {
            if let Some((pid, tail)) = rest.split_once('-') {
                if tail == "c04-classes"
                    && pid.parse::<u32>().is_ok()
                    && !std::path::Path::new(&format!("/proc/{pid}")).exists()
                {
                    let _ = std::fs::remove_dir_all(e.path());
                }
            }
        }
    }
}

// ---------------------------------------------------------------------------
// The real CLI

pub struct CliObs {
    pub code: Option<i32>,
    pub signal: Option<i32>,
    pub timed_out: bool,
    pub out_exists: bool,
    pub stderr_head: String,
}

static TMP_COUNTER: AtomicU64 = AtomicU64::new(0);

fn cli_path() -> String {
    std::env::var("OAL_CLI").unwrap_or_else(|_| "/verif/.build/repo/debug/oal-cli".to_owned())
}

/// Runs `oal-cli -m main.oal -t out.yaml` on the text in a fresh directory.
pub fn run_cli(text: &str) -> CliObs {
    use std::os::unix::process::ExitStatusExt;
    let dir = format!(
        "/var/tmp/oalmc-{}-{} \u{e9}",
        std::process::id(),
        TMP_COUNTER.fetch_add(1, Ordering::SeqCst)
    );
    let _ = std::fs::remove_dir_all(&dir);
    std::fs::create_dir_all(&dir).expect("cannot create temporary directory");
    std::fs::write(format!("{dir}/main.oal"), text).expect("cannot write main.oal");
    let errf = std::fs::File::create(format!("{dir}/stderr.txt")).expect("cannot create stderr file");
    let t0 = Instant::now();
    let mut child = Command::new(cli_path())
        .args(["-m", "main.oal", "-t", "out.yaml"])
        .current_dir(&dir)
        .env("RUST_BACKTRACE", "0")
        .stdin(Stdio::null())
        .stdout(Stdio::null())
        .stderr(Stdio::from(errf))
        .spawn()
        .unwrap_or_else(|e| panic!("cannot run the CLI binary {}: {e}", cli_path()));
    let mut pause = Duration::from_micros(200);
    let mut timed_out = false;
    let status = loop {
        match child.try_wait() {
            Ok(Some(st)) => break Some(st),
            Ok(None) => {}
            Err(_) => break None,
        }
        if t0.elapsed() > Duration::from_millis(CLI_TIMEOUT_MS) {
            timed_out = true;
            let _ = child.kill();
            let _ = child.wait();
            break None;
        }
        std::thread::sleep(pause);
        pause = (pause * 2).min(Duration::from_millis(5));
    };
    let out_exists = std::path::Path::new(&format!("{dir}/out.yaml")).exists();
    let stderr_head: String = std::fs::read(format!("{dir}/stderr.txt"))
        .map(|b| String::from_utf8_lossy(&b[..b.len().min(4096)]).to_string())
        .unwrap_or_default();
    let _ = std::fs::remove_dir_all(&dir);
    CliObs {
        code: status.and_then(|s| s.code()),
        signal: status.and_then(|s| s.signal()),
        timed_out,
        out_exists,
        stderr_head,
    }
}

pub fn check_cli(text: &str) -> Result<&'static str, (String, String)> {
    let o = run_cli(text);
    if o.timed_out {
        return Err((
            "hang | oal-cli | no exit within the time limit".to_owned(),
            format!("oal-cli did not exit within {CLI_TIMEOUT_MS} ms on {}", show(text)),
        ));
    }
    if let Some(sig) = o.signal {
        let overflow = o.stderr_head.contains("overflowed its stack");
        return Err((
            format!(
                "abort | oal-cli | killed by signal {sig}{}",
                if overflow { " (stack overflow)" } else { "" }
            ),
            format!(
                "oal-cli was killed by signal {sig} on {}; stderr: {}",
                show(text),
                show(&o.stderr_head)
            ),
        ));
    }
    match o.code {
        Some(101) => {
            let lines: Vec<&str> = o.stderr_head.lines().collect();
            let site = stderr_panic_site(&lines).unwrap_or_else(|| "unknown site".to_owned());
            Err((
                format!("panic | oal-cli {site} | exit status 101"),
                format!(
                    "oal-cli panicked (exit status 101) on {}; stderr: {}",
                    show(text),
                    show(&o.stderr_head)
                ),
            ))
        }
        Some(0) if o.out_exists => Ok("cli-output"),
        Some(0) => Err((
            "silent | oal-cli | exit status 0 without an output file".to_owned(),
            format!("oal-cli exited with status 0 but wrote no out.yaml on {}", show(text)),
        )),
        Some(1) if !o.out_exists => Ok("cli-diagnostics"),
        Some(1) => Err((
            "output | oal-cli | exit status 1 with an output file".to_owned(),
            format!("oal-cli exited with status 1 but out.yaml exists on {}", show(text)),
        )),
        c => Err((
            "exit status | oal-cli | neither 0 nor 1".to_owned(),
            format!(
                "oal-cli exited with {c:?} on {}; stderr: {}",
                show(text),
                show(&o.stderr_head)
            ),
        )),
    }
}

// ---------------------------------------------------------------------------
// Cases

fn describe_inproc(text: &str, note: &str) -> Value {
    let mut v = describe_text(text, note);
    v["subject"] = json!("in-process");
    v
}

fn describe_cli(text: &str, note: &str) -> Value {
    let mut v = describe_text(text, note);
    v["subject"] = json!("cli");
    v
}

fn describe_lsp(text: &str, note: &str) -> Value {
    let mut v = describe_text(text, note);
    v["subject"] = json!("lsp");
    v
}

fn run_inproc_case(ord: u64, idx: u64, text: &str, sink: &mut Sink) -> Outcome {
    match check_inproc(text) {
        Ok(r) => {
            let class = hash_of(&r.class_key);
            record_rep(sink, ord, idx, class, &r.class_key, text);
            Outcome::ok(r.tag, Some(class))
        }
        Err((sig, summary)) => {
            // A caught failure is an outcome class too: its first text also goes to the CLI.
            record_rep(sink, ord, idx, hash_of(&sig), &sig, text);
            Outcome::bad("violation", sig, summary, Value::Null)
        }
    }
}

/// The single-module programs of the program spaces, as texts.
fn run_programs(p: &Value, ord: u64, sink: &mut Sink) {
    use crate::gen::print;
    let mut visit = |idx: u64, prog: &crate::gen::Program, sink: &mut Sink| {
        if prog.modules.len() != 1 || !sink.mine(idx) {
            return;
        }
        let text = print(prog).texts[0].1.clone();
        sink.visit(idx, || describe_inproc(&text, "program space"), |s| run_inproc_case(ord, idx, &text, s));
    };
    match p["kind"].as_str().unwrap_or("") {
        "agnostic" => {
            let k = p["k"].as_u64().unwrap_or(2) as usize;
            let all = crate::space::agnostic_exprs(k);
            let sizes: Vec<usize> = if k == 2 { vec![1, 2] } else { vec![k] };
            let mut idx = 0u64;
            for sz in sizes {
                for e in all[sz].iter() {
                    for c in 0..crate::space::N_CONTEXTS {
                        if sink.mine(idx) {
                            if sink.expired() {
                                return;
                            }
                            visit(idx, &crate::space::context(c, e), sink);
                        }
                        idx += 1;
                    }
                }
            }
        }
        "annotations" => {
            for i in 0..crate::space::ann_case_count() {
                if sink.mine(i as u64) {
                    if sink.expired() {
                        return;
                    }
                    visit(i as u64, &crate::space::ann_case(i), sink);
                }
            }
        }
        _ => {
            let mut idx = 0u64;
            for f in 0..crate::frags::NAMES.len() {
                for prog in crate::frags::fragment(f, false).programs.iter() {
                    if sink.mine(idx) {
                        if sink.expired() {
                            return;
                        }
                        visit(idx, prog, sink);
                    }
                    idx += 1;
                }
            }
        }
    }
}

fn run_cli_case(text: &str) -> Outcome {
    match check_cli(text) {
        // The CLI verdict alone is a two-valued observation: not counted as a class.
        Ok(tag) => Outcome::ok(tag, None),
        Err((sig, summary)) => Outcome::bad("violation", sig, summary, Value::Null),
    }
}

/// The representatives of the in-process outcome classes through the CLI or the server.
fn run_external_classes(subject: &str, last: bool, sink: &mut Sink) {
    let reps = class_representatives();
    let n = sink.nshards.max(1);
    let mut idx = sink.single().unwrap_or(sink.shard);
    while (idx as usize) < reps.len() {
        if sink.expired() {
            break;
        }
        let (key, text) = &reps[idx as usize];
        sink.visit(
            idx,
            || json!({"text": text, "subject": subject, "made": format!("representative of the in-process class [{key}]")}),
            |_| {
                if subject == "lsp" {
                    run_lsp_case(text)
                } else {
                    run_cli_case(text)
                }
            },
        );
        if sink.single().is_some() {
            return;
        }
        idx += n;
    }
    if last && sink.single().is_none() {
        // The worker that sees every shard of the last phase done removes the directory.
        let dir = reps_dir();
        let _ = std::fs::create_dir_all(&dir);
        let _ = std::fs::write(format!("{dir}/done-{}", sink.shard), b"");
        if (0..n).all(|s| std::path::Path::new(&format!("{dir}/done-{s}")).exists()) {
            let _ = std::fs::remove_dir_all(&dir);
        }
    }
}

// ---------------------------------------------------------------------------
// The real language server: texts are fed as successive full-text changes of `main.oal`,
// each followed by one request that the server only answers after it has re-loaded and
// re-evaluated the workspace.

/// The server must answer within this time (two attempts fit in the 10 s case budget).
const LSP_TIMEOUT_MS: u64 = 4_000;
/// A server session is restarted after this many texts (bounds the history of a replay).
const LSP_SESSION_TEXTS: usize = 200;

struct LspSession {
    srv: LspServer,
    _ws: TempWorkspace,
    history: Vec<String>,
}

static LSP_SESSION: Mutex<Option<LspSession>> = Mutex::new(None);

fn lsp_start() -> LspSession {
    let ws = TempWorkspace::new(&[("main.oal", "")]).expect("cannot create the LSP workspace");
    let mut srv = LspServer::start(ws.path())
        .unwrap_or_else(|e| panic!("cannot start the language server ($OAL_LSP): {e}"));
    srv.timeout = Duration::from_millis(LSP_TIMEOUT_MS);
    srv.open("main.oal", "")
        .and_then(|_| srv.sync())
        .unwrap_or_else(|e| panic!("the language server does not answer on an empty main.oal: {e}"));
    LspSession {
        srv,
        _ws: ws,
        history: Vec::new(),
    }
}

/// Feeds one text to a session; on failure returns (failure kind, cause class).
fn lsp_feed(sess: &mut LspSession, text: &str) -> Result<bool, (String, String)> {
    sess.history.push(text.to_owned());
    match sess
        .srv
        .change_full("main.oal", text)
        .and_then(|_| sess.srv.sync())
    {
        Ok(()) => Ok(sess
            .srv
            .diagnostics_of("main.oal")
            .and_then(|d| d.as_array())
            .map_or(false, |a| !a.is_empty())),
        Err(e) => {
            let kind = match e {
                LspError::ServerDied(_) => "server died",
                LspError::Timeout => "hang",
                LspError::Protocol(_) => "protocol error",
            };
            let cause = match e {
                LspError::ServerDied(_) => {
                    // `death_cause` waits for the end of the server's stderr; the panic site
                    // is then re-derived with the variant of the offending value kept.
                    let generic = sess.srv.death_cause();
                    match stderr_panic_site(&sess.srv.stderr_tail()) {
                        Some(site) => format!("panic {site}"),
                        None => generic,
                    }
                }
                LspError::Timeout => "no answer to the request within the time limit".to_owned(),
                LspError::Protocol(m) => m.chars().take(60).collect(),
            };
            Err((kind.to_owned(), cause))
        }
    }
}

fn lsp_end_session() {
    *LSP_SESSION.lock().unwrap() = None;
}

fn lsp_verdict(text: &str, history: Option<&[String]>) -> Result<&'static str, (String, String, Value)> {
    // With a history: replay it on a fresh server. Without: continue the worker's session.
    if let Some(h) = history {
        let mut sess = lsp_start();
        for t in h.iter() {
            if let Err((kind, cause)) = lsp_feed(&mut sess, t) {
                return Err((
                    format!("{kind} | oal-lsp {cause} | only after the earlier texts of the session"),
                    format!("oal-lsp: {kind} ({cause}) while replaying the session at {}", show(t)),
                    json!({"text": text, "subject": "lsp", "history": h}),
                ));
            }
        }
        return Ok("lsp-answered");
    }
    let mut g = LSP_SESSION.lock().unwrap();
    if g.as_ref().map_or(true, |s| s.history.len() >= LSP_SESSION_TEXTS) {
        *g = None;
        *g = Some(lsp_start());
    }
    let sess = g.as_mut().unwrap();
    match lsp_feed(sess, text) {
        Ok(true) => Ok("lsp-diagnostics"),
        Ok(false) => Ok("lsp-clean"),
        Err((kind, cause)) => {
            let history = sess.history.clone();
            *g = None;
            // The text in flight alone, on a fresh server.
            let mut fresh = lsp_start();
            match lsp_feed(&mut fresh, text) {
                Err((kind2, cause2)) => Err((
                    format!("{kind2} | oal-lsp {cause2} | full-text change of main.oal, then one request"),
                    format!(
                        "oal-lsp: {kind2} ({cause2}) after main.oal was changed to {} (alone on a fresh server; first seen as {kind} after {} earlier texts)",
                        show(text),
                        history.len() - 1
                    ),
                    json!({"text": text, "subject": "lsp"}),
                )),
                Ok(_) => Err((
                    format!("{kind} | oal-lsp {cause} | only after the earlier texts of the session"),
                    format!(
                        "oal-lsp: {kind} ({cause}) after main.oal was changed to {}, the last of {} successive texts; the text alone on a fresh server is answered",
                        show(text),
                        history.len()
                    ),
                    json!({"text": text, "subject": "lsp", "history": history}),
                )),
            }
        }
    }
}

// ---------------------------------------------------------------------------
// Workspaces: programs of several modules through the three heads

/// The multi-module programs of the fragments and the two-module products over the leaves.
fn workspace_programs(thorough: bool) -> Vec<crate::gen::Program> {
    let mut out = Vec::new();
    for f in 4..crate::frags::NAMES.len() {
        for p in crate::frags::fragment(f, false).programs.into_iter() {
            if p.modules.len() > 1 {
                out.push(p);
            }
        }
    }
    let all = crate::space::agnostic_exprs(2);
    let terms: Vec<&crate::gen::E> = if thorough { all[1].iter().chain(all[2].iter().step_by(3)).collect() } else { all[1].iter().collect() };
    for b in terms.iter() {
        for a in terms.iter() {
            for site in 0..crate::space::N_SITES {
                // unqualified imports of a module that declares main's `v` again are rejected at
                // once: keep one form of them
                if site % 2 == 0 && site < 6 && site != 0 {
                    continue;
                }
                out.push(crate::space::two_module(b, a, site));
            }
        }
    }
    out
}

fn files_cli(texts: &[(String, String)]) -> CliObs {
    use std::os::unix::process::ExitStatusExt;
    let dir = format!("/var/tmp/oalmc-{}-{} \u{e9}", std::process::id(), TMP_COUNTER.fetch_add(1, Ordering::SeqCst));
    let _ = std::fs::remove_dir_all(&dir);
    std::fs::create_dir_all(&dir).expect("cannot create temporary directory");
    for (name, text) in texts {
        let path = std::path::PathBuf::from(format!("{dir}/{name}"));
        if let Some(parent) = path.parent() {
            std::fs::create_dir_all(parent).expect("cannot create module directory");
        }
        std::fs::write(&path, text).expect("cannot write module");
    }
    let errf = std::fs::File::create(format!("{dir}/stderr.txt")).expect("cannot create stderr file");
    let t0 = Instant::now();
    let mut child = Command::new(cli_path())
        .args(["-m", "main.oal", "-t", "out.yaml"])
        .current_dir(&dir)
        .env("RUST_BACKTRACE", "0")
        .stdin(Stdio::null())
        .stdout(Stdio::null())
        .stderr(Stdio::from(errf))
        .spawn()
        .unwrap_or_else(|e| panic!("cannot run the CLI binary {}: {e}", cli_path()));
    let mut timed_out = false;
    let status = loop {
        match child.try_wait() {
            Ok(Some(st)) => break Some(st),
            Ok(None) => {}
            Err(_) => break None,
        }
        if t0.elapsed() > Duration::from_millis(CLI_TIMEOUT_MS) {
            timed_out = true;
            let _ = child.kill();
            let _ = child.wait();
            break None;
        }
        std::thread::sleep(Duration::from_millis(1));
    };
    let out_exists = std::path::Path::new(&format!("{dir}/out.yaml")).exists();
    let stderr_head: String = std::fs::read(format!("{dir}/stderr.txt"))
        .map(|b| String::from_utf8_lossy(&b[..b.len().min(4096)]).to_string())
        .unwrap_or_default();
    let _ = std::fs::remove_dir_all(&dir);
    CliObs { code: status.and_then(|s| s.code()), signal: status.and_then(|s| s.signal()), timed_out, out_exists, stderr_head }
}

fn run_workspace_case(texts: &[(String, String)], prog: Option<&crate::gen::Program>) -> Outcome {
    let shown = || texts.iter().map(|(n, t)| format!("{n}: {}", show(t))).collect::<Vec<_>>().join(" ; ");
    let case = || json!({"subject": "workspace", "ast": prog, "modules": crate::props::c01::texts_json(texts)["modules"]});
    // 1. in-process: the library pipeline the front ends share
    let files = crate::pipeline::files_of(texts);
    let inproc = match crate::pipeline::run(&files, "main.oal") {
        crate::pipeline::Run::LoadPanic(p) | crate::pipeline::Run::BackendPanic(p) => {
            // The cause is decided as in C01: a program that is rejected once its modules are
            // merged into one was let through by the per-module inference (D4).
            let cause = crate::props::c01::cause_class(prog);
            let sig = if cause == "cross-module" {
                "panic | back end | accepted, but rejected (InvalidType) once the imported declarations are merged into the importing module | program of several modules".to_owned()
            } else {
                format!("panic | {} | {cause} | program of several modules", panic_site(&p))
            };
            return Outcome::bad(
                "violation",
                sig,
                format!("panic at {}: {} on {}", p.location, p.message.chars().take(160).collect::<String>(), shown()),
                case(),
            )
        }
        crate::pipeline::Run::Doc(..) => "document",
        _ => "diagnostics",
    };
    // 2. the real CLI
    let o = files_cli(texts);
    if o.timed_out {
        return Outcome::bad("violation", "hang | oal-cli | no exit within the time limit | program of several modules".into(), shown(), case());
    }
    if let Some(sig) = o.signal {
        return Outcome::bad("violation", format!("abort | oal-cli | killed by signal {sig} | program of several modules"), format!("{}; stderr: {}", shown(), show(&o.stderr_head)), case());
    }
    match (o.code, o.out_exists) {
        (Some(0), true) | (Some(1), false) => {}
        (Some(101), _) => {
            let lines: Vec<&str> = o.stderr_head.lines().collect();
            let site = stderr_panic_site(&lines).unwrap_or_else(|| "unknown site".to_owned());
            return Outcome::bad("violation", format!("panic | oal-cli {site} | exit status 101 | program of several modules"), format!("{}; stderr: {}", shown(), show(&o.stderr_head)), case());
        }
        (c, e) => {
            return Outcome::bad("violation", format!("exit status | oal-cli | status {c:?}, output file {} | program of several modules", if e { "written" } else { "not written" }), shown(), case());
        }
    }
    // 3. the real language server on a folder with every file
    let refs: Vec<(&str, &str)> = texts.iter().map(|(n, t)| (n.as_str(), t.as_str())).collect();
    let ws = TempWorkspace::new(&refs).expect("cannot create the LSP workspace");
    let mut srv = LspServer::start(ws.path()).unwrap_or_else(|e| panic!("cannot start the language server ($OAL_LSP): {e}"));
    srv.timeout = Duration::from_millis(LSP_TIMEOUT_MS);
    let mut step = || -> Result<(), LspError> {
        for (n, t) in texts.iter() {
            srv.open(n, t)?;
            srv.sync()?;
        }
        Ok(())
    };
    if let Err(e) = step() {
        let (kind, cause) = match e {
            LspError::ServerDied(_) => {
                let generic = srv.death_cause();
                ("server died", match stderr_panic_site(&srv.stderr_tail()) {
                    Some(site) => format!("panic {site}"),
                    None => generic,
                })
            }
            LspError::Timeout => ("hang", "no answer to the request within the time limit".to_owned()),
            LspError::Protocol(m) => ("protocol error", m.chars().take(60).collect()),
        };
        return Outcome::bad("violation", format!("{kind} | oal-lsp {cause} | every module opened, one request after each | program of several modules"), shown(), case());
    }
    srv.shutdown();
    Outcome::ok(if inproc == "document" { "workspace: output" } else { "workspace: diagnostics" }, Some(hash_of(&(inproc, o.code))))
}

fn run_lsp_case(text: &str) -> Outcome {
    match lsp_verdict(text, None) {
        Ok(tag) => Outcome::ok(tag, None),
        Err((sig, summary, case)) => Outcome::bad("violation", sig, summary, case),
    }
}

impl Engine for C04 {
    fn id(&self) -> &'static str {
        "C04"
    }
    fn engine_name(&self) -> &'static str {
        "tokspace"
    }
    fn phases(&self, tier: Tier) -> Vec<Phase> {
        let thorough = tier == Tier::Thorough;
        let mut spaces: Vec<(String, Value)> = Vec::new();
        spaces.push(("corpus of valid programs, 0 deviations".into(), p_corpus()));
        let full = if thorough { 4 } else { 3 };
        for k in 0..=full {
            spaces.push((format!("full token alphabet, sequences of {k}"), p_seq("full54", k)));
        }
        // Reduced sequences of length <= `full` are sequences over the full alphabet.
        let reduced = if thorough { 7 } else { 5 };
        for k in full + 1..=reduced {
            spaces.push((
                format!("reduced alphabet (18), sequences of {k}"),
                p_seq("reduced18", k),
            ));
        }
        if thorough {
            spaces.push((
                "reduced alphabet (25), sequences of 5".into(),
                p_seq("reduced25", 5),
            ));
        }
        let (calpha, cmax) = if thorough { ("chars23", 5) } else { ("chars18", 4) };
        for n in 1..=cmax {
            spaces.push((format!("character alphabet, strings of {n}"), p_chars(calpha, n)));
        }
        spaces.push((
            "corpus mutants, 1 deviation (whole corpus)".into(),
            p_mut(1, 100_000),
        ));
        if thorough {
            spaces.push((
                "corpus mutants, 2 deviations (programs of <= 12 tokens)".into(),
                p_mut(2, 12),
            ));
        }
        spaces.push((
            "corpus and generated single-module programs with one matched pair of parentheses removed".into(),
            p_unparen(),
        ));
        spaces.push((
            "corpus with one token of the full alphabet inserted at one site".into(),
            p_ins(if thorough { 100_000 } else { 40 }),
        ));
        spaces.push(("programs whose import names something unusual (28 paths x 3 forms)".into(), p_imports()));
        spaces.push(("corpus programs cut after each token (end of text, or one line break, right after it)".into(), p_prefix()));
        spaces.push(("number literals at and around the ends of the integer types, in five places".into(), p_numbers()));
        spaces.push(("every string of <= 5 characters over the alphabet of a token class (path segment, property name, identifier, reference)".into(), p_lexemes()));
        spaces.push(("annotations repeating a long non-ASCII key (diagnostics that quote source text, every length and byte alignment)".into(), p_messages()));
        spaces.push(("ordered pairs of generated expressions of <= 2 constructors side by side, unparenthesised, in six list positions".into(), p_pairs()));
        spaces.push(("nesting families".into(), p_nest(thorough)));
        // Parseable programs: the single-module members of the program spaces of C01/C02
        // (every expression tree of <= k constructors in every one-hole context, the
        // annotation matrix, the kind-directed fragments), printed as text.
        spaces.push((
            "single-module programs: expressions of <=2 constructors x contexts".into(),
            json!({"space": "programs", "kind": "agnostic", "k": 2}),
        ));
        spaces.push((
            "single-module programs: annotation matrix".into(),
            json!({"space": "programs", "kind": "annotations"}),
        ));
        spaces.push((
            "single-module programs: kind-directed fragments F1-F10".into(),
            json!({"space": "programs", "kind": "frags"}),
        ));
        spaces.push((
            "single-module programs: expressions of 3 constructors x contexts".into(),
            json!({"space": "programs", "kind": "agnostic", "k": 3}),
        ));
        if thorough {
            spaces.push((
                "single-module programs: expressions of 4 constructors x contexts".into(),
                json!({"space": "programs", "kind": "agnostic", "k": 4}),
            ));
        }

        let mut phases = Vec::new();
        for (ord, (name, mut param)) in spaces.into_iter().enumerate() {
            param["subject"] = json!("in-process");
            param["ord"] = json!(ord);
            phases.push(Phase::new(&name, param));
        }
        let ext_len = if thorough { 3 } else { 2 };
        for (subject, binary) in [("cli", "oal-cli"), ("lsp", "oal-lsp")] {
            let mut ext: Vec<(String, Value)> = Vec::new();
            for k in 0..=ext_len {
                ext.push((
                    format!("{binary}: full token alphabet, sequences of {k}"),
                    p_seq("full54", k),
                ));
            }
            ext.push((format!("{binary}: corpus of valid programs, 0 deviations"), p_corpus()));
            ext.push((format!("{binary}: nesting families"), p_nest(thorough)));
            ext.push((format!("{binary}: programs whose import names something unusual"), p_imports()));
            ext.push((format!("{binary}: annotations repeating a long non-ASCII key"), p_messages()));
            ext.push((
                format!("{binary}: one representative per in-process outcome class"),
                json!({"space": "classes", "last": subject == "lsp"}),
            ));
            for (name, mut param) in ext {
                param["subject"] = json!(subject);
                phases.push(Phase::new(&name, param).workers(8));
            }
        }
        phases.push(
            Phase::new(
                "workspaces: the multi-module programs (fragments F5-F11, two-module products over the leaves x 12 use sites) through the in-process pipeline, oal-cli in a directory holding every file, and oal-lsp on a folder holding every file",
                json!({"subject": "workspace", "thorough": thorough}),
            )
            .workers(8),
        );
        phases
    }
    fn run_phase(&self, phase: &Phase, sink: &mut Sink) {
        let p = &phase.param;
        match p["subject"].as_str() {
            Some("workspace") => {
                let progs = workspace_programs(p["thorough"].as_bool().unwrap_or(false));
                for (i, prog) in progs.iter().enumerate() {
                    let idx = i as u64;
                    if !sink.mine(idx) {
                        continue;
                    }
                    if sink.expired() {
                        return;
                    }
                    let texts = crate::gen::print(prog).texts;
                    sink.visit(
                        idx,
                        || json!({"subject": "workspace", "ast": prog, "modules": crate::props::c01::texts_json(&texts)["modules"]}),
                        |_| run_workspace_case(&texts, Some(prog)),
                    );
                }
            }
            Some(subject @ ("cli" | "lsp")) => {
                let lsp = subject == "lsp";
                if p["space"] == "classes" {
                    run_external_classes(subject, p["last"].as_bool().unwrap_or(false), sink);
                } else {
                    let space = TextSpace::from_param(p);
                    if lsp {
                        walk_texts(&space, sink, &describe_lsp, &|_, text, _| run_lsp_case(text));
                    } else {
                        walk_texts(&space, sink, &describe_cli, &|_, text, _| run_cli_case(text));
                    }
                }
                if lsp {
                    lsp_end_session();
                }
            }
            _ => {
                let ord = p["ord"].as_u64().unwrap_or(0);
                if ord == 0 && sink.shard == 0 {
                    if sink.single().is_none() {
                        sweep_stale_dirs();
                    }
                }
                if p["space"] == "programs" {
                    run_programs(p, ord, sink);
                    return;
                }
                let space = TextSpace::from_param(p);
                walk_texts(&space, sink, &describe_inproc, &|idx, text, s| {
                    run_inproc_case(ord, idx, text, s)
                });
            }
        }
    }
    fn replay(&self, case: &Value) -> Outcome {
        let text = case["text"].as_str().unwrap_or("");
        if case["subject"] == "workspace" {
            let prog = serde_json::from_value::<crate::gen::Program>(case["ast"].clone()).ok();
            return run_workspace_case(&crate::props::c01::texts_from_json(case), prog.as_ref());
        }
        if case["subject"] == "cli" {
            match check_cli(text) {
                Ok(tag) => Outcome::ok(tag, None),
                Err((sig, summary)) => Outcome::bad("violation", sig, summary, case.clone()),
            }
        } else if case["subject"] == "lsp" {
            let history: Option<Vec<String>> = case["history"].as_array().map(|a| {
                a.iter().filter_map(|t| t.as_str().map(str::to_owned)).collect()
            });
            let r = lsp_verdict(text, history.as_deref());
            lsp_end_session();
            match r {
                Ok(tag) => Outcome::ok(tag, None),
                Err((sig, summary, _)) => Outcome::bad("violation", sig, summary, case.clone()),
            }
        } else {
            match check_inproc(text) {
                Ok(r) => Outcome::ok(r.tag, None),
                Err((sig, summary)) => Outcome::bad("violation", sig, summary, case.clone()),
            }
        }
    }
    fn rule(&self) -> String {
        "texts: (1) every sequence of <= L tokens over the full alphabet (one spelling per TokenKind, 54 symbols, joined by one blank) and of L+1..=L' tokens over the reduced grammar alphabet (18 symbols, a subset of the 54: let res a = ; ( ) { } 'p num , | -> get < > /; 25 symbols in one thorough bound); (2) every string of <= n characters over the character alphabet; (3) the corpus (examples/*.oal and 50 small valid programs covering every production) verbatim, re-rendered, and with every 1 (thorough: also 2, on the programs of <= 12 tokens) token-level deviation (delete, duplicate, swap neighbours, replace by each of the 54 tokens) at every site; (4) 42 parametric nesting (closed, unclosed and mismatched brackets) / chain / digit families. Each text goes through oal_syntax::parse and oal_wasm::compile in a worker process (panic caught; abort, stack overflow, memory exhaustion, hang attributed to the text). Every full-alphabet sequence of <= 2 (thorough 3) tokens, the corpus, the nesting families and the first text of every distinct in-process outcome class also go through the real oal-cli in a fresh directory (exit status 0 or 1, status 0 iff out.yaml written) and through the real oal-lsp (full-text change of main.oal, then one request that must be answered). distinct = distinct in-process outcome classes (parse verdict and error kinds, wasm verdict / first line of its error without positions)".into()
    }
    fn assumptions(&self) -> Vec<String> {
        vec![
            format!("the language server receives the texts as successive full-text didChange of main.oal in sessions of at most {LSP_SESSION_TEXTS} texts, one definition request (0:0) as synchronisation point after each; it must answer within {LSP_TIMEOUT_MS} ms; a failure is re-run alone on a fresh server before it is reported"),
            "in-process subjects run on an 8 MiB stack, release profile with overflow checks; the CLI is the dev-profile binary".into(),
            format!("the CLI time limit is {CLI_TIMEOUT_MS} ms (just below the 10 s watchdog of the explorer)"),
            "texts reach oal-cli as the file main.oal of an otherwise empty directory, so imports fail there as they do in the playground entry point".into(),
        ]
    }
    fn case_budget_ms(&self) -> u64 {
        10_000
    }
    fn budget_s(&self, tier: Tier) -> u64 {
        // Nominal quick run: 7 s on an idle 16-core machine, 40 s when it is heavily shared
        // (the CLI phases are process-bound); the cap only guards against a stuck machine.
        match tier {
            Tier::Quick => 75,
            Tier::Thorough => 1500,
        }
    }
    fn crash_signature(&self, kind: &str, case: &Value) -> String {
        let subject = if case["subject"] == "cli" {
            "oal-cli driver"
        } else if case["subject"] == "lsp" {
            "oal-lsp driver"
        } else {
            "oal_syntax::parse + oal_wasm::compile in-process"
        };
        format!("{kind} | {subject} | worker process died or stalled on one text")
    }
}

#[cfg(test)]
mod tests {
    use super::*;

    /// Every corpus program parses without error, and compiles unless it imports a module.
    #[test]
    fn corpus_is_valid() {
        for p in corpus().iter() {
            for text in [p.text.clone(), render(&p.prefix, &p.toks)] {
                let r = check_inproc(&text).unwrap_or_else(|e| panic!("{}: {e:?}", p.name));
                println!("{:24} {:22} {}", p.name, r.tag, r.class_key);
                assert_ne!(r.tag, "syntax-diagnostics", "{}: {text}", p.name);
                if !text.contains("use ") {
                    assert_eq!(r.tag, "output", "{}: {text}\n{}", p.name, oal_wasm::compile(&text).error);
                }
            }
        }
    }
}
