//! C01 — accepted programs never go wrong.
//!
//! Every program of the bounded spaces of `space.rs` (and of the kind-directed fragments)
//! goes through the real load + compile; whenever that accepts, the real evaluator,
//! OpenAPI builder and YAML serialiser must finish with a document or a located error.

use crate::explore::*;
use crate::gen::*;
use crate::pipeline::{self, Run};
use crate::space;
use serde_json::{json, Value};
use std::collections::BTreeMap;

pub struct C01;

pub fn texts_json(texts: &[(String, String)]) -> Value {
    json!({"modules": texts.iter().map(|(n, t)| json!({"name": n, "text": t})).collect::<Vec<_>>()})
}

pub fn texts_from_json(case: &Value) -> Vec<(String, String)> {
    case["modules"]
        .as_array()
        .map(|a| {
            a.iter()
                .map(|m| {
                    (
                        m["name"].as_str().unwrap_or("").to_owned(),
                        m["text"].as_str().unwrap_or("").to_owned(),
                    )
                })
                .collect()
        })
        .unwrap_or_default()
}

/// Stable name of a back-end panic: for the `cast_*` failures of the evaluator ("not a
/// <what>: <Variant>(..)") the variant of the value that reached the cast names the root
/// cause (`Ranges`: a `::` value, `VariadicOp`: an operator value, `Recursion`: an
/// unguarded recursion variable); other panics are named by file and message head.
pub fn panic_head(p: &PanicInfo) -> String {
    let file = panic_site(p);
    let file = file.split(' ').next().unwrap_or("").to_owned();
    let msg: String = p
        .message
        .chars()
        .take_while(|c| *c != '(' && *c != '{' && *c != '\n' && *c != '[')
        .take(60)
        .collect();
    let msg = msg.trim_end();
    format!("{file} \"{msg}\"")
}

/// Cause class of a back-end crash.
/// * several modules and the merged single-module program is rejected with InvalidType by
///   the real compiler: the per-module inference hole (D4);
/// * single module: does the reference kind checker (kinds.rs) accept the program? If it
///   does, the kind system itself lets the value through (D3, D13-D15); if it does not,
///   the compiler skipped a check that the language requires.
pub fn cause_class(prog: Option<&Program>) -> String {
    let Some(p) = prog else {
        return "accepted program".into();
    };
    if p.modules.len() >= 2 {
        if let Some(merged) = space::merge_modules(p) {
            let printed = print(&merged);
            let files = pipeline::files_of(&printed.texts);
            if let Ok(Err(pipeline::LoadError::Compile(e))) = guard(|| pipeline::load(&files, "main.oal")) {
                if pipeline::kind_name(&e.kind) == "InvalidType" {
                    return "cross-module".into();
                }
            }
            // The merged program is accepted too: classify it like a single module.
            return cause_class(Some(&merged));
        }
        return "accepted multi-module program".into();
    }
    match crate::kinds::verdict(p) {
        crate::kinds::Verdict::Accept => "well-kinded per the reference kind checker".into(),
        crate::kinds::Verdict::InvalidType(w) => {
            let class = if w.starts_with("cycle") {
                "cycle without a schema to cut at".to_owned()
            } else if w.starts_with("unification") {
                "unsolvable kind constraints".to_owned()
            } else {
                // "ill-formed <what>: <kind>"
                w.split(':').next().unwrap_or("kind predicate").to_owned()
            };
            format!("the reference kind checker rejects it ({class})")
        }
        crate::kinds::Verdict::NotInScope | crate::kinds::Verdict::Duplicate => "name error per the reference".into(),
        crate::kinds::Verdict::Unsupported(_) => "accepted program".into(),
    }
}

pub fn judge(texts: &[(String, String)], prog: Option<&Program>) -> Outcome {
    let files: BTreeMap<String, String> = pipeline::files_of(texts);
    let main = texts[0].0.as_str();
    match pipeline::run(&files, main) {
        Run::Rejected(e) => Outcome::ok("rejected", Some(hash_of(&("rej", e.class())))),
        // Not in the scope of C01 (the property starts from "load+compile succeeds");
        // C04 runs the same space with "no panic anywhere" as its oracle.
        Run::LoadPanic(_) => Outcome::ok("compile-panic (outside C01, see C04)", None),
        Run::Doc(d, _) => Outcome::ok("document", Some(hash_of(&d))),
        Run::EvalError(e, _) => match e.span() {
            Some(s) => match pipeline::span_ok(&files, s) {
                Ok(()) => Outcome::ok(
                    "located evaluation error",
                    Some(hash_of(&("everr", pipeline::kind_name(&e.kind)))),
                ),
                Err(why) => Outcome::bad(
                    "bad-span",
                    format!(
                        "error span outside the sources | {} | accepted program",
                        pipeline::kind_name(&e.kind)
                    ),
                    format!("evaluation error `{e}`: {why}"),
                    texts_json(texts),
                ),
            },
            None => Outcome::bad(
                "unlocated-error",
                format!(
                    "unlocated evaluation error | {} | accepted program",
                    pipeline::kind_name(&e.kind)
                ),
                format!("accepted program, evaluation error `{e}` carries no span"),
                texts_json(texts),
            ),
        },
        Run::BackendPanic(p) => {
            let cause = cause_class(prog);
            let sig = if cause == "cross-module" {
                "panic | back end | accepted, but rejected (InvalidType) once the imported declarations are merged into the importing module".to_owned()
            } else {
                format!("panic | {} | {cause}", panic_head(&p))
            };
            Outcome::bad(
                "backend-panic",
                sig,
                format!(
                    "accepted by load+compile, then panic at {}: {}",
                    p.location,
                    p.message.chars().take(200).collect::<String>()
                ),
                texts_json(texts),
            )
        }
    }
}

fn visit_program(sink: &mut Sink, idx: u64, p: &Program) {
    if !sink.mine(idx) {
        return;
    }
    let printed = print(p);
    let texts = printed.texts;
    sink.visit(idx, || crate::props::c02::program_json(p, &texts), |_| judge(&texts, Some(p)));
}

impl Engine for C01 {
    fn id(&self) -> &'static str {
        "C01"
    }
    fn engine_name(&self) -> &'static str {
        "progspace"
    }
    fn phases(&self, tier: Tier) -> Vec<Phase> {
        let mut v = vec![
            Phase::new("kind-agnostic expressions of <=2 constructors x 28 contexts", json!({"kind":"agnostic","k":2})),
            Phase::new("kind-agnostic expressions of 3 constructors x 28 contexts", json!({"kind":"agnostic","k":3})),
            Phase::new("annotation matrix: 17 keys x 15 value shapes x 9 positions x 8 targets", json!({"kind":"annotations"})),
            Phase::new("two modules: function bodies <=2 x arguments <=2 x 12 use sites", json!({"kind":"two","kb":2,"ka":2})),
        ];
        for (i, n) in crate::frags::NAMES.iter().enumerate() {
            v.push(Phase::new(&format!("fragment {n}"), json!({"kind":"frag","frag":i,"thorough":false})));
        }
        if tier == Tier::Thorough {
            for i in crate::frags::HAS_NEXT_BOUND {
                v.push(Phase::new(&format!("fragment {} (next bound)", crate::frags::NAMES[i]), json!({"kind":"frag","frag":i,"thorough":true})));
            }
            v.push(Phase::new("two modules: function bodies of 3 x arguments <=2 x 12 use sites", json!({"kind":"two","kb":3,"ka":2})));
            v.push(Phase::new("kind-agnostic expressions of 4 constructors x 28 contexts", json!({"kind":"agnostic","k":4})));
        }
        v
    }
    fn run_phase(&self, phase: &Phase, sink: &mut Sink) {
        match phase.param["kind"].as_str().unwrap() {
            "agnostic" => {
                let k = phase.param["k"].as_u64().unwrap() as usize;
                let all = space::agnostic_exprs(k);
                // k = 2 covers sizes 1 and 2, larger k exactly that size.
                let sizes: Vec<usize> = if k == 2 { vec![1, 2] } else { vec![k] };
                let mut idx = 0u64;
                for s in sizes {
                    for e in all[s].iter() {
                        for c in 0..space::N_CONTEXTS {
                            if sink.mine(idx) {
                                if sink.expired() {
                                    return;
                                }
                                let p = space::context(c, e);
                                visit_program(sink, idx, &p);
                            }
                            idx += 1;
                        }
                    }
                }
            }
            "frag" => {
                let i = phase.param["frag"].as_u64().unwrap() as usize;
                let frag = crate::frags::fragment(i, phase.param["thorough"].as_bool().unwrap());
                for (idx, p) in frag.programs.iter().enumerate() {
                    if sink.mine(idx as u64) {
                        if sink.expired() {
                            return;
                        }
                        visit_program(sink, idx as u64, p);
                    }
                }
            }
            "annotations" => {
                for i in 0..space::ann_case_count() {
                    let idx = i as u64;
                    if sink.mine(idx) {
                        if sink.expired() {
                            return;
                        }
                        visit_program(sink, idx, &space::ann_case(i));
                    }
                }
            }
            "two" => {
                let kb = phase.param["kb"].as_u64().unwrap() as usize;
                let ka = phase.param["ka"].as_u64().unwrap() as usize;
                let all = space::agnostic_exprs(kb.max(ka));
                let bodies: Vec<&E> = if kb == 2 {
                    all[1].iter().chain(all[2].iter()).collect()
                } else {
                    all[kb].iter().collect()
                };
                let args: Vec<&E> = (1..=ka).flat_map(|s| all[s].iter()).collect();
                let mut idx = 0u64;
                for b in bodies.iter() {
                    for a in args.iter() {
                        for site in 0..space::N_SITES {
                            if sink.mine(idx) {
                                if sink.expired() {
                                    return;
                                }
                                visit_program(sink, idx, &space::two_module(b, a, site));
                            }
                            idx += 1;
                        }
                    }
                }
            }
            _ => unreachable!(),
        }
    }
    fn replay(&self, case: &Value) -> Outcome {
        let texts = texts_from_json(case);
        let prog = serde_json::from_value::<Program>(case["ast"].clone()).ok();
        judge(&texts, prog.as_ref())
    }
    fn rule(&self) -> String {
        "every expression tree with <= k constructors over 13 leaves, 19 unary and 7 binary constructors (all syntax forms) in each of 26 one-hole contexts (response range, domain, res, relation uri, transfer list, let/alias/@ref bodies, property value, array item, object member, operand of & | ~ ::, status/media/headers meta, URI variable, function body, function argument, body of a function / value defined in an imported module, rec body, transfer parameters); the two-module product bodies x arguments x 12 use sites; the full annotation matrix. The compiler decides what is accepted. Non-trivial = accepted or rejected with a compile error; distinct = distinct emitted documents / rejection classes".into()
    }
    fn assumptions(&self) -> Vec<String> {
        vec![
            "stack depth is judged on an 8 MiB thread; aborts, OOM (RLIMIT_AS) and hangs (10 s watchdog) of a worker are attributed to the case in flight".into(),
            "a panic during load/compile is outside this property (it is C04's)".into(),
        ]
    }
    fn crash_signature(&self, kind: &str, _case: &Value) -> String {
        format!("{kind} | back end or compiler | program of the explored space")
    }
}
