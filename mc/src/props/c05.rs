//! C05 — abstraction is free.
//!
//! Explicit-state search: a state is a program (set of module texts), a transition is one
//! meaning-preserving rewrite at one site; the invariant on every state is "accepted and
//! the emitted document equals the seed's up to the names of implicit components".

use crate::doc;
use crate::explore::*;
use crate::frags;
use crate::gen::*;
use crate::pipeline::{self, Run};
use crate::props::c01::texts_json;
use crate::props::c02;
use crate::rewrite;
use serde_json::{json, Value};
use std::collections::{HashSet, VecDeque};

pub struct C05;

/// Seeds: accepted programs of the fragments, every `step`-th one.
pub fn seeds(step: usize) -> Vec<Program> {
    let mut out = Vec::new();
    for f in 0..9 {
        let frag = frags::fragment(f, false);
        // F2 and F4 are large and uniform: thin them more.
        let s = match f {
            1 => step * 40,
            3 => step * 30,
            8 => step * 3,
            _ => step,
        };
        for (i, p) in frag.programs.into_iter().enumerate() {
            // programs that carry line and inline annotations at once are all kept: the
            // rewrites that separate the two kinds apply to them only
            let both = f == 8 && {
                let t = crate::gen::print(&p).texts;
                t.iter().any(|(_, t)| t.contains('`') && t.lines().any(|l| l.trim_start().starts_with('#')))
            };
            if i % s == 0 || both {
                out.push(p);
            }
        }
    }
    out
}

/// Seeds from the generated space of C01: kind-agnostic expressions of <= 2 constructors in
/// every context, every `step`-th one (the search skips those that are not accepted).
pub fn agnostic_seeds(step: usize) -> Vec<Program> {
    let all = crate::space::agnostic_exprs(2);
    let mut out = Vec::new();
    let mut i = 0usize;
    for sz in [1usize, 2] {
        for e in all[sz].iter() {
            for c in 0..crate::space::N_CONTEXTS {
                if i % step == 0 {
                    out.push(crate::space::context(c, e));
                }
                i += 1;
            }
        }
    }
    out
}

fn emitted(texts: &[(String, String)]) -> Result<doc::Doc, String> {
    let files = pipeline::files_of(texts);
    match pipeline::run(&files, "main.oal") {
        Run::Doc(y, _) => {
            let v: serde_yaml::Value = serde_yaml::from_str(&y).map_err(|e| e.to_string())?;
            Ok(doc::extract(&v))
        }
        Run::Rejected(e) => Err(format!("rejected: {} [{}]", e.class(), e.message())),
        Run::EvalError(e, _) => Err(format!("evaluation error: {e}")),
        Run::LoadPanic(p) | Run::BackendPanic(p) => Err(format!("panic: {}", p.message.chars().take(80).collect::<String>())),
    }
}

// ---------------------------------------------------------------------------
// Corpus texts (hand-written programs and examples/): trivia at every token boundary

const TRIVIA: [&str; 9] = [" ", "\n", "\r", "// c\r", "/* c */ ", "// c\n", "\t", "/* \u{e9}\u{1F609} */", "/* r/w: http://x/y */ "];

/// (name, files with main first, index of the corpus program) of every corpus program.
fn corpus_files(i: usize) -> Vec<(String, String)> {
    let p = &crate::tokspace::corpus()[i];
    let mut files = vec![("main.oal".to_owned(), p.text.clone())];
    if p.name == "examples/main.oal" {
        files.push(("module.oal".to_owned(), crate::tokspace::EXAMPLE_MODULE.to_owned()));
    }
    files
}

/// One case: corpus program `i`, boundary after token `k` (where the text already has
/// trivia): the nine trivia tokens inserted there, one at a time.
fn judge_corpus_boundary(i: usize, k: usize, sink: Option<&mut Sink>) -> Outcome {
    let p = &crate::tokspace::corpus()[i];
    let files = corpus_files(i);
    let seed = match emitted(&files) {
        Ok(d) => d,
        Err(_) => return Outcome::ok("seed not accepted (skipped)", None),
    };
    if p.toks[k].1.is_empty() {
        return Outcome::ok("tokens glued at this boundary (skipped)", None);
    }
    let mut states = 0u64;
    for t in TRIVIA {
        let mut toks = p.toks.clone();
        toks[k].1 = format!("{} {t}", toks[k].1);
        let mut all = files.clone();
        all[0].1 = crate::tokspace::render(&p.prefix, &toks);
        states += 1;
        heartbeat();
        let case = || json!({"corpus": p.name, "boundary": k, "trivia": t, "seed": texts_json(&files)["modules"], "modules": texts_json(&all)["modules"], "rewrites": ["insert trivia"]});
        match emitted(&all) {
            Err(why) => {
                let class: String = why.chars().take_while(|c| *c != '(' && *c != '\n').take(90).collect();
                return Outcome::bad("rewrite-rejected", format!("rewritten program not accepted | insert trivia (corpus text) | {class}"), format!("{} with {t:?} after token {k} ({:?}): {why}", p.name, p.toks[k].0), case());
            }
            Ok(d) => {
                if let Err(msg) = doc::compare(&d, &seed) {
                    return Outcome::bad("rewrite-changes-output", format!("rewrite changes the document | insert trivia (corpus text) | {}", c02::diff_class(&msg)), format!("{} with {t:?} after token {k} ({:?}): {msg}", p.name, p.toks[k].0), case());
                }
            }
        }
    }
    if let Some(s) = sink {
        s.count("states", states);
        s.count("transitions", states);
    }
    Outcome::ok("all reachable states equal the seed", Some(hash_of(&(i, k))))
}

struct Search<'a> {
    seed_doc: &'a doc::Doc,
    states: u64,
    transitions: u64,
    rules: std::collections::BTreeMap<&'static str, u64>,
}

fn check_state(
    s: &mut Search,
    texts: &[(String, String)],
    trail: &[&'static str],
    seed_texts: &[(String, String)],
) -> Option<Outcome> {
    s.states += 1;
    heartbeat();
    let case = || {
        json!({
            "seed": texts_json(seed_texts)["modules"],
            "rewrites": trail,
            "modules": texts_json(texts)["modules"],
        })
    };
    let last = trail.last().copied().unwrap_or("seed");
    match emitted(texts) {
        Err(why) => {
            let mut class: String = why.chars().take_while(|c| *c != '(' && *c != '\n').take(90).collect();
            if last.starts_with("move declarations") {
                // Is the extracted module rejected on its own, or only its importer?
                let alone: Vec<(String, String)> = texts.iter().filter(|(n, _)| n.starts_with("zx") || n.starts_with("zy")).cloned().collect();
                let own = alone.iter().any(|(n, _)| {
                    let files = pipeline::files_of(texts);
                    matches!(guard(|| pipeline::load(&files, n)), Ok(Err(_)))
                });
                class.push_str(if own { " | the extracted module is rejected on its own" } else { " | only the importer is rejected" });
            }
            Some(Outcome::bad(
                "rewrite-rejected",
                format!("rewritten program not accepted | {last} | {class}"),
                format!("after {trail:?}: {why}"),
                case(),
            ))
        }
        Ok(d) => match doc::compare(&d, s.seed_doc) {
            Ok(()) => None,
            Err(msg) => Some(Outcome::bad(
                "rewrite-changes-output",
                format!("rewrite changes the document | {last} | {}", c02::diff_class(&msg)),
                format!("after {trail:?}: {msg}"),
                case(),
            )),
        },
    }
}

/// A seed whose search passes this many distinct states is cut short (and says so): the
/// memory of a worker is bounded.
const MAX_STATES_PER_SEED: usize = 150_000;

pub fn judge_seed(seed: &Program, depth: usize, sink: Option<&mut Sink>) -> Outcome {
    let printed = print(seed);
    let seed_doc = match emitted(&printed.texts) {
        Ok(d) => d,
        Err(_) => return Outcome::ok("seed not accepted (skipped)", None),
    };
    // Seeds must have a defined meaning and a document that is equal to itself (no
    // orphan component): otherwise there is nothing to preserve.
    if crate::refsem::meaning(seed).is_err()
        || !crate::refsem::last_notes().is_empty()
        || doc::compare(&seed_doc, &seed_doc).is_err()
    {
        return Outcome::ok("seed outside the reference fragment (skipped)", None);
    }
    // The comparison treats the seed's own implicit components as the reference side.
    let mut s = Search {
        seed_doc: &seed_doc,
        states: 0,
        transitions: 0,
        rules: Default::default(),
    };
    let mut seen: HashSet<u64> = HashSet::new();
    seen.insert(hash_of(&printed.texts));
    let mut queue: VecDeque<(Program, Vec<&'static str>)> = VecDeque::new();
    queue.push_back((seed.clone(), vec![]));
    let mut bad: Option<Outcome> = None;
    let mut capped = false;
    'bfs: while let Some((prog, trail)) = queue.pop_front() {
        let texts = print(&prog).texts;
        // text-level trivia insertion: terminal transitions, from the seed
        heartbeat();
        if trail.len() < depth {
            let trivia = if trail.is_empty() { rewrite::trivia_variants(&texts) } else { vec![] };
            for (rule, t) in trivia {
                let _ = rule;
                s.transitions += 1;
                *s.rules.entry("insert trivia").or_default() += 1;
                if seen.insert(hash_of(&t)) {
                    let mut tr = trail.clone();
                    tr.push("insert trivia");
                    if let Some(o) = check_state(&mut s, &t, &tr, &printed.texts) {
                        bad = Some(o);
                        break 'bfs;
                    }
                }
            }
            for step in rewrite::all_steps(&prog) {
                s.transitions += 1;
                *s.rules.entry(step.rule).or_default() += 1;
                let t = print(&step.program).texts;
                if !seen.insert(hash_of(&t)) {
                    continue;
                }
                let mut tr = trail.clone();
                tr.push(step.rule);
                if let Some(o) = check_state(&mut s, &t, &tr, &printed.texts) {
                    bad = Some(o);
                    break 'bfs;
                }
                // states of the last level are judged, never expanded: they need not be kept
                if tr.len() < depth {
                    queue.push_back((step.program, tr));
                }
                if seen.len() > MAX_STATES_PER_SEED {
                    capped = true;
                    break 'bfs;
                }
            }
        }
    }
    if let Some(sink) = sink {
        sink.count("states", s.states);
        sink.count("transitions", s.transitions);
        for (k, v) in s.rules.iter() {
            sink.count(&format!("rule: {k}"), *v);
        }
    }
    match bad {
        Some(o) => o,
        None if capped => Outcome::ok("all states reached before the per-seed cap equal the seed (search capped)", Some(hash_of(&(print(seed).texts, s.states)))),
        None => Outcome::ok("all reachable states equal the seed", Some(hash_of(&(print(seed).texts, s.states)))),
    }
}

impl Engine for C05 {
    fn id(&self) -> &'static str {
        "C05"
    }
    fn engine_name(&self) -> &'static str {
        "rewrite-bfs"
    }
    fn phases(&self, tier: Tier) -> Vec<Phase> {
        match tier {
            Tier::Quick => vec![
                Phase::new("depth 1 from every fragment seed", json!({"step":1,"depth":1})),
                Phase::new("depth 2 from every 30th fragment seed", json!({"step":30,"depth":2})),
                Phase::new("depth 1 from every 2nd program of the kind-agnostic space (<= 2 constructors x 28 contexts)", json!({"step":2,"depth":1,"agnostic":true})),
                Phase::new("corpus texts (50 hand-written programs, examples/): nine trivia tokens at every token boundary", json!({"corpus":true})),
            ],
            Tier::Thorough => vec![
                Phase::new("depth 1 from every fragment seed", json!({"step":1,"depth":1})),
                Phase::new("depth 2 from every 8th fragment seed", json!({"step":8,"depth":2})),
                Phase::new("depth 3 from every 400th fragment seed", json!({"step":400,"depth":3})),
                Phase::new("depth 1 from every program of the kind-agnostic space (<= 2 constructors x 28 contexts)", json!({"step":1,"depth":1,"agnostic":true})),
                Phase::new("depth 2 from every 10th program of the kind-agnostic space", json!({"step":10,"depth":2,"agnostic":true})),
                Phase::new("corpus texts (50 hand-written programs, examples/): nine trivia tokens at every token boundary", json!({"corpus":true})),
            ],
        }
    }
    fn run_phase(&self, phase: &Phase, sink: &mut Sink) {
        if phase.param["corpus"].as_bool() == Some(true) {
            let mut idx = 0u64;
            for (i, p) in crate::tokspace::corpus().iter().enumerate() {
                for k in 0..p.toks.len() {
                    if sink.mine(idx) {
                        if sink.expired() {
                            return;
                        }
                        sink.visit(idx, || json!({"corpus_index": i, "corpus": p.name, "boundary": k}), |s| judge_corpus_boundary(i, k, Some(s)));
                    }
                    idx += 1;
                }
            }
            return;
        }
        let step = phase.param["step"].as_u64().unwrap() as usize;
        let depth = phase.param["depth"].as_u64().unwrap() as usize;
        let seeds = if phase.param["agnostic"].as_bool() == Some(true) { agnostic_seeds(step) } else { seeds(step) };
        for (i, p) in seeds.iter().enumerate() {
            let idx = i as u64;
            if !sink.mine(idx) {
                continue;
            }
            if sink.expired() {
                return;
            }
            sink.visit(
                idx,
                || json!({"seed_ast": p, "depth": depth, "seed": texts_json(&print(p).texts)["modules"]}),
                |s| judge_seed(p, depth, Some(s)),
            );
        }
    }
    fn replay(&self, case: &Value) -> Outcome {
        // A replay file carries the seed and the violating state as texts.
        let texts = |v: &Value| crate::props::c01::texts_from_json(&json!({"modules": v}));
        if case["modules"].is_array() {
            let seed = texts(&case["seed"]);
            let state = texts(&case["modules"]);
            let Ok(sd) = emitted(&seed) else {
                return Outcome::ok("seed not accepted", None);
            };
            return match emitted(&state) {
                Err(why) => Outcome::bad("rewrite-rejected", "rewritten program not accepted".into(), why, case.clone()),
                Ok(d) => match doc::compare(&d, &sd) {
                    Ok(()) => Outcome::ok("state equals the seed", None),
                    Err(m) => Outcome::bad("rewrite-changes-output", "rewrite changes the document".into(), m, case.clone()),
                },
            };
        }
        if let (Some(i), Some(k)) = (case["corpus_index"].as_u64(), case["boundary"].as_u64()) {
            return judge_corpus_boundary(i as usize, k as usize, None);
        }
        match serde_json::from_value::<Program>(case["seed_ast"].clone()) {
            Ok(p) => judge_seed(&p, case["depth"].as_u64().unwrap_or(1) as usize, None),
            Err(_) => Outcome::ok("replay needs the seed", None),
        }
    }
    fn rule(&self) -> String {
        "breadth-first search from accepted fragment programs and accepted programs of the kind-agnostic space (seeds); transitions = one rewrite at one site: parenthesise any sub-expression, name a closed sub-expression with a fresh let, inline a plain declaration at one use, abstract a closed S[T] into a single-use function applied to T (T at a position that starts from the empty annotation), alpha-rename one binder or import qualifier with all its uses, swap two adjacent statements, insert one trivia token (space, newline, tab, block / line comment, multi-byte comment) at one token boundary, move every dependency-closed set of declarations into a new module imported unqualified / qualified; states deduplicated by text; invariant on every state: accepted and document equal to the seed's modulo names of implicit components. Non-trivial = seed with >= 1 applicable rewrite; distinct = distinct (seed, reachable-state count)".into()
    }
    fn assumptions(&self) -> Vec<String> {
        vec![
            "inlining is restricted to unannotated, parameterless, non-@, non-recursive declarations and to sites where no local binder captures a free name of the body; function abstraction to argument positions that start from the empty annotation (the language's own annotation rules)".into(),
            "a seed that is not accepted is skipped".into(),
        ]
    }
    fn budget_s(&self, tier: Tier) -> u64 {
        match tier {
            Tier::Quick => 150,
            Tier::Thorough => 1500,
        }
    }
    fn case_budget_ms(&self) -> u64 {
        // per state (the search calls `heartbeat` before each run of the compiler)
        30_000
    }
    fn state_counters(&self, m: &Stats) -> Option<(u64, u64, u64)> {
        let s = *m.counters.get("states").unwrap_or(&0);
        let t = *m.counters.get("transitions").unwrap_or(&0);
        Some((s.max(1), t.max(1), s))
    }
}
