//! C09 — recursion is cut into named components, finitely and without aliasing.
//!
//! Every declaration graph on <= n declarations with every body form (plus `rec`
//! expressions in functions applied several times, nested `rec`, recursion in imported
//! modules) goes through the real compiler. Verdict must equal the reference cycle rule;
//! for accepted programs the emitted document must be closed, every recursion must pass
//! through a component that holds a schema, and its unfolding must be bisimilar to the
//! reference graph (so different instantiations can never share a component).

use crate::doc;
use crate::explore::*;
use crate::frags;
use crate::gen::*;
use crate::kinds::{self, Verdict};
use crate::pipeline::{self, Run};
use crate::props::c02;
use crate::refsem::{self, Stop};
use crate::validate;
use serde_json::{json, Value};

pub struct C09;

pub fn judge(p: &Program) -> Outcome {
    let printed = print(p);
    let texts = &printed.texts;
    let files = pipeline::files_of(texts);
    let case = || c02::program_json(p, texts);
    let reference = kinds::verdict(p);
    let run = pipeline::run(&files, "main.oal");
    let accepted = !matches!(run, Run::Rejected(_) | Run::LoadPanic(_));
    // 1. verdict == reference cycle / kind rule (single-module programs)
    match (&reference, &run) {
        (_, Run::LoadPanic(_)) => return Outcome::ok("compile-panic (C04)", None),
        (Verdict::Unsupported(_), _) => {}
        (Verdict::Accept, Run::Rejected(e)) => {
            return Outcome::bad(
                "rejected",
                format!("rejected with {} | the reference cycle and kind rules accept", e.class()),
                format!("{e:?}").chars().take(300).collect(),
                case(),
            )
        }
        (Verdict::InvalidType(why), r) if accepted => {
            let _ = r;
            let class = if why.starts_with("cycle") {
                "cycle without a schema to cut at"
            } else if why.starts_with("unification") {
                "unsolvable kind constraints"
            } else {
                "kind predicate"
            };
            return Outcome::bad(
                "accepted",
                format!("accepted | the reference rejects: {class}"),
                why.clone(),
                case(),
            );
        }
        (Verdict::NotInScope | Verdict::Duplicate, _) if accepted => {
            return Outcome::bad("accepted", "accepted | name error".into(), format!("{reference:?}"), case())
        }
        (Verdict::InvalidType(_), Run::Rejected(e)) => {
            if e.class() != "InvalidType" {
                return Outcome::bad(
                    "wrong-error",
                    format!("rejected with {} | expected InvalidType", e.class()),
                    format!("{e:?}").chars().take(300).collect(),
                    case(),
                );
            }
            return Outcome::ok("rejected as the cycle / kind rules demand", Some(hash_of(&("rej", format!("{reference:?}")))));
        }
        _ => {}
    }
    match run {
        Run::Rejected(e) => Outcome::ok("rejected", Some(hash_of(&("rej", e.class())))),
        Run::LoadPanic(_) => Outcome::ok("compile-panic (C04)", None),
        Run::BackendPanic(pi) => match refsem::meaning(p) {
            // The reference defines a document with cut recursion: an accepted program that
            // produces no document at all breaks C09 as well as C01.
            Ok((_, points)) => Outcome::bad(
                "no-document",
                format!("no document | panic {} | the reference defines a document{}", panic_site(&pi), if points > 0 { " with cut recursion" } else { "" }),
                format!("accepted, then panic at {}: {}", pi.location, pi.message.chars().take(200).collect::<String>()),
                case(),
            ),
            _ => Outcome::ok("backend-panic (C01)", None),
        },
        Run::EvalError(e, _) => match refsem::meaning(p) {
            // accepted by every static phase, and the reference defines a document
            Ok(_) => Outcome::bad(
                "no-document",
                format!("no document | evaluation error {} | the reference defines a document", pipeline::kind_name(&e.kind)),
                format!("accepted by load and compile, then: {e}"),
                case(),
            ),
            _ => Outcome::ok("evaluation error", None),
        },
        Run::Doc(yaml, _) => {
            let y: serde_yaml::Value = match serde_yaml::from_str(&yaml) {
                Ok(y) => y,
                Err(e) => return Outcome::bad("unparsable", "emitted YAML does not parse".into(), e.to_string(), case()),
            };
            // 2. the $ref graph is closed
            if let Some(pr) = validate::validate(&y, &[]).into_iter().find(|p| p.class.starts_with("$ref")) {
                return Outcome::bad("dangling", format!("invalid document | {}", pr.class), pr.detail, case());
            }
            let idoc = doc::extract(&y);
            // 3. every recursion passes through a component holding a schema
            for (name, s) in idoc.components.iter() {
                let mut cur = s;
                let mut hops = 0;
                while let doc::S::Ref(n) = cur {
                    match idoc.components.get(n) {
                        Some(next) => cur = next,
                        None => break,
                    }
                    hops += 1;
                    if hops > idoc.components.len() {
                        let by_reference = matches!(refsem::meaning(p), Err(Stop::Stuck(w)) if w == "unguarded recursion");
                        return Outcome::bad(
                            "unguarded",
                            if by_reference {
                                "accepted | recursion without a schema to cut at: a component is a bare $ref chain back to itself".into()
                            } else {
                                "accepted | a component is a bare $ref chain back to itself although the recursion of the program is guarded".into()
                            },
                            format!("component {name}"),
                            case(),
                        );
                    }
                }
            }
            // 4. unfolding bisimilar to the reference graph, nothing left over
            match refsem::meaning(p) {
                Ok((rdoc, points)) => match doc::compare(&idoc, &rdoc) {
                    Ok(()) => {
                        let dup = doc::implicit_count(&idoc) as i64 - doc::implicit_count(&rdoc) as i64;
                        let _ = dup;
                        Outcome::ok(
                            if points > 0 { "recursive: document bisimilar to reference" } else { "non-recursive: document equals reference" },
                            Some(hash_of(&yaml)),
                        )
                    }
                    Err(msg) => {
                        let notes = refsem::last_notes();
                        if notes.iter().any(|n| n.contains("path") || n.contains("@name")) {
                            // Collisions of paths / @names are C02's business, not recursion.
                            return Outcome::ok("program with a path or @name collision (see C02)", None);
                        }
                        let sig = if notes.is_empty() {
                            format!("document differs | {}", c02::diff_class(&msg))
                        } else {
                            format!("document differs | {} | program has {}", c02::diff_class(&msg), notes.join(" and "))
                        };
                        Outcome::bad("differs", sig, msg, case())
                    }
                },
                Err(Stop::Unspecified(_)) => Outcome::ok("unspecified by the language: crash check only", None),
                Err(Stop::Stuck(w)) => Outcome::ok(
                    if w == "unguarded recursion" { "reference: unguarded recursion" } else { "reference has no meaning: no verdict" },
                    None,
                ),
                Err(Stop::Error(_)) => Outcome::ok("reference: evaluation error", None),
            }
        }
    }
}

impl Engine for C09 {
    fn id(&self) -> &'static str {
        "C09"
    }
    fn engine_name(&self) -> &'static str {
        "progspace"
    }
    fn phases(&self, tier: Tier) -> Vec<Phase> {
        let mut v = vec![
            Phase::new("F6 recursion: 2 declarations x 30 body forms, rec expressions, imported recursion", json!({"frag":5,"thorough":false})),
            Phase::new("F7 @references (recursive and shared references)", json!({"frag":6,"thorough":false})),
            Phase::new("F5 declarations, functions, scoping", json!({"frag":4,"thorough":false})),
        ];
        v.push(Phase::new("F11 recursion terms of <= 4 constructors (nested rec, rec through applications)", json!({"frag":10,"thorough":false})));
        if tier == Tier::Thorough {
            v.push(Phase::new("F11 recursion terms of <= 5 constructors", json!({"frag":10,"thorough":true})));
        }
        v.push(Phase::new("F6 recursion: 3 declarations x 44 body forms", json!({"frag":5,"thorough":true})));
        v
    }
    fn run_phase(&self, phase: &Phase, sink: &mut Sink) {
        let i = phase.param["frag"].as_u64().unwrap() as usize;
        let thorough = phase.param["thorough"].as_bool().unwrap();
        let frag = frags::fragment(i, thorough);
        for (idx, p) in frag.programs.iter().enumerate() {
            let idx = idx as u64;
            if !sink.mine(idx) {
                continue;
            }
            if sink.expired() {
                return;
            }
            sink.visit(idx, || c02::program_json(p, &print(p).texts), |_| judge(p));
        }
    }
    fn replay(&self, case: &Value) -> Outcome {
        match serde_json::from_value::<Program>(case["ast"].clone()) {
            Ok(p) => judge(&p),
            Err(_) => Outcome::ok("replay needs the ast", None),
        }
    }
    fn rule(&self) -> String {
        "every assignment of body forms {object of H, array of H, alias H, H ~ str, w H, <H>, object of H1 and array of H2} with holes over the declarations and `str` to n = 2 (thorough 3) declarations, plus rec expressions (nested, shadowing, in functions applied once / twice with equal / different arguments, closed rec used from different function scopes) and recursion defined in an imported module, plus the @reference and scoping fragments. Oracle: accept/reject == reference kind + cycle rule; for accepted programs the $ref graph is closed, no component is a bare $ref chain back to itself, and the document is bisimilar to the reference graph with no implicit component left over. Non-trivial = cyclic declaration graph or rec; distinct = distinct documents / rejection reasons".into()
    }
    fn assumptions(&self) -> Vec<String> {
        vec!["the reference kind checker models single-module programs; for multi-module programs only the document checks apply".into()]
    }
}
