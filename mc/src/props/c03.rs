//! C03 — every emitted document is a closed, structurally valid OpenAPI 3 description.
//!
//! The accepted programs of the C01 and C02 spaces (plus base documents) are compiled by
//! the real pipeline; the YAML text goes through an independent validator and a typed
//! round trip.

use crate::explore::*;
use crate::frags;
use crate::gen::*;
use crate::pipeline;
use crate::props::c01::{texts_from_json, texts_json};
use crate::space;
use crate::validate;
use serde_json::{json, Value};

pub struct C03;

/// Base documents whose own references do not point into `components.schemas` (the
/// property lets the program replace those wholesale).
pub fn bases() -> Vec<(&'static str, &'static str)> {
    vec![
        ("none", ""),
        ("minimal", "openapi: 3.0.3\ninfo:\n  title: T\n  version: '1'\npaths: {}\n"),
        (
            "security and components",
            "openapi: 3.0.3\ninfo:\n  title: T\n  description: D\n  version: 1.0.0\n  license:\n    name: L\nservers:\n- url: /v1\n- url: https://{host}/\n  variables:\n    host:\n      default: example.org\nsecurity:\n- default: []\ntags:\n- name: t\npaths:\n  /old/{id}:\n    get:\n      operationId: old\n      parameters:\n      - $ref: '#/components/parameters/P'\n      responses:\n        '200':\n          description: ok\n          content:\n            application/json:\n              schema:\n                $ref: '#/components/schemas/Old'\ncomponents:\n  schemas:\n    Old:\n      type: string\n    hash-x:\n      type: number\n  parameters:\n    P:\n      in: path\n      name: id\n      required: true\n      schema:\n        type: string\n  securitySchemes:\n    default:\n      type: http\n      scheme: bearer\n  responses:\n    R:\n      description: r\n      headers:\n        H:\n          $ref: '#/components/headers/H'\n  headers:\n    H:\n      schema:\n        type: integer\nx-ext: {a: 1}\n",
        ),
    ]
}

pub fn judge(texts: &[(String, String)], base: &str) -> Outcome {
    let files = pipeline::files_of(texts);
    let case = || {
        let mut v = texts_json(texts);
        v["base"] = json!(base);
        v
    };
    let mods = match guard(|| pipeline::load(&files, "main.oal")) {
        Err(_) => return Outcome::ok("compile-panic (C04)", None),
        Ok(Err(_)) => return Outcome::ok("rejected", None),
        Ok(Ok(m)) => m,
    };
    let base_doc: Option<openapiv3::OpenAPI> = if base.is_empty() {
        None
    } else {
        Some(serde_yaml::from_str(base).expect("base documents of the harness are valid"))
    };
    let (api, yaml) = match guard(|| pipeline::emit_full(&mods, base_doc)) {
        Err(_) => return Outcome::ok("backend-panic (C01)", None),
        Ok(Err(_)) => return Outcome::ok("evaluation error", Some(hash_of("everr"))),
        Ok(Ok(x)) => x,
    };
    let mut probs = Vec::new();
    match serde_yaml::from_str::<serde_yaml::Value>(&yaml) {
        Ok(y) => probs.extend(validate::validate(&y, &validate::explicit_operation_ids(texts)).into_iter().filter(|p| {
            // a property name the program itself writes twice is the program's business
            if p.class != "parameter listed twice" {
                return true;
            }
            let name = p.detail.rsplit(' ').next().unwrap_or("");
            let needle = format!("'{name}");
            let written: usize = texts
                .iter()
                .map(|(_, t)| {
                    t.match_indices(&needle)
                        .filter(|(i, _)| !t[i + needle.len()..].starts_with(|c: char| c.is_ascii_alphanumeric() || matches!(c, '$' | '@' | '_' | '-')))
                        .count()
                })
                .sum();
            written < 2
        })),
        Err(e) => probs.push(validate::Problem {
            class: "emitted text is not YAML".into(),
            detail: e.to_string(),
        }),
    }
    match serde_yaml::from_str::<openapiv3::OpenAPI>(&yaml) {
        Ok(back) => {
            if back != api {
                probs.push(validate::Problem {
                    class: "YAML parses back to a different document".into(),
                    detail: first_diff(&serde_yaml::to_string(&back).unwrap_or_default(), &yaml),
                });
            } else {
                match serde_yaml::to_string(&back) {
                    Ok(again) if again == yaml => {}
                    Ok(again) => probs.push(validate::Problem {
                        class: "re-serialisation is not byte-identical".into(),
                        detail: first_diff(&again, &yaml),
                    }),
                    Err(e) => probs.push(validate::Problem {
                        class: "document does not re-serialise".into(),
                        detail: e.to_string(),
                    }),
                }
            }
        }
        Err(e) => probs.push(validate::Problem {
            class: "YAML does not parse back as an OpenAPI document".into(),
            detail: e.to_string(),
        }),
    }
    match probs.first() {
        None => Outcome::ok("valid document", Some(hash_of(&yaml))),
        Some(p) => Outcome::bad(
            "invalid",
            format!("invalid document | {}", p.class),
            format!(
                "{}{}",
                p.detail,
                if probs.len() > 1 {
                    format!(" (+{} more: {:?})", probs.len() - 1, probs.iter().skip(1).map(|p| &p.class).collect::<Vec<_>>())
                } else {
                    String::new()
                }
            ),
            case(),
        ),
    }
}

fn first_diff(a: &str, b: &str) -> String {
    for (i, (x, y)) in a.lines().zip(b.lines()).enumerate() {
        if x != y {
            return format!("line {}: {x:?} vs {y:?}", i + 1);
        }
    }
    format!("lengths {} vs {}", a.len(), b.len())
}

fn visit(sink: &mut Sink, idx: u64, p: &Program, base: &'static str) {
    if !sink.mine(idx) {
        return;
    }
    let texts = print(p).texts;
    sink.visit(
        idx,
        || {
            let mut v = texts_json(&texts);
            v["base"] = json!(base);
            v
        },
        |_| judge(&texts, base),
    );
}

impl Engine for C03 {
    fn id(&self) -> &'static str {
        "C03"
    }
    fn engine_name(&self) -> &'static str {
        "progspace"
    }
    fn phases(&self, tier: Tier) -> Vec<Phase> {
        let mut v: Vec<Phase> = frags::NAMES
            .iter()
            .enumerate()
            .map(|(i, n)| Phase::new(n, json!({"kind":"frag","frag": i, "thorough": false})))
            .collect();
        v.push(Phase::new("fragments F3 F4 F6 F7 F10 x 2 base documents", json!({"kind":"bases"})));
        v.push(Phase::new("kind-agnostic expressions of <=2 constructors x 28 contexts", json!({"kind":"agnostic","k":2})));
        v.push(Phase::new("annotation matrix", json!({"kind":"annotations"})));
        v.push(Phase::new("kind-agnostic expressions of 3 constructors x 28 contexts", json!({"kind":"agnostic","k":3})));
        if tier == Tier::Thorough {
            for i in frags::HAS_NEXT_BOUND {
                v.push(Phase::new(
                    &format!("{} (next bound)", frags::NAMES[i]),
                    json!({"kind":"frag","frag": i, "thorough": true}),
                ));
            }
            v.push(Phase::new("kind-agnostic expressions of 4 constructors x 28 contexts", json!({"kind":"agnostic","k":4})));
        }
        v
    }
    fn run_phase(&self, phase: &Phase, sink: &mut Sink) {
        match phase.param["kind"].as_str().unwrap() {
            "frag" => {
                let i = phase.param["frag"].as_u64().unwrap() as usize;
                let thorough = phase.param["thorough"].as_bool().unwrap();
                let frag = frags::fragment(i, thorough);
                for (idx, p) in frag.programs.iter().enumerate() {
                    if sink.expired() {
                        return;
                    }
                    visit(sink, idx as u64, p, "");
                }
            }
            "bases" => {
                let mut idx = 0u64;
                for f in [2usize, 3, 5, 6, 9] {
                    let frag = frags::fragment(f, false);
                    for p in frag.programs.iter() {
                        for (_, b) in bases().into_iter().skip(1) {
                            if sink.expired() {
                                return;
                            }
                            visit(sink, idx, p, b);
                            idx += 1;
                        }
                    }
                }
            }
            "agnostic" => {
                let k = phase.param["k"].as_u64().unwrap() as usize;
                let all = space::agnostic_exprs(k);
                let sizes: Vec<usize> = if k == 2 { vec![1, 2] } else { vec![k] };
                let mut idx = 0u64;
                for s in sizes {
                    for e in all[s].iter() {
                        for c in 0..space::N_CONTEXTS {
                            if sink.mine(idx) {
                                if sink.expired() {
                                    return;
                                }
                                visit(sink, idx, &space::context(c, e), "");
                            }
                            idx += 1;
                        }
                    }
                }
            }
            "annotations" => {
                for i in 0..space::ann_case_count() {
                    if sink.mine(i as u64) {
                        if sink.expired() {
                            return;
                        }
                        visit(sink, i as u64, &space::ann_case(i), "");
                    }
                }
            }
            _ => unreachable!(),
        }
    }
    fn replay(&self, case: &Value) -> Outcome {
        let texts = texts_from_json(case);
        judge(&texts, case["base"].as_str().unwrap_or(""))
    }
    fn rule(&self) -> String {
        "accepted programs of the kind-directed fragments F1-F10, of the kind-agnostic space (<= k constructors x 28 contexts) and of the annotation matrix, plus fragments x base documents; oracle: independent validator on the YAML value (every $ref resolves; path template variables == required path parameters per operation; response keys are default / 100-599 / 1XX-5XX; operationIds unique unless written by the program; no (in, name) pair twice in one parameter list unless the program writes the name twice; every parameter has a name, a place and a schema; every operation has responses; every path starts with /; array schemas have items and `required` lists distinct properties of its object) and typed round trip (parses back to an equal document and re-serialises byte-identically). Non-trivial = a document was emitted; distinct = distinct YAML texts".into()
    }
    fn assumptions(&self) -> Vec<String> {
        vec![
            "paths with a repeated variable name are skipped for the parameter check, as the property says".into(),
            "operationIds that the program writes itself are excluded from the uniqueness check".into(),
            "base documents only carry references that do not point into components.schemas".into(),
        ]
    }
    fn crash_signature(&self, kind: &str, _case: &Value) -> String {
        format!("{kind} | pipeline | accepted program")
    }
}
