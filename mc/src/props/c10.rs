//! C10 — modules load once, compile after their imports, and import cycles are errors.
//!
//! State space: every directed graph on N nodes (node 0 = `main.oal`, node k = `mk.oal`,
//! self loops included) read as an import relation, times the textual variations of the
//! `use` statements that leave the relation unchanged (order, relative spelling of the
//! path, a duplicated `use`), times an optional `use` of a file that does not exist.
//!
//! Subject: the real `oal_compiler::module::load` driven by a recording in-memory
//! `Loader` (`parse` = real `oal_syntax::parse`, `compile` = real
//! `oal_compiler::compile::compile`), followed by the real `eval` + OpenAPI builder +
//! YAML serialisation when loading succeeds.
//!
//! Oracle: plain graph algorithms written here (reachability, cycle detection by DFS
//! colouring, tree unfolding of the expected schema). No petgraph.

use crate::explore::*;
use oal_compiler::errors::{Error as CompilerError, Kind};
use oal_compiler::module::{load, Loader, ModuleSet};
use oal_compiler::tree::Tree;
use oal_model::locator::Locator;
use serde_json::{json, Value};
use std::collections::BTreeMap;
use std::fmt::Write as _;

pub struct C10;

const SPELL: [&str; 3] = ["", "./", "d/../"];
const SPELL_NAME: [&str; 3] = ["m.oal", "./m.oal", "d/../m.oal"];
const MISSING_FILE: &str = "zz.oal";
const ROOT: &str = "file:///";
const SITE: &str = "oal-compiler/src/module.rs load";

thread_local! {
    /// Directory layout of the modules (set per phase / replay): see `LAYOUTS`.
    static LAYOUT: std::cell::Cell<usize> = const { std::cell::Cell::new(0) };
}

/// File of node k (k >= 1; node 0 is always `main.oal`) in every layout. Layout 0 is the
/// flat directory; 1 puts the imported modules side by side in a sub-directory; 2 and 3
/// give the same file name to modules of different directories, so that the same relative
/// spelling denotes different files depending on the importing module.
const LAYOUTS: [[&str; 4]; 5] = [
    ["m1.oal", "m2.oal", "m3.oal", "m4.oal"],
    ["a/m1.oal", "a/m2.oal", "a/m3.oal", "a/m4.oal"],
    ["a/m.oal", "m.oal", "a/b/m.oal", "b/m.oal"],
    ["a/m1.oal", "m2.oal", "a/m2.oal", "m1.oal"],
    ["M1.oal", "m1.oal", "a/M1.oal", "a/m1.oal"],
];
const LAYOUT_NAMES: [&str; 5] = [
    "one directory",
    "imported modules in a sub-directory",
    "the same file name in several directories",
    "two pairs of equally named files in two directories",
    "file names that differ only by the case of a letter",
];

fn set_layout(l: usize) {
    LAYOUT.with(|c| c.set(l.min(LAYOUTS.len() - 1)));
}

fn layout() -> usize {
    LAYOUT.with(|c| c.get())
}

fn file_of(k: usize) -> String {
    if k == 0 {
        "main.oal".to_owned()
    } else {
        LAYOUTS[layout()][k - 1].to_owned()
    }
}

fn dir_of(k: usize) -> Vec<String> {
    let f = file_of(k);
    let mut segs: Vec<String> = f.split('/').map(|s| s.to_owned()).collect();
    segs.pop();
    segs
}

/// The path of `target` as written in a `use` of module `from`: relative to the directory
/// of `from`.
fn rel_path(from: usize, target: usize) -> String {
    let fd = dir_of(from);
    let tf = file_of(target);
    let ts: Vec<&str> = tf.split('/').collect();
    let mut common = 0;
    while common < fd.len() && common + 1 < ts.len() && fd[common] == ts[common] {
        common += 1;
    }
    let mut out = String::new();
    for _ in common..fd.len() {
        out.push_str("../");
    }
    out.push_str(&ts[common..].join("/"));
    out
}

fn url_of(k: usize) -> String {
    format!("{ROOT}{}", file_of(k))
}

/// Locator of the file that does not exist, imported by module `k` as `zz.oal`.
fn missing_url(k: usize) -> String {
    let mut d = dir_of(k).join("/");
    if !d.is_empty() {
        d.push('/');
    }
    format!("{ROOT}{d}{MISSING_FILE}")
}

// ---------------------------------------------------------------------------
// Reference model: plain graph algorithms

/// Import relation: `adj[a]` = sorted list of the modules that `a` imports.
#[derive(Clone, Debug, PartialEq, Eq)]
pub struct Graph {
    pub n: usize,
    pub adj: Vec<Vec<usize>>,
}

impl Graph {
    /// Bit `a * n + b` of `bits` set <=> module `a` imports module `b`.
    pub fn from_bits(n: usize, bits: u32) -> Graph {
        let adj = (0..n)
            .map(|a| (0..n).filter(|b| bits >> (a * n + b) & 1 == 1).collect())
            .collect();
        Graph { n, adj }
    }
    pub fn edges(&self) -> Vec<(usize, usize)> {
        let mut v = vec![];
        for (a, l) in self.adj.iter().enumerate() {
            for b in l {
                v.push((a, *b));
            }
        }
        v
    }
}

#[derive(Clone, Debug)]
pub struct Model {
    /// Modules reachable from main through imports (main included).
    pub reach: Vec<bool>,
    /// The sub-graph induced by the reachable modules has a cycle (self loops included).
    pub cyclic: bool,
}

/// Depth-first search from main with the three-colour scheme: an edge into a grey node
/// closes a cycle.
pub fn model(g: &Graph) -> Model {
    #[derive(Clone, Copy, PartialEq)]
    enum Colour {
        White,
        Grey,
        Black,
    }
    fn dfs(g: &Graph, a: usize, colour: &mut [Colour], cyclic: &mut bool) {
        colour[a] = Colour::Grey;
        for &b in &g.adj[a] {
            match colour[b] {
                Colour::White => dfs(g, b, colour, cyclic),
                Colour::Grey => *cyclic = true,
                Colour::Black => {}
            }
        }
        colour[a] = Colour::Black;
    }
    let mut colour = vec![Colour::White; g.n];
    let mut cyclic = false;
    dfs(g, 0, &mut colour, &mut cyclic);
    Model {
        reach: colour.iter().map(|c| *c != Colour::White).collect(),
        cyclic,
    }
}

/// What the property allows as the result of loading.
#[derive(Clone, Copy, PartialEq, Eq, Debug)]
pub enum Expect {
    Ok,
    Cycle,
    Missing,
    /// A reachable missing import *and* a reachable cycle: the statement requires both
    /// reports and the loader can only return one; either class is accepted.
    MissingOrCycle,
}

impl Expect {
    fn name(&self) -> &'static str {
        match self {
            Expect::Ok => "Ok",
            Expect::Cycle => "CycleDetected",
            Expect::Missing => "InvalidModule",
            Expect::MissingOrCycle => "InvalidModule or CycleDetected",
        }
    }
    fn graph_class(&self) -> &'static str {
        match self {
            Expect::Ok => "acyclic import graph",
            Expect::Cycle => "cyclic import graph",
            Expect::Missing => "acyclic import graph with a missing import",
            Expect::MissingOrCycle => "cyclic import graph with a missing import",
        }
    }
}

pub fn expectation(m: &Model, missing: Option<usize>) -> Expect {
    let missing_reachable = missing.map_or(false, |k| m.reach[k]);
    match (missing_reachable, m.cyclic) {
        (true, true) => Expect::MissingOrCycle,
        (true, false) => Expect::Missing,
        (false, true) => Expect::Cycle,
        (false, false) => Expect::Ok,
    }
}

/// The schema that the response of `GET /` must have: module k contributes the object
/// `{ pk: string, mj: <object of module j> for every j imported by k }` (tree unfolding
/// of the acyclic reachable graph).
fn expected_schema(g: &Graph, k: usize) -> serde_yaml::Value {
    use serde_yaml::{Mapping, Value as Y};
    let mut props = Mapping::new();
    let mut string = Mapping::new();
    string.insert(Y::from("type"), Y::from("string"));
    props.insert(Y::from(format!("p{k}")), Y::Mapping(string));
    for &j in &g.adj[k] {
        props.insert(Y::from(format!("m{j}")), expected_schema(g, j));
    }
    let mut obj = Mapping::new();
    obj.insert(Y::from("type"), Y::from("object"));
    obj.insert(Y::from("properties"), Y::Mapping(props));
    Y::Mapping(obj)
}

// ---------------------------------------------------------------------------
// Configurations: a graph plus the textual variations of its `use` statements

#[derive(Clone, Copy, PartialEq, Eq, Debug)]
enum Stmt {
    /// `alias`: the duplicate copy of a `use`, written under a second qualifier (`as n<k>`)
    /// through which the declaration of the module then reaches the import.
    Use { target: usize, spell: usize, alias: bool },
    Missing,
}

/// All orders in which a list of `l` statements is written.
struct OrderTable {
    by_len: Vec<Vec<Vec<usize>>>,
}

fn permutations(l: usize) -> Vec<Vec<usize>> {
    fn go(l: usize, cur: &mut Vec<usize>, used: &mut Vec<bool>, out: &mut Vec<Vec<usize>>) {
        if cur.len() == l {
            out.push(cur.clone());
            return;
        }
        for i in 0..l {
            if !used[i] {
                used[i] = true;
                cur.push(i);
                go(l, cur, used, out);
                cur.pop();
                used[i] = false;
            }
        }
    }
    let mut out = vec![];
    go(l, &mut vec![], &mut vec![false; l], &mut out);
    out
}

impl OrderTable {
    /// Every permutation for lists of at most `perm_max` statements (the identity comes
    /// first); longer lists: the rotations of the sorted list and of its reverse when
    /// `rotations`, else just the sorted list and its reverse.
    fn new(perm_max: usize, rotations: bool) -> OrderTable {
        let by_len = (0..=8usize)
            .map(|l| {
                if l <= 1 {
                    vec![(0..l).collect()]
                } else if l <= perm_max {
                    permutations(l)
                } else if rotations {
                    let fwd: Vec<usize> = (0..l).collect();
                    let rev: Vec<usize> = (0..l).rev().collect();
                    let mut v = vec![];
                    for base in [fwd, rev] {
                        for r in 0..l {
                            let mut o = base.clone();
                            o.rotate_left(r);
                            v.push(o);
                        }
                    }
                    v
                } else {
                    vec![(0..l).collect(), (0..l).rev().collect()]
                }
            })
            .collect();
        OrderTable { by_len }
    }
    fn count(&self, l: usize) -> u64 {
        self.by_len[l].len() as u64
    }
}

/// One graph with everything needed to address its configurations by index.
struct GraphSpace {
    g: Graph,
    m: Model,
    /// Edges whose source is reachable from main, in (source, target) order. Only their
    /// statements are ever read by a correct loader, so only they are varied.
    redges: Vec<(usize, usize)>,
}

/// One configuration of a graph.
#[derive(Clone, Copy, Debug)]
struct Variant {
    /// 0 = none, k + 1 = module k also imports the file that does not exist.
    missing: usize,
    /// 0 = none, 2e + 1 = reachable edge e written twice with the same spelling,
    /// 2e + 2 = written twice, the copy with the next spelling.
    dup: usize,
    /// 0 = all plain, 2e + 1 / 2e + 2 = reachable edge e with the 2nd / 3rd spelling,
    /// 2E + 1 / 2E + 2 = every edge with the 2nd / 3rd spelling.
    spelling: usize,
    /// Mixed-radix number: one digit per module (index into the order table).
    order: u64,
}

impl GraphSpace {
    fn new(g: Graph) -> GraphSpace {
        let m = model(&g);
        let redges = g.edges().into_iter().filter(|(a, _)| m.reach[*a]).collect();
        GraphSpace { g, m, redges }
    }
    fn n_missing(&self) -> usize {
        self.g.n + 1
    }
    fn n_dup(&self) -> usize {
        1 + 2 * self.redges.len()
    }
    fn n_spelling(&self) -> usize {
        if self.redges.is_empty() {
            1
        } else {
            5 + 2 * self.redges.len()
        }
    }
    /// Where every module writes its declaration: 0 = after its `use` statements, 1 = before
    /// all of them, 2 = after the first one (the last two spelling choices; plain paths).
    fn decl_pos(&self, spelling: usize) -> usize {
        let e = self.redges.len();
        if e > 0 && spelling > 2 * e + 2 {
            spelling - 2 * e - 2
        } else {
            0
        }
    }
    fn missing_node(v: &Variant) -> Option<usize> {
        v.missing.checked_sub(1)
    }
    fn spell_of(&self, spelling: usize, a: usize, b: usize) -> usize {
        let e = self.redges.len();
        if spelling == 0 {
            0
        } else if spelling <= 2 * e {
            if self.redges[(spelling - 1) / 2] == (a, b) {
                (spelling - 1) % 2 + 1
            } else {
                0
            }
        } else if spelling <= 2 * e + 2 {
            spelling - 2 * e
        } else {
            0
        }
    }
    /// Number of `use` statements of module `a` (independent of spelling and order).
    fn stmt_count(&self, a: usize, v: &Variant) -> usize {
        let mut l = self.g.adj[a].len();
        if v.dup > 0 && self.redges[(v.dup - 1) / 2].0 == a {
            l += 1;
        }
        if v.missing == a + 1 {
            l += 1;
        }
        l
    }
    /// Number of order combinations for the given missing / duplicate choice.
    fn order_count(&self, v: &Variant, ot: &OrderTable) -> u64 {
        (0..self.g.n)
            .filter(|a| self.m.reach[*a])
            .map(|a| ot.count(self.stmt_count(a, v)))
            .product()
    }
    /// The `use` statements of every module in textual order.
    fn stmts(&self, v: &Variant, ot: &OrderTable) -> Vec<Vec<Stmt>> {
        let mut order = v.order;
        (0..self.g.n)
            .map(|a| {
                let mut sorted = vec![];
                for &b in &self.g.adj[a] {
                    let spell = self.spell_of(v.spelling, a, b);
                    sorted.push(Stmt::Use { target: b, spell, alias: false });
                    if v.dup > 0 && self.redges[(v.dup - 1) / 2] == (a, b) {
                        let spell = if (v.dup - 1) % 2 == 0 { spell } else { (spell + 1) % 3 };
                        sorted.push(Stmt::Use { target: b, spell, alias: true });
                    }
                }
                if v.missing == a + 1 {
                    sorted.push(Stmt::Missing);
                }
                if !self.m.reach[a] {
                    return sorted;
                }
                let orders = &ot.by_len[sorted.len()];
                let digit = (order % orders.len() as u64) as usize;
                order /= orders.len() as u64;
                orders[digit].iter().map(|i| sorted[*i]).collect()
            })
            .collect()
    }
    fn case(&self, v: &Variant, ot: &OrderTable) -> Case {
        let stmts = self.stmts(v, ot);
        Case {
            g: self.g.clone(),
            missing: Self::missing_node(v),
            files: texts(&self.g, &stmts, self.decl_pos(v.spelling)),
        }
    }
    fn canonical(&self, missing: usize) -> Variant {
        Variant {
            missing,
            dup: 0,
            spelling: 0,
            order: 0,
        }
    }
    fn describe_variant(&self, v: &Variant) -> Value {
        let e = self.redges.len();
        let edge = |i: usize| {
            let (a, b) = self.redges[i];
            format!("{} -> {}", file_of(a), file_of(b))
        };
        json!({
            "missing_in": Self::missing_node(v).map(file_of),
            "duplicate": if v.dup == 0 { Value::Null } else {
                json!({"edge": edge((v.dup - 1) / 2), "copy": if (v.dup - 1) % 2 == 0 { "same spelling" } else { "next spelling" }})
            },
            "spelling": if v.spelling == 0 { json!("all m.oal") } else if v.spelling <= 2 * e {
                json!({"edge": edge((v.spelling - 1) / 2), "as": SPELL_NAME[(v.spelling - 1) % 2 + 1]})
            } else if v.spelling <= 2 * e + 2 { json!(format!("all {}", SPELL_NAME[v.spelling - 2 * e])) }
            else { json!(format!("all m.oal, the declaration of every module {}", if self.decl_pos(v.spelling) == 1 { "before its use statements" } else { "after its first use statement" })) },
            "order_index": v.order,
        })
    }
}

/// Module texts. Module k declares `vk`, an object with its own property `pk` and one
/// property per imported module holding that module's value, so the document emitted for
/// main depends on every reachable module. Properties are written in sorted order so that
/// the text of the document is the same for every order of the `use` statements.
fn texts(g: &Graph, stmts: &[Vec<Stmt>], decl_pos: usize) -> BTreeMap<String, String> {
    let mut files = BTreeMap::new();
    for k in 0..g.n {
        let mut decl = String::new();
        let _ = write!(decl, "let v{k} = {{ 'p{k} str");
        for j in &g.adj[k] {
            // an import written a second time under another qualifier is used through that one
            let aliased = stmts[k].iter().any(|st| matches!(st, Stmt::Use { target, alias: true, .. } if target == j));
            let _ = write!(decl, ", 'm{j} {}{j}.v{j}", if aliased { "n" } else { "m" });
        }
        decl.push_str(" };\n");
        if k == 0 {
            decl.push_str("res / on get -> <v0>;\n");
        }
        let mut s = String::new();
        if decl_pos == 1 {
            s.push_str(&decl);
        }
        for (i, st) in stmts[k].iter().enumerate() {
            match st {
                Stmt::Use { target, spell, alias } => {
                    let _ = writeln!(s, "use \"{}{}\" as {}{target};", SPELL[*spell], rel_path(k, *target), if *alias { "n" } else { "m" });
                }
                Stmt::Missing => {
                    let _ = writeln!(s, "use \"{MISSING_FILE}\" as zz;");
                }
            }
            if decl_pos == 2 && i == 0 {
                s.push_str(&decl);
            }
        }
        if decl_pos == 0 || (decl_pos == 2 && stmts[k].is_empty()) {
            s.push_str(&decl);
        }
        files.insert(url_of(k), s);
    }
    files
}

/// Everything needed to run one configuration: the oracle reads `g` and `missing`, the
/// subject only sees `files`.
#[derive(Clone, Debug)]
struct Case {
    g: Graph,
    missing: Option<usize>,
    /// URL -> text.
    files: BTreeMap<String, String>,
}

impl Case {
    fn to_json(&self, variant: Value) -> Value {
        json!({
            "n": self.g.n,
            "layout": layout(),
            "layout_name": LAYOUT_NAMES[layout()],
            "edges": self.g.edges().iter().map(|(a, b)| json!([a, b])).collect::<Vec<_>>(),
            "imports": self.g.adj.iter().enumerate().map(|(a, l)| (file_of(a), json!(l.iter().map(|b| file_of(*b)).collect::<Vec<_>>()))).collect::<serde_json::Map<_, _>>(),
            "missing_in": self.missing,
            "modules": self.files,
            "variant": variant,
        })
    }
    fn from_json(v: &Value) -> Option<Case> {
        let n = v["n"].as_u64()? as usize;
        if n == 0 || n > 5 {
            return None;
        }
        let mut adj = vec![vec![]; n];
        for e in v["edges"].as_array()? {
            let a = e[0].as_u64()? as usize;
            let b = e[1].as_u64()? as usize;
            if a >= n || b >= n {
                return None;
            }
            adj[a].push(b);
        }
        for l in adj.iter_mut() {
            l.sort();
            l.dedup();
        }
        let missing = v["missing_in"].as_u64().map(|k| k as usize);
        let mut files = BTreeMap::new();
        for (k, t) in v["modules"].as_object()? {
            files.insert(k.clone(), t.as_str()?.to_owned());
        }
        Some(Case {
            g: Graph { n, adj },
            missing,
            files,
        })
    }
}

// ---------------------------------------------------------------------------
// Subject: the real loader behind a recording in-memory `Loader`

#[derive(Clone, Copy, PartialEq, Eq, Hash, Debug)]
enum Call {
    IsValid,
    Load,
    Parse,
    Compile,
}

impl Call {
    fn name(&self) -> &'static str {
        match self {
            Call::IsValid => "is_valid",
            Call::Load => "load",
            Call::Parse => "parse",
            Call::Compile => "compile",
        }
    }
}

#[derive(Debug)]
enum LoadError {
    Compiler(CompilerError),
    /// `load` was called for a locator for which there is no file.
    NoSuchFile(String),
    /// The real parser reported errors for a generated module.
    Syntax(String),
}

impl From<CompilerError> for LoadError {
    fn from(e: CompilerError) -> Self {
        LoadError::Compiler(e)
    }
}

struct Recorder<'a> {
    files: &'a BTreeMap<String, String>,
    calls: Vec<(Call, String)>,
}

impl Loader<LoadError> for Recorder<'_> {
    fn is_valid(&mut self, loc: &Locator) -> bool {
        let url = loc.url().as_str();
        self.calls.push((Call::IsValid, url.to_owned()));
        self.files.contains_key(url)
    }

    fn load(&mut self, loc: &Locator) -> Result<String, LoadError> {
        let url = loc.url().as_str();
        self.calls.push((Call::Load, url.to_owned()));
        match self.files.get(url) {
            Some(t) => Ok(t.clone()),
            None => Err(LoadError::NoSuchFile(url.to_owned())),
        }
    }

    fn parse(&mut self, loc: Locator, input: String) -> Result<Tree, LoadError> {
        self.calls.push((Call::Parse, loc.url().as_str().to_owned()));
        let (tree, errs) = oal_syntax::parse(loc, input);
        if let Some(e) = errs.first() {
            return Err(LoadError::Syntax(e.to_string()));
        }
        tree.ok_or_else(|| LoadError::Syntax("no tree".into()))
    }

    fn compile(&mut self, mods: &ModuleSet, loc: &Locator) -> Result<(), LoadError> {
        self.calls.push((Call::Compile, loc.url().as_str().to_owned()));
        oal_compiler::compile::compile(mods, loc).map_err(LoadError::Compiler)
    }
}

fn kind_name(k: &Kind) -> &'static str {
    match k {
        Kind::Locator(_) => "Locator",
        Kind::Yaml(_) => "Yaml",
        Kind::Syntax(_) => "Syntax",
        Kind::NotInScope => "NotInScope",
        Kind::InvalidType => "InvalidType",
        Kind::CycleDetected => "CycleDetected",
        Kind::InvalidLiteral => "InvalidLiteral",
        Kind::InvalidIdentifier => "InvalidIdentifier",
        Kind::InvalidModule(_) => "InvalidModule",
    }
}

/// Result of `module::load` (and of evaluation / emission after a successful load).
#[derive(Clone, PartialEq, Eq, Hash, Debug)]
enum Res {
    Ok,
    Cycle,
    Invalid(String),
    /// Any other failure: (stage, stable class, details).
    Other(&'static str, String, String),
}

impl Res {
    fn class(&self) -> String {
        match self {
            Res::Ok => "Ok".into(),
            Res::Cycle => "CycleDetected".into(),
            Res::Invalid(_) => "InvalidModule".into(),
            Res::Other(stage, class, _) => format!("{stage} error {class}"),
        }
    }
}

#[derive(Clone, Debug)]
struct Obs {
    res: Res,
    calls: Vec<(Call, String)>,
    yaml: Option<String>,
}

fn run_subject(files: &BTreeMap<String, String>) -> Result<Obs, (PanicInfo, Vec<(Call, String)>)> {
    let mut rec = Recorder {
        files,
        calls: vec![],
    };
    let base = Locator::try_from(url_of(0).as_str()).expect("main locator");
    let out = guard(|| match load(&mut rec, &base) {
        Ok(mods) => match oal_compiler::eval::eval(&mods) {
            Ok(spec) => {
                let api = oal_openapi::Builder::new(spec).into_openapi();
                match serde_yaml::to_string(&api) {
                    Ok(y) => (Res::Ok, Some(y)),
                    Err(e) => (Res::Other("yaml", "serialisation".into(), e.to_string()), None),
                }
            }
            Err(e) => (
                Res::Other("eval", kind_name(&e.kind).into(), e.to_string()),
                None,
            ),
        },
        Err(LoadError::Compiler(e)) => match &e.kind {
            Kind::CycleDetected => (Res::Cycle, None),
            Kind::InvalidModule(l) => (Res::Invalid(l.url().as_str().to_owned()), None),
            k => (
                Res::Other(
                    "load",
                    kind_name(k).into(),
                    format!("{e} at {:?}", e.span()),
                ),
                None,
            ),
        },
        Err(LoadError::NoSuchFile(u)) => (
            Res::Other("load", "Loader::load called for a file that does not exist".into(), u),
            None,
        ),
        Err(LoadError::Syntax(m)) => (Res::Other("parse", "syntax".into(), m), None),
    });
    match out {
        Ok((res, yaml)) => Ok(Obs {
            res,
            calls: rec.calls,
            yaml,
        }),
        Err(p) => Err((p, rec.calls)),
    }
}

// ---------------------------------------------------------------------------
// Oracle

struct Failure {
    tag: &'static str,
    signature: String,
    summary: String,
}

fn fail(tag: &'static str, kind: &str, site: &str, cause: &str, summary: String) -> Failure {
    Failure {
        tag,
        signature: format!("{kind} | {site} | {cause}"),
        summary,
    }
}

fn show_calls(calls: &[(Call, String)]) -> String {
    calls
        .iter()
        .map(|(c, u)| format!("{}({})", c.name(), u.strip_prefix(ROOT).unwrap_or(u)))
        .collect::<Vec<_>>()
        .join(" ")
}

fn show_graph(g: &Graph, missing: Option<usize>) -> String {
    let mut s = String::new();
    for a in 0..g.n {
        let mut l: Vec<String> = g.adj[a].iter().map(|b| file_of(*b)).collect();
        if missing == Some(a) {
            l.push(MISSING_FILE.to_owned());
        }
        let _ = write!(s, "{} imports [{}]; ", file_of(a), l.join(", "));
    }
    s
}

/// Canonical configurations of the same graph, for the invariance part of the property.
struct Baseline<'a> {
    /// Sorted `use` order, plain spelling, no duplicate, no missing import.
    plain: Option<&'a Obs>,
    /// The same with the missing import of the case (only consulted when both a cycle and
    /// a missing import are reachable).
    with_missing: Option<&'a Obs>,
}

/// Compares a (possibly partial) call trace with the model: load / parse / compile only
/// for modules reachable from main, at most once each, parse after load, and no module
/// compiled before a module it imports. With `complete`, every reachable module must have
/// gone through the three calls. Returns (cause class, details) of the first difference.
fn trace_check(
    g: &Graph,
    m: &Model,
    calls: &[(Call, String)],
    complete: bool,
) -> Option<(String, String)> {
    let url_node: BTreeMap<String, usize> = (0..g.n).map(|k| (url_of(k), k)).collect();
    let mut count = vec![[0usize; 4]; g.n];
    let mut first_pos = vec![[usize::MAX; 4]; g.n];
    for (pos, (call, url)) in calls.iter().enumerate() {
        let ci = *call as usize;
        match url_node.get(url) {
            Some(&k) => {
                count[k][ci] += 1;
                if first_pos[k][ci] == usize::MAX {
                    first_pos[k][ci] = pos;
                }
            }
            None => {
                if *call != Call::IsValid {
                    return Some((
                        format!(
                            "{} called for a locator that is not a module of the graph",
                            call.name()
                        ),
                        format!("{}({url}); ", call.name()),
                    ));
                }
            }
        }
    }
    for k in 0..g.n {
        for call in [Call::Load, Call::Parse, Call::Compile] {
            let c = count[k][call as usize];
            if !m.reach[k] && c > 0 {
                return Some((
                    format!(
                        "{} called for a module that is not reachable from main",
                        call.name()
                    ),
                    format!("{}({}); ", call.name(), file_of(k)),
                ));
            }
            if c > 1 {
                return Some((
                    format!("{} called more than once for one module", call.name()),
                    format!("{}({}) x{c}; ", call.name(), file_of(k)),
                ));
            }
            if complete && m.reach[k] && c == 0 {
                return Some((
                    format!("{} never called for a reachable module", call.name()),
                    format!("{}({}) missing; ", call.name(), file_of(k)),
                ));
            }
        }
        if count[k][Call::Parse as usize] == 1
            && (count[k][Call::Load as usize] == 0
                || first_pos[k][Call::Load as usize] > first_pos[k][Call::Parse as usize])
        {
            return Some((
                "parse called for a module before its load".into(),
                format!("parse({}); ", file_of(k)),
            ));
        }
    }
    // Compile order: once `a` is compiled, every module it imports was compiled earlier.
    for (a, b) in g.edges() {
        let (pa, pb) = (
            first_pos[a][Call::Compile as usize],
            first_pos[b][Call::Compile as usize],
        );
        if m.reach[a] && pa != usize::MAX && (pb == usize::MAX || pb > pa) {
            return Some((
                "a module is compiled before a module it imports".into(),
                format!("{} compiled before its import {}; ", file_of(a), file_of(b)),
            ));
        }
    }
    None
}

fn judge(case: &Case, obs: &Obs, base: &Baseline) -> Result<&'static str, Failure> {
    let g = &case.g;
    let m = model(g);
    let expect = expectation(&m, case.missing);
    let ctx = || {
        format!(
            "{}expected {}; got {:?}; calls: {}",
            show_graph(g, case.missing),
            expect.name(),
            obs.res,
            show_calls(&obs.calls)
        )
    };

    // 1. Call trace against the model (holds for the calls made before an error too).
    if let Some((cause, detail)) = trace_check(g, &m, &obs.calls, false) {
        return Err(fail("trace", "trace", SITE, &cause, format!("{detail}{}", ctx())));
    }
    let succeeded = obs.res == Res::Ok;

    // 2. Result class.
    let class_ok = match (&obs.res, expect) {
        (Res::Ok, Expect::Ok) => true,
        (Res::Cycle, Expect::Cycle | Expect::MissingOrCycle) => true,
        (Res::Invalid(_), Expect::Missing | Expect::MissingOrCycle) => true,
        _ => false,
    };
    if !class_ok {
        if let Res::Other(stage, class, _) = &obs.res {
            return Err(fail(
                "unexpected-error",
                "unexpected error",
                &format!("{stage} of generated modules"),
                &format!("{class} on {}", expect.graph_class()),
                ctx(),
            ));
        }
        return Err(fail(
            "wrong-result",
            "wrong result",
            SITE,
            &format!("{} expected, {} returned", expect.name(), obs.res.class()),
            ctx(),
        ));
    }
    if let Res::Invalid(t) = &obs.res {
        if Some(t.as_str()) != case.missing.map(missing_url).as_deref() {
            return Err(fail(
                "wrong-result",
                "wrong result",
                SITE,
                "InvalidModule names a locator that is not the missing import",
                ctx(),
            ));
        }
    }

    // 2b. On success the trace is complete: every reachable module went through
    //     load, parse and compile.
    if succeeded {
        if let Some((cause, detail)) = trace_check(g, &m, &obs.calls, true) {
            return Err(fail("trace", "trace", SITE, &cause, format!("{detail}{}", ctx())));
        }
    }

    // 3. The emitted document, against the reference unfolding of the graph.
    if succeeded {
        let yaml = obs.yaml.as_deref().unwrap_or("");
        let doc: serde_yaml::Value = match serde_yaml::from_str(yaml) {
            Ok(d) => d,
            Err(e) => {
                return Err(fail(
                    "document",
                    "document",
                    "emitted YAML",
                    "does not parse back",
                    format!("{e}; {}", ctx()),
                ))
            }
        };
        let schema = &doc["paths"]["/"]["get"]["responses"]["default"]["content"]
            ["application/json"]["schema"];
        let want = expected_schema(g, 0);
        if *schema != want {
            return Err(fail(
                "document",
                "document",
                "paths./.get.responses.default schema",
                "differs from the unfolding of the import graph",
                format!(
                    "{}expected schema {}; emitted {}",
                    show_graph(g, case.missing),
                    serde_json::to_string(&want).unwrap_or_default(),
                    serde_json::to_string(schema).unwrap_or_default()
                ),
            ));
        }
    }

    // 4. Invariance under `use` order, spelling and duplication: same result class and same
    //    document text as the canonical configuration of the same graph.
    let reference = match expect {
        Expect::MissingOrCycle => base.with_missing,
        Expect::Missing => None, // class and target are already fixed by the model
        _ => base.plain,
    };
    if let Some(r) = reference {
        if r.res.class() != obs.res.class() {
            return Err(fail(
                "variance",
                "variance",
                SITE,
                "result class depends on the order or spelling of use statements",
                format!("canonical configuration gives {:?}; {}", r.res, ctx()),
            ));
        }
        if succeeded && r.yaml != obs.yaml {
            return Err(fail(
                "variance",
                "variance",
                "emitted YAML",
                "document depends on the order or spelling of use statements",
                format!(
                    "canonical configuration emits {:?}, this one {:?}; {}",
                    r.yaml,
                    obs.yaml,
                    ctx()
                ),
            ));
        }
    }

    Ok(match expect {
        Expect::Ok => "ok",
        Expect::Cycle => "cycle",
        Expect::Missing => "missing",
        Expect::MissingOrCycle => "missing+cycle",
    })
}

fn panic_failure(case: &Case, p: &PanicInfo, calls: &[(Call, String)]) -> Failure {
    let m = model(&case.g);
    let expect = expectation(&m, case.missing);
    // The calls made before the panic often explain it (compile before an import).
    let cause = match trace_check(&case.g, &m, calls, false) {
        Some((cause, _)) => cause,
        None => expect.graph_class().to_owned(),
    };
    fail(
        "panic",
        "panic",
        &panic_site(p),
        &cause,
        format!(
            "{}panicked: {} at {}; calls so far: {}",
            show_graph(&case.g, case.missing),
            p.message,
            p.location,
            show_calls(calls)
        ),
    )
}

/// Canonical configuration of a graph (optionally with the missing import in module k).
fn canonical_case(g: &Graph, missing: Option<usize>) -> Case {
    let sp = GraphSpace::new(g.clone());
    let ot = OrderTable::new(0, false);
    sp.case(&sp.canonical(missing.map_or(0, |k| k + 1)), &ot)
}

// ---------------------------------------------------------------------------
// A module that does not compile. For every graph and every reachable module k, the canonical
// texts with module k's declaration naming something undefined: a cycle is still reported as
// a cycle (whatever else is wrong), an acyclic program fails in the compiler with a name
// error, and the calls made until then respect the model (nothing twice, imports first).

fn judge_broken(g: &Graph, k: usize) -> Result<(&'static str, u64, u64), Failure> {
    let mut case = canonical_case(g, None);
    let url = url_of(k);
    let text = case.files.get(&url).cloned().unwrap_or_default();
    case.files.insert(url, text.replacen(&format!("'p{k} str"), &format!("'p{k} undefined{k}"), 1));
    let m = model(g);
    let ctx = |obs: &Obs| {
        format!(
            "{}; module {} names something undefined; result {:?}; calls [{}]",
            show_graph(g, None),
            file_of(k),
            obs.res,
            show_calls(&obs.calls)
        )
    };
    let obs = match run_subject(&case.files) {
        Ok(o) => o,
        Err((p, calls)) => return Err(panic_failure(&case, &p, &calls)),
    };
    if let Some((cause, detail)) = trace_check(g, &m, &obs.calls, false) {
        return Err(fail("trace", "trace", SITE, &cause, format!("{detail}{}", ctx(&obs))));
    }
    let ok = match (&obs.res, m.cyclic) {
        (Res::Cycle, true) => true,
        (Res::Other("load", class, _), false) => class == "NotInScope",
        _ => false,
    };
    if !ok {
        return Err(fail(
            "wrong-result",
            "wrong result",
            SITE,
            &format!(
                "{} expected with a module that does not compile, {} returned",
                if m.cyclic { "CycleDetected" } else { "the compiler's name error" },
                obs.res.class()
            ),
            ctx(&obs),
        ));
    }
    Ok((if m.cyclic { "cycle reported though a module does not compile" } else { "name error of the broken module" }, obs.calls.len() as u64, hash_of(&(&obs.res, &obs.calls))))
}

/// Runs one case and judges it. `plain` / `with_missing` are caches of the canonical
/// observations of the graph (filled on demand).
fn run_case(
    case: &Case,
    plain: &mut Option<Option<Obs>>,
    with_missing: &mut BTreeMap<usize, Option<Obs>>,
) -> (Result<&'static str, Failure>, u64, Option<u64>) {
    let obs = match run_subject(&case.files) {
        Ok(o) => o,
        Err((p, calls)) => return (Err(panic_failure(case, &p, &calls)), calls.len() as u64, None),
    };
    let m = model(&case.g);
    let expect = expectation(&m, case.missing);
    let plain_obs = plain
        .get_or_insert_with(|| run_subject(&canonical_case(&case.g, None).files).ok())
        .as_ref();
    let missing_obs = match (expect, case.missing) {
        (Expect::MissingOrCycle, Some(k)) => with_missing
            .entry(k)
            .or_insert_with(|| run_subject(&canonical_case(&case.g, Some(k)).files).ok())
            .as_ref(),
        _ => None,
    };
    let verdict = judge(
        case,
        &obs,
        &Baseline {
            plain: plain_obs,
            with_missing: missing_obs,
        },
    );
    let trivial = m.reach.iter().filter(|r| **r).count() == 1 && expect == Expect::Ok;
    let class = if trivial {
        None
    } else {
        Some(hash_of(&(&obs.res, &obs.calls, &obs.yaml)))
    };
    (verdict, obs.calls.len() as u64, class)
}

// ---------------------------------------------------------------------------
// Engine

/// Graph codes of `n` nodes, fewest edges first.
fn graphs_simplest_first(n: usize) -> Vec<u32> {
    assert!(n * n < 32, "graphs are coded in 32 bits");
    let mut v: Vec<u32> = (0..1u32 << (n * n)).collect();
    v.sort_by_key(|b| (b.count_ones(), *b));
    v
}

impl Engine for C10 {
    fn id(&self) -> &'static str {
        "C10"
    }
    fn engine_name(&self) -> &'static str {
        "modgraph"
    }
    fn phases(&self, tier: Tier) -> Vec<Phase> {
        let full = |n: usize| {
            Phase::new(
                &format!("import graphs on {n} modules, every use order, full product"),
                json!({"n": n, "perm_max": 3, "rotations": true, "cross": "full"}),
            )
        };
        let laid = |n: usize, layout: usize, cross: &str, perm_max: usize| {
            Phase::new(
                &format!("import graphs on {n} modules, layout `{}`, {cross} product", LAYOUT_NAMES[layout]),
                json!({"n": n, "perm_max": perm_max, "rotations": perm_max == 3, "cross": cross, "layout": layout}),
            )
        };
        match tier {
            Tier::Quick => vec![
                full(1),
                full(2),
                Phase::new(
                    "import graphs on 3 modules, every use order, reduced product",
                    json!({"n": 3, "perm_max": 3, "rotations": true, "cross": "reduced"}),
                ),
                laid(2, 1, "full", 3),
                laid(2, 2, "full", 3),
                laid(3, 1, "reduced", 3),
                laid(3, 2, "reduced", 3),
                laid(3, 4, "reduced", 3),
                Phase::new("import graphs on <= 3 modules with one reachable module that does not compile", json!({"broken": true, "nmax": 3})),
            ],
            Tier::Thorough => vec![
                full(1),
                full(2),
                full(3),
                Phase::new(
                    "import graphs on 4 modules, every use order for <= 2 statements, separate axes",
                    json!({"n": 4, "perm_max": 2, "rotations": false, "cross": "separate"}),
                ),
                laid(2, 1, "full", 3),
                laid(2, 2, "full", 3),
                laid(3, 1, "full", 3),
                laid(3, 2, "full", 3),
                laid(4, 2, "separate", 2),
                laid(4, 3, "separate", 2),
                laid(3, 4, "full", 3),
                laid(4, 4, "separate", 2),
                Phase::new("import graphs on <= 4 modules with one reachable module that does not compile", json!({"broken": true, "nmax": 4})),
            ],
        }
    }
    fn run_phase(&self, phase: &Phase, sink: &mut Sink) {
        if phase.param["broken"] == true {
            set_layout(0);
            let mut idx = 0u64;
            for n in 1..=phase.param["nmax"].as_u64().unwrap() as usize {
                for bits in graphs_simplest_first(n) {
                    let g = Graph::from_bits(n, bits);
                    let m = model(&g);
                    for k in (0..n).filter(|k| m.reach[*k]) {
                        if sink.mine(idx) {
                            if sink.expired() {
                                return;
                            }
                            sink.visit(
                                idx,
                                || json!({"broken": k, "n": n, "bits": bits}),
                                |s| match judge_broken(&g, k) {
                                    Ok((tag, calls, class)) => {
                                        s.count("transitions", calls);
                                        s.count("states", 1);
                                        Outcome::ok(tag, Some(class))
                                    }
                                    Err(f) => Outcome::bad(f.tag, f.signature, f.summary, json!({"broken": k, "n": n, "bits": bits})),
                                },
                            );
                        }
                        idx += 1;
                    }
                }
            }
            return;
        }
        let n = phase.param["n"].as_u64().unwrap() as usize;
        set_layout(phase.param["layout"].as_u64().unwrap_or(0) as usize);
        let ot = OrderTable::new(
            phase.param["perm_max"].as_u64().unwrap() as usize,
            phase.param["rotations"].as_bool().unwrap(),
        );
        let cross = phase.param["cross"].as_str().unwrap().to_owned();
        let mut idx: u64 = 0;
        for bits in graphs_simplest_first(n) {
            if sink.expired() {
                break;
            }
            let sp = GraphSpace::new(Graph::from_bits(n, bits));
            let mut plain: Option<Option<Obs>> = None;
            let mut with_missing: BTreeMap<usize, Option<Obs>> = BTreeMap::new();
            for missing in 0..sp.n_missing() {
                for dup in 0..sp.n_dup() {
                    let head = Variant {
                        missing,
                        dup,
                        spelling: 0,
                        order: 0,
                    };
                    let orders = sp.order_count(&head, &ot);
                    // "full": missing x duplicate x spelling x order. "reduced": spellings
                    // are crossed with orders only; duplicates and missing imports are
                    // crossed with each other and with orders. "separate": additionally
                    // duplicates and missing imports are not crossed with each other.
                    if cross == "separate" && missing > 0 && dup > 0 {
                        continue;
                    }
                    let spellings = if cross == "full" || (missing == 0 && dup == 0) {
                        sp.n_spelling() as u64
                    } else {
                        1
                    };
                    let block = orders * spellings;
                    // Index-addressable block: jump straight to this worker's cases.
                    let mut c = match sink.mode {
                        Mode::Describe(i) | Mode::Only(i) => {
                            if i >= idx && i < idx + block {
                                i - idx
                            } else {
                                block
                            }
                        }
                        Mode::Run => (sink.shard + sink.nshards - idx % sink.nshards) % sink.nshards,
                    };
                    while c < block {
                        let v = Variant {
                            missing,
                            dup,
                            spelling: (c / orders) as usize,
                            order: c % orders,
                        };
                        sink.visit(
                            idx + c,
                            || sp.case(&v, &ot).to_json(sp.describe_variant(&v)),
                            |s| {
                                let case = sp.case(&v, &ot);
                                let (verdict, ncalls, class) =
                                    run_case(&case, &mut plain, &mut with_missing);
                                s.count("states", 1);
                                s.count("transitions", ncalls);
                                s.count("traces", 1);
                                match verdict {
                                    Ok(tag) => Outcome::ok(tag, class),
                                    Err(f) => Outcome::bad(
                                        f.tag,
                                        f.signature,
                                        f.summary,
                                        case.to_json(sp.describe_variant(&v)),
                                    ),
                                }
                            },
                        );
                        if sink.single().is_some() {
                            break;
                        }
                        if sink.expired() {
                            break;
                        }
                        c += sink.nshards;
                    }
                    idx += block;
                }
            }
        }
    }
    fn replay(&self, case: &Value) -> Outcome {
        if let (Some(k), Some(n), Some(bits)) = (case["broken"].as_u64(), case["n"].as_u64(), case["bits"].as_u64()) {
            set_layout(0);
            return match judge_broken(&Graph::from_bits(n as usize, bits as u32), k as usize) {
                Ok((tag, _, _)) => Outcome::ok(tag, None),
                Err(f) => Outcome::bad(f.tag, f.signature, f.summary, case.clone()),
            };
        }
        let Some(c) = Case::from_json(case) else {
            return Outcome::bad(
                "bad-replay",
                "replay | case file | not a C10 case".into(),
                "cannot read n / edges / modules from the case".into(),
                case.clone(),
            );
        };
        set_layout(case["layout"].as_u64().unwrap_or(0) as usize);
        let (verdict, _, _) = run_case(&c, &mut None, &mut BTreeMap::new());
        match verdict {
            Ok(tag) => Outcome::ok(tag, None),
            Err(f) => Outcome::bad(f.tag, f.signature, f.summary, case.clone()),
        }
    }
    fn rule(&self) -> String {
        "every directed graph on N nodes (2^(N*N) adjacency matrices, self loops included, fewest edges first) read as the import relation of main.oal, m1.oal, ... laid out in one directory and, in the bounds that name a layout, (1) with the imported modules side by side in a sub-directory (a/m1.oal, a/m2.oal, ...), (2) with the same file name in several directories (a/m.oal, m.oal, a/b/m.oal, b/m.oal) and (3) with two pairs of equally named files (a/m1.oal, m2.oal, a/m2.oal, m1.oal), every `use` spelling the target relative to the importing file (so the same spelling denotes different files from different modules, and `..` segments occur); module k is `use \"mj.oal\" as mj;` for each import, `let vk = { 'pk str, 'mj mj.vj ... };`, and main adds `res / on get -> <v0>;`, so the document depends on every reachable module. Per graph the product of: (a) optional `use \"zz.oal\"` (no such file) appended to one module (N+1 choices, unreachable modules included); (b) optional duplicate of one `use` (each edge leaving a reachable module; copy with the same or with the next spelling, written under a second qualifier through which the module's declaration then reaches the import); (c) spelling of the paths over {m.oal, ./m.oal, d/../m.oal}: all plain, each single reachable edge with each alternative, all edges with each alternative, and plain paths with the declaration of every module written before its `use` statements or after the first of them (5+2E choices, not the 3^E product); (d) order of the `use` statements of every reachable module: for N<=3 every permutation of lists of <= 3 statements (so every order of every out-degree) and, for the lists of 4 or 5 statements that arise when a 3-import module also gets the duplicate and/or the missing import, the 2L rotations of the sorted list and of its reverse; for N=4 every permutation of lists of <= 2 statements, longer lists sorted and reversed. Statements of modules unreachable from main are not varied (a correct loader never reads them; reading them is caught in every configuration). Bounds named `full product` cross (a) x (b) x (c) x (d); the bound named `reduced product` (N=3 in the quick tier) takes (c) x (d) without duplicate and missing import, plus (a) x (b) x (d) with plain spelling (the copy of a duplicated use still takes the same or the next spelling); the bound named `separate axes` (N=4) takes (c) x (d), (a) x (d) and (b) x (d). Each configuration runs the real module::load with a recording in-memory Loader (real parse, real compile), then eval + OpenAPI builder + YAML. Oracle: DFS reachability and three-colour cycle detection; result class; load/parse/compile exactly once for exactly the reachable modules; compile(b) before compile(a) for every import a->b; response schema equal to the tree unfolding of the graph; result class and YAML text equal to those of the canonical configuration (sorted order, plain spelling, no duplicate) of the same graph. In a last bound every graph on <= 3 (thorough 4) modules is run once per reachable module with that module's declaration naming something undefined: a cyclic graph still gives CycleDetected, an acyclic one the compiler's name error, and the calls made until then satisfy the same trace rules. A configuration is trivial when main imports nothing and nothing is missing; distinct = distinct (result, call trace, document) triples".into()
    }
    fn assumptions(&self) -> Vec<String> {
        vec![
            "when a missing import and an import cycle are both reachable the statement asks for both reports and load returns one error: either class is accepted, but it must be the same class for every use order and spelling of that graph".into(),
            "is_valid calls are recorded and counted as transitions but their number is not judged (the statement speaks of load, parse and compile only)".into(),
            "four directory layouts of at most depth 2; alternative spellings prefix the relative path with ./ or d/../ (one layout has file names that differ only by case; no symbolic links, no percent-encoding, no absolute paths or URLs)".into(),
            "at most one duplicate use and one missing import per configuration; spellings are varied one edge at a time or all together".into(),
        ]
    }
    fn crash_signature(&self, kind: &str, case: &Value) -> String {
        let class = Case::from_json(case)
            .map(|c| expectation(&model(&c.g), c.missing).graph_class())
            .unwrap_or("unknown import graph");
        format!("{kind} | {SITE} | {class}")
    }
    fn state_counters(&self, m: &Stats) -> Option<(u64, u64, u64)> {
        let get = |k: &str| *m.counters.get(k).unwrap_or(&0);
        Some((get("states"), get("transitions"), get("traces")))
    }
}

#[cfg(test)]
mod tests {
    use super::*;

    #[test]
    fn model_on_small_graphs() {
        // main -> m1 -> m2, m2 unreachable self loop on m3
        let g = Graph {
            n: 4,
            adj: vec![vec![1], vec![2], vec![], vec![3]],
        };
        let m = model(&g);
        assert_eq!(m.reach, vec![true, true, true, false]);
        assert!(!m.cyclic);
        assert_eq!(expectation(&m, Some(3)), Expect::Ok);
        assert_eq!(expectation(&m, Some(2)), Expect::Missing);
        // diamond is not a cycle
        let g = Graph {
            n: 4,
            adj: vec![vec![1, 2], vec![3], vec![3], vec![]],
        };
        assert!(!model(&g).cyclic);
        // self loop, back edge
        let g = Graph {
            n: 2,
            adj: vec![vec![1], vec![1]],
        };
        assert!(model(&g).cyclic);
        let g = Graph {
            n: 3,
            adj: vec![vec![1], vec![2], vec![0]],
        };
        assert!(model(&g).cyclic);
    }

    #[test]
    fn canonical_triangle_is_accepted() {
        let g = Graph {
            n: 3,
            adj: vec![vec![1, 2], vec![2], vec![]],
        };
        let c = canonical_case(&g, None);
        for (k, t) in &c.files {
            println!("--- {k}\n{t}");
        }
        let o = run_subject(&c.files).unwrap();
        println!("{:?}\n{}\n{}", o.res, show_calls(&o.calls), o.yaml.clone().unwrap_or_default());
        let r = judge(
            &c,
            &o,
            &Baseline {
                plain: Some(&o),
                with_missing: None,
            },
        );
        if let Err(f) = &r {
            println!("{} :: {}", f.signature, f.summary);
        }
        assert!(r.is_ok());
    }
}


