//! C13 — front ends agree, and the CLI writes the target only on success.
//!
//! Space: a program matrix (for success and for every phase at which a program can fail:
//! lexical, syntax, missing import, import cycle, unbound name, duplicate declaration, kind
//! mismatch, infinite type, ill-formed recursion, invalid status literal, invalid annotation
//! YAML — each class built from hand-written fragments placed in every embedding: alone,
//! after / before valid code, CRLF, in an imported module, behind a qualified import, in a
//! module with its own import, at the bottom of a diamond) times the CLI configuration
//! matrix {options only, --conf only, conf overridden by options, non-existent main} x base
//! {none, valid, not YAML, not an OpenAPI object, missing file} x target {absent, sentinel}.
//! Every pair is one run of the real `oal-cli`; single-module sources also go through
//! `oal_wasm::compile`; every program goes through the real `oal-lsp` once.

use crate::explore::*;
use oal_compiler::errors::Kind;
use oal_compiler::module::{Loader, ModuleSet};
use oal_compiler::spec::Spec;
use oal_compiler::tree::Tree;
use oal_model::locator::Locator;
use serde_json::{json, Value};
use serde_yaml::Value as Y;
use std::cell::RefCell;
use std::io::{BufRead, BufReader, Read, Write};
use std::path::{Path, PathBuf};
use std::process::{Child, ChildStdin, Command, Stdio};
use std::sync::mpsc;
use std::time::Duration;

pub struct C13;

// ---------------------------------------------------------------------------
// Program matrix

#[derive(Clone, Copy, PartialEq, Eq, Debug)]
pub enum Class {
    Success,
    Lexical,
    Syntax,
    MissingImport,
    ImportCycle,
    Unbound,
    Duplicate,
    KindMismatch,
    InfiniteType,
    BadRecursion,
    StatusLiteral,
    AnnotationYaml,
}

impl Class {
    pub fn name(&self) -> &'static str {
        match self {
            Class::Success => "success",
            Class::Lexical => "lexical",
            Class::Syntax => "syntax",
            Class::MissingImport => "missing-import",
            Class::ImportCycle => "import-cycle",
            Class::Unbound => "unbound",
            Class::Duplicate => "duplicate",
            Class::KindMismatch => "kind-mismatch",
            Class::InfiniteType => "infinite-type",
            Class::BadRecursion => "bad-recursion",
            Class::StatusLiteral => "status-literal",
            Class::AnnotationYaml => "annotation-yaml",
        }
    }
    fn parse(s: &str) -> Class {
        ALL_CLASSES
            .iter()
            .copied()
            .find(|c| c.name() == s)
            .unwrap_or(Class::Success)
    }
}

const ALL_CLASSES: [Class; 12] = [
    Class::Success,
    Class::Lexical,
    Class::Syntax,
    Class::MissingImport,
    Class::ImportCycle,
    Class::Unbound,
    Class::Duplicate,
    Class::KindMismatch,
    Class::InfiniteType,
    Class::BadRecursion,
    Class::StatusLiteral,
    Class::AnnotationYaml,
];

/// A fragment: declarations (where the error of the class sits) and the statements of the
/// main module that use them. `$Q` is the qualifier of the declarations as seen from main
/// ("" or "q.").
type Frag = (&'static str, &'static str, bool);

/// Fragment whose error sits in the declarations.
const fn d(decls: &'static str, uses: &'static str) -> Frag {
    (decls, uses, false)
}

/// Fragment whose error sits in the statements of main.
const fn u(decls: &'static str, uses: &'static str) -> Frag {
    (decls, uses, true)
}

const NOP: &str = "res / on get -> <>;";

fn fragments(c: Class) -> Vec<Frag> {
    match c {
        Class::Success => vec![
            d("let a = { 'p num };", "res /a on get -> <$Qa>;"),
            d("let t = rec x { 'v num, 'c [x] };", "res /t on get -> <$Qt>;"),
            d("let @r = { 'id! int };", "res /r on get -> <$Q@r>, put : <$Q@r> -> <$Q@r>;"),
            d("let a = num;", ""),
            d("let f x y = { 'a x, 'b y };", "res /f on get -> <$Qf num str>;"),
            d("let h = 'X-H str;\nlet c = <status=200, headers={h}, {}>;", "res /h on get -> $Qc;"),
            d("let u = /u/{ 'id int };", "res $Qu on get -> <{}>, delete -> <status=204>;"),
            d("let e = <status=4XX, media=\"application/problem+json\", {}>;", "res /e on post : <{}> -> <status=201,{}> :: $Qe;"),
            d("# description: \"annotated\"\nlet a = str `minLength: 1`;", "res /n?{ 'q $Qa } on get -> <[$Qa]>;"),
        ],
        Class::Lexical => vec![
            // the residual token stream of the first two is a complete program
            d("let a = num; $", NOP),
            d("let a = num;\n\u{a7}\nlet b = str;", NOP),
            // white space to Unicode, not to the language: an error even as the last character
            d("let a = num;\u{a0}", NOP),
            d("let a = 99999999999999999999999;", NOP),
            d("let a = num;\n\u{2028}", NOP),
            d("let a = num;\u{c}", NOP),
            d("let a = %;", NOP),
            d("let a = \"unterminated;", NOP),
            d("let a = num ^ str;", NOP),
        ],
        Class::Syntax => vec![
            d("let a = ;", NOP),
            // trailing input after a complete program: the parser still returns a tree
            d("let a = num; )", NOP),
            d("let a = { 'p num ;", NOP),
            d("let = num;", NOP),
            d("let a = num", NOP),
            d("res / on -> <>;", NOP),
            d("let a = <status=, {}>;", NOP),
            d("let a b = ;", NOP),
        ],
        Class::Unbound => vec![
            d("let a = b;", NOP),
            d("let f x = y;\nlet a = f num;", NOP),
            d("let a = { 'p c };", NOP),
            d("res /u on get -> <zz>;", NOP),
            d("let a = zq.b;", NOP),
            d("let a = rec x y;", NOP),
            d("let a = @nope;", NOP),
            d("let f x = x;\nlet a = g num;", NOP),
        ],
        Class::Duplicate => vec![
            d("let a = num;\nlet a = str;", NOP),
            d("let @a = {};\nlet @a = {};", NOP),
            d("let f x = x;\nlet f y = y;", NOP),
            d("let a = num;\nlet b = str;\nlet a = b;", NOP),
            d("let a = num;\nlet a x = x;", NOP),
        ],
        Class::KindMismatch => vec![
            d("let a = <> & {};", NOP),
            d("let a = [<>];", NOP),
            d("let a = 'p <>;", NOP),
            d("res {} on get -> <>;", NOP),
            d("let a = num | <>;", NOP),
            d("let f x = x & {};\nlet a = f <>;", NOP),
            d("let a = <status=\"x\", {}>;", NOP),
            d("let a = {} on get -> <>;", NOP),
        ],
        Class::InfiniteType => vec![
            d("let a = 'p a;", NOP),
            d("let f x = x x;", NOP),
            d("let a = 'p ('q a);", NOP),
            d("let f x = f;", NOP),
        ],
        Class::BadRecursion => vec![
            d("let a = <> :: b;\nlet b = a;", "res /c on get -> $Qa;"),
            d("let a = b;\nlet b = a;", "res /c on get -> $Qa;"),
            d("let a = a;", NOP),
            d("let c = <status=200,{}> :: c;", "res /c on get -> $Qc;"),
            d("let a = b :: <>;\nlet b = c;\nlet c = a;", NOP),
            d("let u = concat /a u;", NOP),
        ],
        Class::StatusLiteral => vec![
            d("let c = <status=99,{}>;", "res /s on get -> $Qc;"),
            d("let c = <status=600,{}>;", "res /s on get -> $Qc;"),
            u("let a = {};", "res /s on get -> <status=99,$Qa>;"),
            d("let c = <status=200,{}> :: <status=0,{}>;", "res /s on get -> $Qc;"),
            d("let c = <status=1000, media=\"a/b\", {}>;", "res /s on put : <{}> -> $Qc;"),
            d("let f s = <status=s,{}>;", "res /s on get -> $Qf 42;"),
        ],
        Class::AnnotationYaml => vec![
            d("# description: [\nlet a = num;", "res /y on get -> <$Qa>;"),
            d("let a = num `title: [`;", "res /y on get -> <$Qa>;"),
            d("let a = { 'p num } `description: {`;", "res /y on get -> <$Qa>;"),
            d("let c = <{}> `description: [a`;", "res /y on get -> $Qc;"),
            u("let a = {};", "res /y on get -> <$Qa> `description: {`;"),
            d("let a = str `example: \"unterminated`;", "res /y on get -> <$Qa>;"),
        ],
        Class::MissingImport | Class::ImportCycle => vec![],
    }
}

pub const EMBEDDINGS: [&str; 10] = [
    "main",
    "after",
    "import",
    "import-as",
    "crlf",
    "eof",
    "imports-clean",
    "before",
    "import-own",
    "diamond",
];

#[derive(Clone, Debug)]
pub struct Program {
    pub class: Class,
    pub name: String,
    /// (file name, text); the first one is main.oal.
    pub modules: Vec<(String, String)>,
    /// The module in which the error sits; None when any module of the program will do.
    pub err_module: Option<String>,
}

/// (module, line, column) — 1-based, column in characters — of the start of the span that
/// the libraries attach to the error of a program, when it has one inside a module text.
fn expected_position(p: &Program) -> Option<(String, usize, usize)> {
    use crate::pipeline::{self, Run};
    let files: std::collections::BTreeMap<String, String> = p.modules.iter().cloned().collect();
    let span = match pipeline::run(&files, "main.oal") {
        Run::Rejected(e) => {
            let spans = e.spans();
            match &e {
                // the CLI reports the last syntax / lexical error of the module
                pipeline::LoadError::Syntax(..) => spans.last().cloned(),
                _ => spans.first().cloned(),
            }
        }
        Run::EvalError(e, _) => e.span().cloned(),
        _ => None,
    }?;
    let m = pipeline::module_name(span.locator());
    let text = files.get(&m)?;
    let start = span.start().min(text.len());
    if !text.is_char_boundary(start) {
        return None;
    }
    let line_start = text[..start].rfind('\n').map_or(0, |i| i + 1);
    let line = text[..start].matches('\n').count() + 1;
    let col = text[line_start..start].chars().count() + 1;
    Some((m, line, col))
}

const PRE: &str = "// \u{e9}\u{1f609} preamble\nlet pre0 = { 'k str };\nres /pre on get -> <pre0>;\n";
const POST: &str = "\nlet post0 = num;\nres /post on get -> <post0>;\n";

fn embed(class: Class, fi: usize, frag: Frag, e: usize) -> Program {
    let (decls, uses, in_uses) = frag;
    let plain = uses.replace("$Q", "");
    let qual = uses.replace("$Q", "q.");
    let m = |n: &str, t: String| (n.to_owned(), t);
    let (modules, errm) = match EMBEDDINGS[e] {
        "main" => (vec![m("main.oal", format!("{decls}\n{plain}\n"))], "main.oal"),
        "after" => (vec![m("main.oal", format!("{PRE}{decls}\n{plain}\n"))], "main.oal"),
        "before" => (vec![m("main.oal", format!("{decls}\n{plain}\n{POST}"))], "main.oal"),
        "crlf" => (
            vec![m("main.oal", format!("{decls}\n{plain}\n").replace('\n', "\r\n"))],
            "main.oal",
        ),
        // the declarations (which hold the error) last, and nothing after the last token
        "eof" => (vec![m("main.oal", format!("{plain}\n{decls}").trim_end_matches([' ', '\n', '\r', '\t']).to_owned())], "main.oal"),
        // the error sits in main, which also imports a module that is fine (and is read later)
        "imports-clean" => (
            vec![
                m("main.oal", format!("use \"lib.oal\" as lib;\n{decls}\n{plain}\nres /lib on get -> <lib.fine>;\n")),
                m("lib.oal", "let fine = num;\n".to_owned()),
            ],
            "main.oal",
        ),
        "import" => (
            vec![
                m("main.oal", format!("use \"m.oal\";\n{plain}\n")),
                m("m.oal", format!("{decls}\n")),
            ],
            "m.oal",
        ),
        "import-as" => (
            vec![
                m("main.oal", format!("use \"m.oal\" as q;\n{qual}\n")),
                m("m.oal", format!("{decls}\n")),
            ],
            "m.oal",
        ),
        "import-own" => (
            vec![
                m("main.oal", format!("use \"m.oal\" as q;\n{qual}\n")),
                m("m.oal", format!("use \"n.oal\";\n{decls}\n")),
                m("n.oal", "let n0 = num;\n".to_owned()),
            ],
            "m.oal",
        ),
        _ => (
            vec![
                m("main.oal", format!("use \"m.oal\";\nuse \"n.oal\";\n{plain}\n")),
                m("m.oal", "use \"n.oal\";\nlet m0 = num;\n".to_owned()),
                m("n.oal", format!("{decls}\n")),
            ],
            "n.oal",
        ),
    };
    Program {
        class,
        name: format!("{}#{fi}/{}", class.name(), EMBEDDINGS[e]),
        modules,
        err_module: (class != Class::Success).then(|| if in_uses { "main.oal" } else { errm }.to_owned()),
    }
}

fn import_programs() -> Vec<Program> {
    let p = |class: Class, i: usize, errm: Option<&str>, mods: &[(&str, &str)]| Program {
        class,
        name: format!("{}#{i}", class.name()),
        modules: mods.iter().map(|(n, t)| (n.to_string(), t.to_string())).collect(),
        err_module: errm.map(str::to_owned),
    };
    let mi = Class::MissingImport;
    let cy = Class::ImportCycle;
    vec![
        p(mi, 0, Some("main.oal"), &[("main.oal", "use \"nothere.oal\";\nres / on get -> <>;\n")]),
        p(mi, 1, Some("m.oal"), &[
            ("main.oal", "use \"m.oal\";\nres / on get -> <m0>;\n"),
            ("m.oal", "use \"nothere.oal\";\nlet m0 = {};\n"),
        ]),
        p(mi, 2, Some("main.oal"), &[("main.oal", "use \"nothere.oal\" as q;\nres / on get -> <>;\n")]),
        p(mi, 3, Some("main.oal"), &[
            ("main.oal", "use \"m.oal\";\nuse \"nothere.oal\";\nres / on get -> <m0>;\n"),
            ("m.oal", "let m0 = {};\n"),
        ]),
        p(mi, 4, Some("main.oal"), &[("main.oal", "use \"sub/nothere.oal\";\nres / on get -> <>;\n")]),
        p(mi, 5, Some("main.oal"), &[("main.oal", "use \"\";\nres / on get -> <>;\n")]),
        p(mi, 6, Some("m.oal"), &[
            ("main.oal", "use \"m.oal\" as q;\nres / on get -> <q.m0>;\n"),
            ("m.oal", "use \"n.oal\";\nuse \"gone.oal\";\nlet m0 = {};\n"),
            ("n.oal", "let n0 = num;\n"),
        ]),
        p(mi, 7, Some("main.oal"), &[("main.oal", "use \"../nothere.oal\";\nres / on get -> <>;\n")]),
        p(mi, 8, Some("main.oal"), &[("main.oal", "// no such file on a case-sensitive file system\nuse \"MAIN.OAL\";\nres / on get -> <>;\n")]),
        p(cy, 0, None, &[
            ("main.oal", "use \"m.oal\";\nres / on get -> <m0>;\n"),
            ("m.oal", "use \"main.oal\";\nlet m0 = {};\n"),
        ]),
        p(cy, 1, None, &[("main.oal", "use \"main.oal\";\nres / on get -> <>;\n")]),
        p(cy, 2, None, &[
            ("main.oal", "use \"m.oal\";\nres / on get -> <m0>;\n"),
            ("m.oal", "use \"m.oal\";\nlet m0 = {};\n"),
        ]),
        p(cy, 3, None, &[
            ("main.oal", "use \"m.oal\";\nres / on get -> <m0>;\n"),
            ("m.oal", "use \"n.oal\";\nlet m0 = {};\n"),
            ("n.oal", "use \"m.oal\";\nlet n0 = num;\n"),
        ]),
        p(cy, 4, None, &[
            ("main.oal", "use \"m.oal\";\nres / on get -> <m0>;\n"),
            ("m.oal", "use \"n.oal\";\nlet m0 = {};\n"),
            ("n.oal", "use \"main.oal\";\nlet n0 = num;\n"),
        ]),
        p(cy, 5, None, &[
            ("main.oal", "use \"m.oal\";\nuse \"n.oal\";\nres / on get -> <m0>;\n"),
            ("m.oal", "use \"n.oal\";\nlet m0 = {};\n"),
            ("n.oal", "use \"m.oal\";\nlet n0 = num;\n"),
        ]),
        p(cy, 6, None, &[
            ("main.oal", "use \"m.oal\" as q;\nres / on get -> <q.m0>;\n"),
            ("m.oal", "use \"main.oal\" as r;\nlet m0 = {};\n"),
        ]),
        p(cy, 7, None, &[("main.oal", "use \"./main.oal\";\nres / on get -> <>;\n")]),
    ]
}

/// The program matrix: `nfrag` fragments per class in the first `nembed` embeddings, plus
/// the import programs.
pub fn programs(nfrag: usize, nembed: usize) -> Vec<Program> {
    let mut v = Vec::new();
    for c in ALL_CLASSES {
        for (fi, f) in fragments(c).into_iter().take(nfrag).enumerate() {
            for e in 0..nembed.min(EMBEDDINGS.len()) {
                v.push(embed(c, fi, f, e));
            }
        }
    }
    v.extend(import_programs());
    v
}

// ---------------------------------------------------------------------------
// In-process front end (the libraries), used to place a program in its class and as the
// reference document of accepted programs

struct MemLoader<'a> {
    mods: &'a [(String, String)],
    stage: RefCell<Option<&'static str>>,
}

impl Loader<anyhow::Error> for MemLoader<'_> {
    fn is_valid(&mut self, loc: &Locator) -> bool {
        self.mods.iter().any(|(u, _)| u == loc.url().as_str())
    }
    fn load(&mut self, loc: &Locator) -> anyhow::Result<String> {
        self.mods
            .iter()
            .find(|(u, _)| u == loc.url().as_str())
            .map(|(_, t)| t.clone())
            .ok_or_else(|| anyhow::anyhow!("no such module: {loc}"))
    }
    fn parse(&mut self, loc: Locator, input: String) -> anyhow::Result<Tree> {
        let (tree, errs) = oal_syntax::parse(loc, input);
        if errs.iter().any(|e| matches!(e, oal_syntax::errors::Error::Lexicon(_))) {
            *self.stage.borrow_mut() = Some("lexical");
            return Err(anyhow::anyhow!("lexical error"));
        }
        if !errs.is_empty() || tree.is_none() {
            *self.stage.borrow_mut() = Some("syntax");
            return Err(anyhow::anyhow!("syntax error"));
        }
        Ok(tree.unwrap())
    }
    fn compile(&mut self, mods: &ModuleSet, loc: &Locator) -> anyhow::Result<()> {
        if let Err(e) = oal_compiler::compile::compile(mods, loc) {
            let msg = e.to_string();
            *self.stage.borrow_mut() = Some(match e.kind {
                Kind::NotInScope => "unbound",
                Kind::InvalidIdentifier => "duplicate",
                Kind::InvalidType if msg.contains("recursive type") => "infinite-type",
                Kind::InvalidType if msg.contains("ill-formed recursion") => "bad-recursion",
                Kind::InvalidType => "kind-mismatch",
                _ => "other-compile-error",
            });
            return Err(e.into());
        }
        Ok(())
    }
}

/// Runs the libraries on modules given as (url, text). Returns the class reached and, for an
/// accepted program, its spec.
fn library_front_end(mods: &[(String, String)]) -> Result<(&'static str, Option<Spec>), PanicInfo> {
    guard(|| {
        let main = Locator::try_from(mods[0].0.as_str()).expect("module url");
        let mut loader = MemLoader {
            mods,
            stage: RefCell::new(None),
        };
        let ms = match oal_compiler::module::load(&mut loader, &main) {
            Ok(ms) => ms,
            Err(e) => {
                if let Some(s) = loader.stage.borrow().as_ref() {
                    return (*s, None);
                }
                return match e.downcast_ref::<oal_compiler::errors::Error>().map(|e| &e.kind) {
                    Some(Kind::InvalidModule(_)) | Some(Kind::Locator(_)) => ("missing-import", None),
                    Some(Kind::CycleDetected) => ("import-cycle", None),
                    _ => ("other-load-error", None),
                };
            }
        };
        match oal_compiler::eval::eval(&ms) {
            Ok(spec) => ("success", Some(spec)),
            Err(e) => match e.kind {
                Kind::InvalidLiteral => ("status-literal", None),
                Kind::Yaml(_) => ("annotation-yaml", None),
                _ => ("other-eval-error", None),
            },
        }
    })
}

fn mem_modules(p: &Program, root: &str) -> Vec<(String, String)> {
    p.modules
        .iter()
        .map(|(n, t)| (format!("{root}{n}"), t.clone()))
        .collect()
}

// ---------------------------------------------------------------------------
// Configurations

pub const CLI_MODES: [&str; 5] = ["options", "conf", "conf+options", "missing-main", "conf-bare-name"];
pub const BASES: [&str; 5] = ["none", "valid", "not-yaml", "not-openapi", "missing"];

#[derive(Clone, Copy, Debug, PartialEq, Eq)]
pub struct Cfg {
    pub cli: usize,
    pub base: usize,
    pub sentinel: bool,
}

/// The full matrix (reduced = false) or the quick one: every CLI mode and every base, the
/// broken bases only with the sentinel target.
pub fn configs(reduced: bool) -> Vec<Cfg> {
    let mut v = Vec::new();
    for cli in [0usize, 1, 2, 4] {
        for base in 0..BASES.len() {
            for sentinel in [false, true] {
                if reduced && base >= 2 && !(sentinel && (cli == 0 || base == 4)) {
                    continue;
                }
                v.push(Cfg { cli, base, sentinel });
            }
        }
    }
    for sentinel in [false, true] {
        v.push(Cfg {
            cli: 3,
            base: 0,
            sentinel,
        });
    }
    v
}

const SENTINEL_LINE: &[u8] = b"SENTINEL \xff\x00 do not touch\n";
/// Longer than any document the programs emit: a write that does not truncate the target
/// leaves the tail of the sentinel behind.
fn sentinel() -> Vec<u8> {
    SENTINEL_LINE.repeat(2000)
}
const VALID_BASE: &str = "openapi: 3.0.3\ninfo:\n  title: Base\n  description: from the base\n  version: 9.9.9\n  license:\n    name: MIT\nservers:\n- url: https://base.example.com\npaths:\n  /base-only:\n    get:\n      responses:\n        '200':\n          description: ok\ncomponents:\n  securitySchemes:\n    default:\n      type: http\n      scheme: bearer\nx-base: true\n";
const NOT_YAML: &str = "{ this is: [not yaml\n";
const NOT_OPENAPI: &str = "- just\n- a list\n";

// ---------------------------------------------------------------------------
// Scratch directories, process runs

pub struct TempDir(pub PathBuf);

impl TempDir {
    pub fn new(tag: &str) -> TempDir {
        static N: std::sync::atomic::AtomicU64 = std::sync::atomic::AtomicU64::new(0);
        let n = N.fetch_add(1, std::sync::atomic::Ordering::SeqCst);
        // a blank and a non-ASCII letter in the directory name: every absolute path and file
        // URL of the run needs percent-encoding and decoding
        let p = PathBuf::from(format!("/var/tmp/oalmc-{}-{tag}{n} \u{e9}", std::process::id()));
        let _ = std::fs::remove_dir_all(&p);
        std::fs::create_dir_all(&p).expect("cannot create scratch directory");
        TempDir(p.canonicalize().expect("scratch directory"))
    }
    fn reset(&self) {
        let _ = std::fs::remove_dir_all(&self.0);
        std::fs::create_dir_all(self.0.join("elsewhere")).expect("cannot create scratch directory");
    }
    fn write_modules(&self, p: &Program) {
        for (n, t) in &p.modules {
            std::fs::write(self.0.join(n), t).expect("write module");
        }
    }
    fn url_root(&self) -> String {
        url::Url::from_directory_path(&self.0).expect("directory url").to_string()
    }
}

impl Drop for TempDir {
    fn drop(&mut self) {
        let _ = std::fs::remove_dir_all(&self.0);
    }
}

fn cli_path() -> String {
    std::env::var("OAL_CLI").unwrap_or_else(|_| "/verif/.build/repo/debug/oal-cli".into())
}

fn lsp_path() -> String {
    std::env::var("OAL_LSP").unwrap_or_else(|_| "/verif/.build/repo/debug/oal-lsp".into())
}

fn strip_ansi(s: &str) -> String {
    let mut out = String::new();
    let mut it = s.chars().peekable();
    while let Some(c) = it.next() {
        if c == '\u{1b}' && it.peek() == Some(&'[') {
            it.next();
            for d in it.by_ref() {
                if d.is_ascii_alphabetic() {
                    break;
                }
            }
        } else {
            out.push(c);
        }
    }
    out
}

pub struct CliRun {
    pub code: Option<i32>,
    pub signal: Option<i32>,
    pub stderr: String,
}

fn run_cli(args: &[String], cwd: &Path) -> CliRun {
    use std::os::unix::process::ExitStatusExt;
    let out = Command::new(cli_path())
        .args(args)
        .current_dir(cwd)
        .env_remove("RUST_BACKTRACE")
        .stdin(Stdio::null())
        .output()
        .expect("cannot run oal-cli (set OAL_CLI)");
    CliRun {
        code: out.status.code(),
        signal: out.status.signal(),
        stderr: strip_ansi(&String::from_utf8_lossy(&out.stderr)),
    }
}

// ---------------------------------------------------------------------------
// Oracle of one CLI run

pub struct Bad {
    pub sig: String,
    pub summary: String,
}

fn bad(kind: &str, place: &str, cause: String, summary: String) -> Bad {
    Bad {
        sig: format!("{kind} | {place} | {cause}"),
        summary,
    }
}

fn first_line(s: &str) -> String {
    s.lines().find(|l| !l.trim().is_empty()).unwrap_or("").trim().to_owned()
}

/// Renames `hash-<hex>` component names by order of first appearance.
fn canon_hash_names(text: &str) -> String {
    let mut names: Vec<String> = Vec::new();
    let mut out = String::with_capacity(text.len());
    let mut rest = text;
    while let Some(i) = rest.find("hash-") {
        out.push_str(&rest[..i]);
        let tail = &rest[i + 5..];
        let n = tail.find(|c: char| !c.is_ascii_hexdigit()).unwrap_or(tail.len());
        let name = &tail[..n];
        let k = match names.iter().position(|x| x == name) {
            Some(k) => k,
            None => {
                names.push(name.to_owned());
                names.len() - 1
            }
        };
        out.push_str(&format!("hash-#{k}"));
        rest = &tail[n..];
    }
    out.push_str(rest);
    out
}

struct WasmObs {
    ok: bool,
    api: String,
    error: String,
}

fn run_wasm(text: &str) -> Result<WasmObs, PanicInfo> {
    guard(|| {
        let r = oal_wasm::compile(text);
        WasmObs {
            ok: !r.api.is_empty() && r.error.is_empty(),
            api: r.api,
            error: r.error,
        }
    })
}

/// Runs the CLI on (program, configuration) in `dir` and checks the property.
/// Returns (tag, hash of the observation).
fn check_cli_case(dir: &TempDir, p: &Program, cfg: Cfg) -> Result<(&'static str, u64), Bad> {
    // once per accepted program: a target that can be opened and not written (/dev/full) must
    // make the run fail - success means the complete document is on the target
    if p.class == Class::Success && cfg.cli == 0 && cfg.base == 0 && !cfg.sentinel && Path::new("/dev/full").exists() {
        dir.reset();
        dir.write_modules(p);
        let s = |x: &str| x.to_owned();
        let run = run_cli(&[s("-m"), s("main.oal"), s("-t"), s("/dev/full")], &dir.0);
        if run.signal.is_some() || run.code != Some(1) || run.stderr.trim().is_empty() {
            return Err(bad(
                "cli-exit",
                "oal-cli",
                "no failure reported although the target cannot be written (/dev/full)".into(),
                format!("program {}: code {:?} signal {:?} stderr {:?}", p.name, run.code, run.signal, first_line(&run.stderr)),
            ));
        }
    }
    dir.reset();
    dir.write_modules(p);
    let d = &dir.0;
    let target = d.join("out.yaml");
    if cfg.sentinel {
        std::fs::write(&target, sentinel()).expect("write sentinel");
    }
    let base_name = match cfg.base {
        0 => None,
        1 => {
            std::fs::write(d.join("base.yaml"), VALID_BASE).unwrap();
            Some("base.yaml")
        }
        2 => {
            std::fs::write(d.join("base.yaml"), NOT_YAML).unwrap();
            Some("base.yaml")
        }
        3 => {
            std::fs::write(d.join("base.yaml"), NOT_OPENAPI).unwrap();
            Some("base.yaml")
        }
        _ => Some("nobase.yaml"),
    };
    let conf = d.join("oal.toml");
    let base_line = base_name.map(|b| format!("base = \"{b}\"\n")).unwrap_or_default();
    let s = |x: &str| x.to_owned();
    let (args, cwd): (Vec<String>, PathBuf) = match cfg.cli {
        0 => {
            let mut a = vec![s("-m"), s("main.oal"), s("-t"), s("out.yaml")];
            if let Some(b) = base_name {
                a.extend([s("-b"), s(b)]);
            }
            // a configuration file nobody asked for sits in the working directory
            std::fs::write(d.join("decoy-base.yaml"), VALID_BASE.replace("title: Base", "title: Decoy")).unwrap();
            std::fs::write(&conf, "[api]\nmain = \"nomain.oal\"\ntarget = \"decoy-out.yaml\"\nbase = \"decoy-base.yaml\"\n").unwrap();
            (a, d.clone())
        }
        4 => {
            // the configuration file named without any directory part, from its own directory
            std::fs::write(&conf, format!("[api]\nmain = \"main.oal\"\ntarget = \"out.yaml\"\n{base_line}")).unwrap();
            (vec![s("-c"), s("oal.toml")], d.clone())
        }
        1 => {
            std::fs::write(&conf, format!("[api]\nmain = \"main.oal\"\ntarget = \"out.yaml\"\n{base_line}")).unwrap();
            (vec![s("--conf"), conf.display().to_string()], d.join("elsewhere"))
        }
        2 => {
            std::fs::write(&conf, format!("[api]\nmain = \"nomain.oal\"\ntarget = \"conf-out.yaml\"\n{base_line}")).unwrap();
            (
                vec![s("--conf"), conf.display().to_string(), s("-m"), s("main.oal"), s("-t"), s("out.yaml")],
                d.join("elsewhere"),
            )
        }
        _ => (vec![s("-m"), s("nomain.oal"), s("-t"), s("out.yaml")], d.clone()),
    };

    let run = run_cli(&args, &cwd);
    let after = std::fs::read(&target).ok();
    let cname = p.class.name();
    let what = format!(
        "program {} [{}], cli {}, base {}, target {}",
        p.name,
        p.modules.iter().map(|(n, t)| format!("{n}: {t:?}")).collect::<Vec<_>>().join("; "),
        CLI_MODES[cfg.cli],
        BASES[cfg.base],
        if cfg.sentinel { "sentinel" } else { "absent" }
    );
    // With a non-existent main nothing of the program is ever read.
    let source_error = p.class != Class::Success && cfg.cli != 3;
    let config_error = cfg.cli == 3 || cfg.base >= 2;
    let expect_ok = !source_error && !config_error;
    let why_fail = if source_error { format!("a {cname} error") } else { "a configuration error".to_owned() };

    // exit status: 0 or 1, nothing else
    if run.signal.is_some() || !matches!(run.code, Some(0) | Some(1)) {
        return Err(bad(
            "cli-exit",
            "oal-cli",
            "abnormal termination (neither 0 nor 1)".into(),
            format!("{what}: code {:?} signal {:?} stderr {}", run.code, run.signal, first_line(&run.stderr)),
        ));
    }
    let ok = run.code == Some(0);
    if ok && !expect_ok {
        return Err(bad(
            "cli-exit",
            "oal-cli",
            format!("exit 0 on {why_fail}"),
            format!("{what}: exit 0, target {}", if after.is_some() { "exists" } else { "absent" }),
        ));
    }
    if !ok && expect_ok {
        return Err(bad(
            "cli-exit",
            "oal-cli",
            "failure on an accepted program with a valid configuration".into(),
            format!("{what}: exit 1, stderr {}", first_line(&run.stderr)),
        ));
    }
    if std::fs::read_dir(d.join("elsewhere")).map_or(false, |mut r| r.next().is_some()) {
        return Err(bad(
            "cli-target",
            "working directory",
            "a file was written relative to the working directory instead of the configuration file".into(),
            what,
        ));
    }
    if d.join("conf-out.yaml").exists() {
        return Err(bad(
            "cli-target",
            "configuration file target",
            "the target named by the configuration file was written although options override it".into(),
            what,
        ));
    }

    if !ok {
        // the target is what it was
        let untouched = match (&after, cfg.sentinel) {
            (None, false) => true,
            (Some(b), true) => b.as_slice() == sentinel().as_slice(),
            _ => false,
        };
        if !untouched {
            return Err(bad(
                "cli-target",
                "target file",
                format!("created or modified although the CLI failed on {why_fail}"),
                format!("{what}: exit 1, target now {:?}", after.map(|b| String::from_utf8_lossy(&b).chars().take(80).collect::<String>())),
            ));
        }
        if run.stderr.trim().is_empty() {
            return Err(bad("cli-diagnostic", "stderr", format!("nothing printed on {why_fail}"), what));
        }
        if source_error {
            // `<url of the module>:<line>:<column>` for an error with a place, the url of a
            // module of the cycle for an import cycle
            let located = |m: &str| {
                let pat = format!("/{m}:");
                run.stderr.match_indices(&pat).any(|(i, _)| {
                    run.stderr[i + pat.len()..].starts_with(|c: char| c.is_ascii_digit())
                })
            };
            let named = match &p.err_module {
                Some(m) => located(m),
                None => p.modules.iter().any(|(m, _)| run.stderr.contains(&format!("/{m}"))),
            };
            if !named {
                return Err(bad(
                    "cli-diagnostic",
                    "stderr",
                    format!("{cname} error reported without a location in the source module it is in"),
                    format!("{what}: expected module {:?}, stderr {:?}", p.err_module, run.stderr),
                ));
            }
            // ... and the line and column are those of the span the libraries attach to the
            // error (computed in-process on the very same texts, CRLF included)
            if let Some((m, line, col)) = expected_position(p) {
                let pat = format!("/{m}:{line}:{col}");
                let found = run.stderr.match_indices(&pat).any(|(i, _)| {
                    !run.stderr[i + pat.len()..].starts_with(|c: char| c.is_ascii_digit())
                });
                if !found && located(&m) {
                    return Err(bad(
                        "cli-diagnostic",
                        "stderr",
                        format!("{cname} error located at another line or column than the span of the error"),
                        format!("{what}: expected {m}:{line}:{col}, stderr {:?}", run.stderr.chars().take(300).collect::<String>()),
                    ));
                }
            }
        }
    }

    let mut obs = (cname, cfg.cli, cfg.base, cfg.sentinel, ok, first_line(&run.stderr).replace(&dir.url_root(), ""), 0u64);

    if ok {
        // the target holds the complete document
        let text = after
            .as_ref()
            .and_then(|b| String::from_utf8(b.clone()).ok())
            .ok_or_else(|| bad("cli-target", "target file", "exit 0 but no target text".into(), what.clone()))?;
        if serde_yaml::from_str::<openapiv3::OpenAPI>(&text).is_err() {
            return Err(bad(
                "cli-target",
                "target file",
                "exit 0 but the target is not a complete OpenAPI document".into(),
                format!("{what}: target {:?}", text.chars().take(200).collect::<String>()),
            ));
        }
        let got: Y = serde_yaml::from_str(&text).map_err(|e| bad("cli-target", "target file", "not YAML".into(), format!("{what}: {e}")))?;
        // reference: the libraries on the same module URLs
        let mods = mem_modules(p, &dir.url_root());
        let spec = match library_front_end(&mods) {
            Ok((_, Some(spec))) => spec,
            Ok((c, None)) => {
                return Err(bad(
                    "frontends",
                    "library pipeline",
                    "the CLI accepts a program that the libraries reject".into(),
                    format!("{what}: libraries say {c}"),
                ))
            }
            Err(pi) => {
                return Err(bad("panic", &panic_site(&pi), "library pipeline on an accepted program".into(), format!("{what}: {}", pi.message)))
            }
        };
        let reference = guard(|| {
            let mut b = oal_openapi::Builder::new(spec);
            if cfg.base == 1 {
                b = b.with_base(serde_yaml::from_str(VALID_BASE).expect("valid base"));
            }
            serde_yaml::to_string(&b.into_openapi()).expect("print")
        })
        .map_err(|pi| bad("panic", &panic_site(&pi), "Builder on an accepted program".into(), format!("{what}: {}", pi.message)))?;
        let want: Y = serde_yaml::from_str(&reference).expect("reference is YAML");
        if got != want {
            return Err(bad(
                "cli-target",
                "target file",
                "the written document differs from the in-process Builder's".into(),
                format!("{what}: target {text:?} reference {reference:?}"),
            ));
        }
        obs.6 = hash_of(&canon_hash_names(&text));
    }

    // the playground entry point on single-module sources, without a base
    if p.modules.len() == 1 && cfg.cli == 0 && cfg.base == 0 {
        let w = run_wasm(&p.modules[0].1)
            .map_err(|pi| bad("panic", &panic_site(&pi), "oal_wasm::compile".into(), format!("{what}: {}", pi.message)))?;
        if !w.ok && !(w.api.is_empty() && !w.error.is_empty()) {
            return Err(bad(
                "frontends",
                "oal_wasm::compile",
                "result is neither a document nor an error".into(),
                format!("{what}: api {:?} error {:?}", w.api, w.error),
            ));
        }
        if w.ok != ok {
            return Err(bad(
                "frontends",
                "oal_wasm::compile",
                format!("the CLI and the playground disagree on acceptance ({cname})"),
                format!("{what}: cli exit {:?}, playground {}", run.code, if w.ok { "ok".to_owned() } else { first_line(&w.error) }),
            ));
        }
        if ok {
            let text = String::from_utf8_lossy(after.as_ref().unwrap()).to_string();
            let a: Y = serde_yaml::from_str(&canon_hash_names(&text)).expect("yaml");
            let b: Y = serde_yaml::from_str(&canon_hash_names(&w.api))
                .map_err(|e| bad("frontends", "oal_wasm::compile", "api is not YAML".into(), format!("{what}: {e}")))?;
            if a != b {
                return Err(bad(
                    "frontends",
                    "oal_wasm::compile",
                    "the CLI and the playground produce different documents".into(),
                    format!("{what}: cli {text:?} playground {:?}", w.api),
                ));
            }
        }
    }

    let tag = if ok {
        "written"
    } else if source_error {
        "failed-source-error"
    } else {
        "failed-config-error"
    };
    Ok((tag, hash_of(&obs)))
}

// ---------------------------------------------------------------------------
// Minimal blocking LSP client (private to this engine)

struct Lsp {
    child: Child,
    stdin: ChildStdin,
    rx: mpsc::Receiver<Option<Value>>,
}

impl Lsp {
    fn spawn() -> std::io::Result<Lsp> {
        let mut child = Command::new(lsp_path())
            .env_remove("RUST_BACKTRACE")
            .stdin(Stdio::piped())
            .stdout(Stdio::piped())
            .stderr(Stdio::null())
            .spawn()?;
        let stdin = child.stdin.take().unwrap();
        let stdout = child.stdout.take().unwrap();
        let (tx, rx) = mpsc::channel();
        std::thread::spawn(move || {
            let mut rd = BufReader::new(stdout);
            loop {
                let mut len = None;
                loop {
                    let mut line = String::new();
                    match rd.read_line(&mut line) {
                        Ok(0) | Err(_) => {
                            let _ = tx.send(None);
                            return;
                        }
                        Ok(_) => {}
                    }
                    let l = line.trim_end();
                    if l.is_empty() {
                        break;
                    }
                    if let Some(v) = l.to_ascii_lowercase().strip_prefix("content-length:") {
                        len = v.trim().parse::<usize>().ok();
                    }
                }
                let Some(n) = len else {
                    let _ = tx.send(None);
                    return;
                };
                let mut buf = vec![0u8; n];
                if rd.read_exact(&mut buf).is_err() {
                    let _ = tx.send(None);
                    return;
                }
                let v = serde_json::from_slice::<Value>(&buf).unwrap_or(Value::Null);
                if tx.send(Some(v)).is_err() {
                    return;
                }
            }
        });
        Ok(Lsp { child, stdin, rx })
    }

    fn send(&mut self, v: &Value) -> Result<(), String> {
        let body = serde_json::to_vec(v).unwrap();
        let r = write!(self.stdin, "Content-Length: {}\r\n\r\n", body.len())
            .and_then(|_| self.stdin.write_all(&body))
            .and_then(|_| self.stdin.flush());
        r.map_err(|e| format!("cannot write to the server: {e}"))
    }

    /// Sends a request and waits for its response; returns the response and appends the
    /// notifications received in the meantime to `notes`.
    fn request(&mut self, id: u64, method: &str, params: Value, notes: &mut Vec<Value>) -> Result<Value, String> {
        self.send(&json!({"jsonrpc": "2.0", "id": id, "method": method, "params": params}))?;
        loop {
            match self.rx.recv_timeout(Duration::from_secs(20)) {
                Err(_) => return Err(format!("no response to {method} within 20 s")),
                Ok(None) => return Err(format!("the server closed its output before answering {method}")),
                Ok(Some(m)) => {
                    if m.get("id").and_then(Value::as_u64) == Some(id) && m.get("method").is_none() {
                        return Ok(m);
                    }
                    notes.push(m);
                }
            }
        }
    }
}

impl Drop for Lsp {
    fn drop(&mut self) {
        let _ = self.child.kill();
        let _ = self.child.wait();
    }
}

/// One synchronisation with the real server on a workspace folder: returns the number of
/// diagnostics published (over all URIs) before the first request was answered.
/// What a client sees of the diagnostics: the last publication per URI.
fn final_count(notes: &[Value]) -> u64 {
    let mut last: std::collections::BTreeMap<String, u64> = Default::default();
    for m in notes.iter().filter(|m| m["method"] == "textDocument/publishDiagnostics") {
        let uri = m["params"]["uri"].as_str().unwrap_or("").to_owned();
        last.insert(uri, m["params"]["diagnostics"].as_array().map_or(0, |a| a.len() as u64));
    }
    last.values().sum()
}

/// A session with the real server on a workspace folder. Returns the number of diagnostics a
/// client sees (last publication per URI) (1) after the first request, (2) after main.oal was
/// opened with its own text and a second request (a second evaluation of unchanged sources),
/// and, when `delete` names a module file, (3) after that file was removed from disk,
/// main.oal was changed to its own text again and a third request was answered.
fn lsp_diagnostics(dir: &TempDir, main_text: &str, delete: Option<&str>) -> Result<(u64, u64, Option<u64>), String> {
    let mut lsp = Lsp::spawn().map_err(|e| format!("cannot spawn oal-lsp (set OAL_LSP): {e}"))?;
    let mut notes = Vec::new();
    let folder = url::Url::from_directory_path(&dir.0).expect("directory url").to_string().trim_end_matches('/').to_owned();
    lsp.request(
        1,
        "initialize",
        json!({"processId": null, "rootUri": null,
               "capabilities": {"general": {"positionEncodings": ["utf-16"]}},
               "workspaceFolders": [{"uri": folder, "name": "w"}]}),
        &mut notes,
    )?;
    lsp.send(&json!({"jsonrpc": "2.0", "method": "initialized", "params": {}}))?;
    // The server refreshes and publishes diagnostics before it answers any request.
    let def = |id: u64| (id, "textDocument/definition", json!({"textDocument": {"uri": format!("{folder}/main.oal")}, "position": {"line": 0, "character": 0}}));
    let (id, m, p) = def(2);
    lsp.request(id, m, p, &mut notes)?;
    let first = final_count(&notes);
    lsp.send(&json!({"jsonrpc": "2.0", "method": "textDocument/didOpen", "params": {"textDocument": {"uri": format!("{folder}/main.oal"), "languageId": "oal", "version": 1, "text": main_text}}}))?;
    let (id, m, p) = def(3);
    lsp.request(id, m, p, &mut notes)?;
    let second = final_count(&notes);
    let mut third = None;
    if let Some(file) = delete {
        std::fs::remove_file(dir.0.join(file)).map_err(|e| format!("harness: cannot remove {file}: {e}"))?;
        lsp.send(&json!({"jsonrpc": "2.0", "method": "textDocument/didChange", "params": {"textDocument": {"uri": format!("{folder}/main.oal"), "version": 2}, "contentChanges": [{"text": main_text}]}}))?;
        let (id, m, p) = def(4);
        lsp.request(id, m, p, &mut notes)?;
        third = Some(final_count(&notes));
    }
    Ok((first, second, third))
}

fn check_lsp_case(dir: &TempDir, p: &Program) -> Result<(&'static str, u64), Bad> {
    dir.reset();
    dir.write_modules(p);
    std::fs::write(dir.0.join("oal.toml"), "[api]\nmain = \"main.oal\"\ntarget = \"out.yaml\"\n").unwrap();
    let what = format!(
        "program {} [{}]",
        p.name,
        p.modules.iter().map(|(n, t)| format!("{n}: {t:?}")).collect::<Vec<_>>().join("; ")
    );
    let s = |x: &str| x.to_owned();
    let run = run_cli(&[s("-m"), s("main.oal"), s("-t"), s("out.yaml")], &dir.0);
    if run.signal.is_some() || !matches!(run.code, Some(0) | Some(1)) {
        return Err(bad("cli-exit", "oal-cli", "abnormal termination (neither 0 nor 1)".into(), format!("{what}: {:?} {:?}", run.code, run.signal)));
    }
    let cli_failed = run.code != Some(0);
    let _ = std::fs::remove_file(dir.0.join("out.yaml"));
    // A silent server is tried a second time before it is reported (machine load).
    // An accepted program with an imported module: the module is deleted from disk in a third
    // step (the CLI then fails on the missing import).
    let delete: Option<String> = (!cli_failed && p.modules.len() > 1).then(|| p.modules[1].0.clone());
    let main_text = p.modules[0].1.clone();
    let session = |dir: &TempDir| {
        dir.write_modules(p);
        lsp_diagnostics(dir, &main_text, delete.as_deref())
    };
    let (n, n2, n3) = session(dir)
        .or_else(|_| session(dir))
        .map_err(|e| bad("lsp", "oal-lsp", "the server does not answer".into(), format!("{what}: {e}")))?;
    if (n > 0) != (n2 > 0) {
        return Err(bad(
            "frontends",
            "oal-lsp",
            format!("the diagnostics a client sees change after a second evaluation of unchanged sources ({})", p.class.name()),
            format!("{what}: {n} diagnostics after the first request, {n2} after didOpen of main.oal with its own text"),
        ));
    }
    if let Some(0) = n3 {
        return Err(bad(
            "frontends",
            "oal-lsp",
            "no diagnostic published after an imported module was removed from disk (the CLI reports the missing import)".into(),
            format!("{what}: removed {:?}, re-sent main.oal, 0 diagnostics", delete),
        ));
    }
    if cli_failed && n == 0 {
        return Err(bad(
            "frontends",
            "oal-lsp",
            format!("no diagnostic published although the CLI fails ({})", p.class.name()),
            format!("{what}: cli stderr {}", first_line(&run.stderr)),
        ));
    }
    if !cli_failed && n > 0 {
        return Err(bad(
            "frontends",
            "oal-lsp",
            format!("diagnostics published although the CLI succeeds ({})", p.class.name()),
            format!("{what}: {n} diagnostics"),
        ));
    }
    Ok((
        if n > 0 { "lsp-diagnostics" } else { "lsp-clean" },
        hash_of(&("lsp", p.class.name(), n, cli_failed)),
    ))
}

/// One single-module program per class (its first fragment, alone in main.oal).
fn folder_menu() -> Vec<Program> {
    let mut seen = std::collections::BTreeSet::new();
    programs(1, 1)
        .into_iter()
        .filter(|p| p.modules.len() == 1 && seen.insert(p.class.name()))
        .collect()
}

/// Two workspace folders `a` and `b` in one server: each program gets at least one
/// diagnostic exactly when it is not accepted, whatever the other folder holds.
fn check_two_folders(dir: &TempDir, a: &Program, b: &Program) -> Result<u64, Bad> {
    dir.reset();
    let mut roots = Vec::new();
    for (name, p) in [("a", a), ("b", b)] {
        let d = dir.0.join(name);
        std::fs::create_dir_all(&d).expect("folder");
        for (n, t) in &p.modules {
            std::fs::write(d.join(n), t).expect("write module");
        }
        std::fs::write(d.join("oal.toml"), "[api]\nmain = \"main.oal\"\ntarget = \"out.yaml\"\n").unwrap();
        roots.push(url::Url::from_directory_path(&d).expect("directory url").to_string().trim_end_matches('/').to_owned());
    }
    let what = format!("folder a: {} {:?}; folder b: {} {:?}", a.name, a.modules, b.name, b.modules);
    let run = |roots: &[String]| -> Result<Vec<u64>, String> {
        let mut lsp = Lsp::spawn().map_err(|e| format!("cannot spawn oal-lsp (set OAL_LSP): {e}"))?;
        let mut notes = Vec::new();
        lsp.request(
            1,
            "initialize",
            json!({"processId": null, "rootUri": null,
                   "capabilities": {"general": {"positionEncodings": ["utf-16"]}},
                   "workspaceFolders": roots.iter().enumerate().map(|(i, r)| json!({"uri": r, "name": format!("w{i}")})).collect::<Vec<_>>()}),
            &mut notes,
        )?;
        lsp.send(&json!({"jsonrpc": "2.0", "method": "initialized", "params": {}}))?;
        lsp.request(
            2,
            "textDocument/definition",
            json!({"textDocument": {"uri": format!("{}/main.oal", roots[0])}, "position": {"line": 0, "character": 0}}),
            &mut notes,
        )?;
        // What the editor shows in the end: the last publication for every document.
        let mut last: std::collections::BTreeMap<String, u64> = Default::default();
        for m in notes.iter().filter(|m| m["method"] == "textDocument/publishDiagnostics") {
            if let Some(u) = m["params"]["uri"].as_str() {
                last.insert(u.to_owned(), m["params"]["diagnostics"].as_array().map_or(0, |x| x.len() as u64));
            }
        }
        Ok(roots
            .iter()
            .map(|r| last.iter().filter(|(u, _)| u.starts_with(&format!("{r}/"))).map(|(_, n)| *n).sum())
            .collect())
    };
    let counts = run(&roots).or_else(|_| run(&roots)).map_err(|e| bad("lsp", "oal-lsp", "the server does not answer".into(), format!("{what}: {e}")))?;
    for ((name, p), n) in [("a", a), ("b", b)].iter().zip(counts.iter()) {
        let fails = p.class.name() != "success";
        if fails && *n == 0 {
            return Err(bad(
                "frontends",
                "oal-lsp",
                format!("no diagnostic published for a rejected program ({}) when the server has two workspace folders", p.class.name()),
                format!("{what}: folder {name} got {n} diagnostics (counts {counts:?})"),
            ));
        }
        if !fails && *n > 0 {
            return Err(bad(
                "frontends",
                "oal-lsp",
                "diagnostics published for an accepted program when the server has two workspace folders".into(),
                format!("{what}: folder {name} got {n} diagnostics (counts {counts:?})"),
            ));
        }
    }
    Ok(hash_of(&("lsp2", a.class.name(), b.class.name(), counts)))
}

/// The libraries place every program of the matrix in the class it was written for.
fn check_table_case(p: &Program) -> Result<(&'static str, u64), Bad> {
    let mods = mem_modules(p, "file:///");
    match library_front_end(&mods) {
        Ok((c, _)) if c == p.class.name() => Ok((
            if c == "success" { "table-accepted" } else { "table-rejected" },
            hash_of(&("table", c)),
        )),
        Ok((c, _)) => Err(bad(
            "program-matrix",
            "library pipeline",
            format!("a program written for class {} lands in another class", p.class.name()),
            format!("program {} {:?}: libraries say {c}", p.name, p.modules),
        )),
        Err(pi) => Err(bad("panic", &panic_site(&pi), format!("library pipeline ({})", p.class.name()), format!("program {} {:?}: {}", p.name, p.modules, pi.message))),
    }
}

// ---------------------------------------------------------------------------
// Cases

fn describe(kind: &str, p: &Program, cfg: Option<Cfg>) -> Value {
    json!({
        "kind": kind,
        "class": p.class.name(),
        "program": p.name,
        "modules": p.modules.iter().map(|(n, t)| json!([n, t])).collect::<Vec<_>>(),
        "err_module": p.err_module,
        "cfg": cfg.map(|c| json!({"cli": CLI_MODES[c.cli], "base": BASES[c.base], "sentinel": c.sentinel})),
    })
}

fn case_of(v: &Value) -> (String, Program, Option<Cfg>) {
    let p = Program {
        class: Class::parse(v["class"].as_str().unwrap_or("")),
        name: v["program"].as_str().unwrap_or("?").to_owned(),
        modules: v["modules"]
            .as_array()
            .map(|a| {
                a.iter()
                    .map(|m| (m[0].as_str().unwrap_or("").to_owned(), m[1].as_str().unwrap_or("").to_owned()))
                    .collect()
            })
            .unwrap_or_default(),
        err_module: v["err_module"].as_str().map(str::to_owned),
    };
    let cfg = v["cfg"].as_object().map(|c| Cfg {
        cli: CLI_MODES.iter().position(|m| Some(*m) == c["cli"].as_str()).unwrap_or(0),
        base: BASES.iter().position(|m| Some(*m) == c["base"].as_str()).unwrap_or(0),
        sentinel: c["sentinel"].as_bool().unwrap_or(false),
    });
    (v["kind"].as_str().unwrap_or("cli").to_owned(), p, cfg)
}

fn run_one(kind: &str, dir: Option<&TempDir>, p: &Program, cfg: Option<Cfg>) -> Result<(&'static str, u64), Bad> {
    match kind {
        "table" => check_table_case(p),
        "lsp" => check_lsp_case(dir.expect("scratch"), p),
        _ => check_cli_case(dir.expect("scratch"), p, cfg.expect("configuration")),
    }
}

impl Engine for C13 {
    fn id(&self) -> &'static str {
        "C13"
    }
    fn engine_name(&self) -> &'static str {
        "frontends"
    }
    fn phases(&self, tier: Tier) -> Vec<Phase> {
        let (nfrag, nembed, reduced) = match tier {
            Tier::Quick => (4, 7, true),
            Tier::Thorough => (99, 10, false),
        };
        let par = |kind: &str| json!({"kind": kind, "fragments": nfrag, "embeddings": nembed, "reduced": reduced});
        vec![
            Phase::new("program matrix through the libraries (class of every program)", par("table")),
            Phase::new("oal-cli: program x configuration matrix (+ oal_wasm on single-module sources)", par("cli")).workers(8),
            Phase::new("oal-lsp vs oal-cli: one synchronisation per program", par("lsp")).workers(8),
            Phase::new("oal-lsp with two workspace folders: every ordered pair of one single-module program per class", par("lsp2")).workers(8),
        ]
    }
    fn run_phase(&self, phase: &Phase, sink: &mut Sink) {
        if phase.param["kind"] == "lsp2" {
            let menu = folder_menu();
            let dir = matches!(sink.mode, Mode::Run | Mode::Only(_)).then(|| TempDir::new("c13f-"));
            let mut idx = 0u64;
            for a in menu.iter() {
                for b in menu.iter() {
                    if sink.mine(idx) {
                        if sink.expired() {
                            return;
                        }
                        sink.visit(
                            idx,
                            || json!({"kind": "lsp2", "a": describe("lsp", a, None), "b": describe("lsp", b, None)}),
                            |s| match check_two_folders(dir.as_ref().expect("scratch"), a, b) {
                                Ok(h) => {
                                    s.count("states", 1);
                                    s.count("transitions", 1);
                                    Outcome::ok("two folders: each gets its diagnostics", Some(h))
                                }
                                Err(bd) => Outcome::bad("violated", bd.sig, bd.summary, Value::Null),
                            },
                        );
                    }
                    idx += 1;
                }
            }
            return;
        }
        let kind = phase.param["kind"].as_str().unwrap().to_owned();
        let progs = programs(
            phase.param["fragments"].as_u64().unwrap() as usize,
            phase.param["embeddings"].as_u64().unwrap() as usize,
        );
        let cfgs: Vec<Option<Cfg>> = if kind == "cli" {
            configs(phase.param["reduced"].as_bool().unwrap()).into_iter().map(Some).collect()
        } else {
            vec![None]
        };
        let dir = (kind != "table" && matches!(sink.mode, Mode::Run)).then(|| TempDir::new("c13-"));
        let mut idx = 0u64;
        'all: for p in &progs {
            for cfg in &cfgs {
                if sink.expired() {
                    break 'all;
                }
                sink.visit(
                    idx,
                    || describe(&kind, p, *cfg),
                    |s| match run_one(&kind, dir.as_ref(), p, *cfg) {
                        Ok((tag, h)) => {
                            s.count("states", 1);
                            s.count(
                                "transitions",
                                match kind.as_str() {
                                    "table" => 0,
                                    "lsp" => 2,
                                    _ => 1,
                                },
                            );
                            Outcome::ok(tag, Some(h))
                        }
                        Err(b) => Outcome::bad("violated", b.sig, b.summary, Value::Null),
                    },
                );
                idx += 1;
            }
        }
    }
    fn replay(&self, case: &Value) -> Outcome {
        if case["kind"] == "lsp2" {
            let (_, a, _) = case_of(&case["a"]);
            let (_, b, _) = case_of(&case["b"]);
            let dir = TempDir::new("c13fr-");
            return match check_two_folders(&dir, &a, &b) {
                Ok(_) => Outcome::ok("two folders: each gets its diagnostics", None),
                Err(bd) => Outcome::bad("violated", bd.sig, bd.summary, case.clone()),
            };
        }
        let (kind, p, cfg) = case_of(case);
        let dir = (kind != "table").then(|| TempDir::new("c13r-"));
        match run_one(&kind, dir.as_ref(), &p, cfg) {
            Ok((tag, _)) => Outcome::ok(tag, None),
            Err(b) => Outcome::bad("violated", b.sig, b.summary, case.clone()),
        }
    }
    fn rule(&self) -> String {
        "programs: for success and each failure class {lexical, syntax, unbound, duplicate, kind-mismatch, infinite-type, bad-recursion, status-literal, annotation-yaml} hand-written fragments (declarations holding the error + the statements of main that use them; quick: the first 4 per class, thorough: all 4-9) in every embedding (quick: main, after valid code with multi-byte text, imported module, qualified import, CRLF, the error at the very end of a text without final newline, main holding the error and importing a module that is fine; thorough also: before valid code, module with its own import, bottom of a diamond), plus 9 missing-import and 8 import-cycle programs on 1-3 modules; lexical and syntax fragments include ones whose residual tree is complete. Phase 1 places every program in its class with the libraries (module::load + compile + eval over an in-memory loader). Phase 2 runs the real oal-cli on program x {options only (cwd = sources, where an oal.toml naming another main, target and base lies unused), --conf only (cwd elsewhere), conf naming a wrong main and target overridden by options, non-existent main, -c oal.toml as a bare file name from its own directory} x base {none, valid, not YAML, YAML but not an OpenAPI object, missing file} x target {absent, sentinel bytes} (and once per accepted program the target /dev/full, which must make the run fail): exit status must be 0 exactly for an accepted program with a valid configuration and 1 otherwise (never a signal or another code); on 0 the target parses as openapiv3::OpenAPI and equals, as YAML values, the document of the in-process libraries on the same module URLs (Builder::with_base for the valid base); on 1 the target is byte-identical to what it was (or still absent), stderr is not empty and, for an error in the sources, carries `<url of the module the error is in>:<line>:<column>` with the line and column of the span the libraries attach to the error (for an import cycle: the url of any module of the program); for single-module sources without base oal_wasm::compile succeeds iff the CLI does and gives the same document up to hash-* names (they digest the module URL). Phase 4 starts one oal-lsp on two workspace folders holding every ordered pair of one single-module program per class: each folder gets >= 1 diagnostic iff its program is rejected. Phase 3 starts the real oal-lsp on the sources as a workspace folder with oal.toml, initialises, sends one request and counts the diagnostics a client sees (last publication per URI): >= 1 iff the CLI (options only, no base) fails; the same after main.oal is opened with its own text and a second request (a second evaluation of unchanged sources); and for an accepted program with imports >= 1 after the first imported module was removed from disk and main.oal re-sent. distinct = distinct (class, configuration, exit, first stderr line, document) observations. states = (program, configuration) pairs, transitions = process runs".into()
    }
    fn assumptions(&self) -> Vec<String> {
        vec![
            "the expected verdict of a program comes from the hand-written class table, not from the subject; phase 1 shows that the libraries agree with the table".into(),
            "a base that cannot be loaded is a configuration error met after evaluation and before writing: required are exit 1, an untouched target and a message; a source error takes precedence over it".into(),
            "declarations with an invalid annotation or status literal that no resource uses are not evaluated by any front end and are not errors; the fragments of these classes are always used by a resource of main".into(),
            "hash-* component names digest the module URL, so the CLI and the playground are compared up to a renaming of hash-* names by order of first appearance; against the in-process libraries (same URLs) the comparison is literal".into(),
            "the diagnostic of an import cycle is not required to name a particular module of the cycle, nor a position".into(),
            "the LSP is observed through one request used as a synchronisation point; the 1 s idle refresh runs the same refresh function".into(),
        ]
    }
    fn budget_s(&self, tier: Tier) -> u64 {
        match tier {
            Tier::Quick => 60,
            Tier::Thorough => 1500,
        }
    }
    fn case_budget_ms(&self) -> u64 {
        60_000
    }
    fn state_counters(&self, m: &Stats) -> Option<(u64, u64, u64)> {
        let s = *m.counters.get("states").unwrap_or(&0);
        let t = *m.counters.get("transitions").unwrap_or(&0);
        Some((s, t, t))
    }
}
