use crate::explore::Engine;

pub mod c01;
pub mod c02;
pub mod c03;
pub mod c04;
pub mod c05;
pub mod c06;
pub mod c07;
pub mod c07_programs;
pub mod c08;
pub mod c09;
pub mod c10;
pub mod c11;
pub mod c12;
pub mod c13;
pub mod c14;
pub mod c15;
pub mod c16;
pub mod c17;
pub mod c18;

pub fn all() -> Vec<&'static dyn Engine> {
    vec![&c01::C01, &c02::C02, &c03::C03, &c04::C04, &c05::C05, &c06::C06, &c07::C07, &c08::C08, &c09::C09, &c10::C10, &c11::C11, &c12::C12, &c13::C13, &c14::C14, &c15::C15, &c16::C16, &c17::C17, &c18::C18]
}
