use crate::explore::Engine;

pub mod c16;

pub fn all() -> Vec<&'static dyn Engine> {
    vec![&c16::C16]
}
