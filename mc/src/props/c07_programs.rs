//! C07, part (2): whole programs under all permutations of their statements and two
//! consistent renamings of their identifiers. Accept/reject and the class of the error
//! must not change, and must coincide with the verdict of the reference kind checker
//! (names resolved lexically, constraints solved by a Robinson unifier, kind predicates,
//! cycle rule).

use crate::explore::*;
use crate::frags;
use crate::gen::*;
use crate::kinds::{self, Verdict};
use crate::pipeline;
use crate::props::c02;
use crate::rewrite;
use crate::space;
use serde_json::{json, Value};
use std::collections::BTreeMap;

pub fn phases(tier: Tier) -> Vec<Phase> {
    let mut v = vec![
        Phase::new("programs: kind-agnostic expressions of <=2 constructors x 28 contexts, all statement orders x 3 namings", json!({"kind":"programs","space":"agnostic","k":2})),
        Phase::new("programs: fragments F5 (scoping), F6 (recursion, 2 declarations), F10 (collisions, repeated content tags), F7 (@references), F3 (transfers), F8 (modules), all statement orders x 3 namings", json!({"kind":"programs","space":"frags"})),
    ];
    v.push(Phase::new("programs: kind-agnostic expressions of 3 constructors in the never-applied-function context, all statement orders x 3 namings", json!({"kind":"programs","space":"agnostic","k":3,"only_context":26})));
    if tier == Tier::Thorough {
        v.push(Phase::new("programs: kind-agnostic expressions of 3 constructors x 28 contexts, all statement orders x 3 namings", json!({"kind":"programs","space":"agnostic","k":3})));
    }
    v
}

fn verdict_class(files: &BTreeMap<String, String>) -> Result<String, PanicInfo> {
    match guard(|| pipeline::load(files, "main.oal")) {
        Err(p) => Err(p),
        Ok(Ok(_)) => Ok("Accept".into()),
        Ok(Err(e)) => Ok(e.class().to_owned()),
    }
}

fn permutations(n: usize) -> Vec<Vec<usize>> {
    fn go(cur: &mut Vec<usize>, used: &mut Vec<bool>, n: usize, out: &mut Vec<Vec<usize>>) {
        if cur.len() == n {
            out.push(cur.clone());
            return;
        }
        for i in 0..n {
            if !used[i] {
                used[i] = true;
                cur.push(i);
                go(cur, used, n, out);
                cur.pop();
                used[i] = false;
            }
        }
    }
    if n > 4 {
        // identity, reversal, rotations and adjacent transpositions
        let id: Vec<usize> = (0..n).collect();
        let mut out = vec![id.clone(), id.iter().rev().cloned().collect()];
        for r in 1..n {
            out.push((0..n).map(|i| (i + r) % n).collect());
        }
        for i in 0..n - 1 {
            let mut p = id.clone();
            p.swap(i, i + 1);
            out.push(p);
        }
        return out;
    }
    let mut out = Vec::new();
    go(&mut Vec::new(), &mut vec![false; n], n, &mut out);
    out
}

/// The two consistent renamings: (1) every identifier gets a fresh long name by first
/// occurrence, (2) the identifiers are permuted among themselves (a rotation of the sorted
/// name list), so that names collide with former names of other things.
fn renamings(p: &Program) -> Vec<Program> {
    let printed = print(p);
    let mut names: Vec<String> = Vec::new();
    for o in printed.occs.iter() {
        let bare = o.text.trim_start_matches('@').to_owned();
        if bare != "concat" && !names.contains(&bare) {
            names.push(bare);
        }
    }
    if names.is_empty() {
        return vec![];
    }
    let fresh: BTreeMap<String, String> = names.iter().enumerate().map(|(i, n)| (n.clone(), format!("id_{i}-x"))).collect();
    let mut sorted = names.clone();
    sorted.sort();
    let rot: BTreeMap<String, String> = sorted
        .iter()
        .enumerate()
        .map(|(i, n)| (n.clone(), sorted[(i + 1) % sorted.len()].clone()))
        .collect();
    let apply = |m: &BTreeMap<String, String>| {
        rewrite::rename_occs(p, &|i| {
            let t = &printed.occs[i].text;
            let (at, bare) = match t.strip_prefix('@') {
                Some(b) => ("@", b),
                None => ("", t.as_str()),
            };
            m.get(bare).map(|n| format!("{at}{n}"))
        })
    };
    let mut out = vec![apply(&fresh)];
    if sorted.len() > 1 {
        out.push(apply(&rot));
    }
    out
}

pub fn judge(p: &Program) -> Outcome {
    judge_in(p, false)
}

/// `by_construction`: the program belongs to a fragment whose members are all well-kinded by
/// construction; where the reference kind checker has no verdict (several modules), that is
/// the expected one.
pub fn judge_in(p: &Program, by_construction: bool) -> Outcome {
    let case = || {
        let mut v = c02::program_json(p, &print(p).texts);
        v["kind"] = json!("programs");
        v["well_kinded_by_construction"] = json!(by_construction);
        v
    };
    let base_files = pipeline::files_of(&print(p).texts);
    let base = match verdict_class(&base_files) {
        Ok(c) => c,
        Err(_) => return Outcome::ok("compile-panic (C04)", None),
    };
    // coincidence with solvability (single-module programs)
    let reference = kinds::verdict(p);
    let expected = match &reference {
        Verdict::Accept => Some("Accept"),
        Verdict::NotInScope => Some("NotInScope"),
        Verdict::Duplicate => Some("InvalidIdentifier"),
        Verdict::InvalidType(_) => Some("InvalidType"),
        Verdict::Unsupported(_) if by_construction && p.modules.len() > 1 && {
            let printed = print(p);
            let r = crate::refsem::resolve(p, &printed);
            !r.unbound && !r.duplicates && r.unspecified.is_none() && !r.decl_vs_import
        } =>
        {
            Some("Accept")
        }
        Verdict::Unsupported(_) => None,
    };
    if let Some(exp) = expected {
        if exp != base {
            return Outcome::bad(
                "verdict differs from solvability",
                format!("verdict {base} | reference {exp}"),
                format!("compiler: {base}; reference kind checker: {reference:?}"),
                case(),
            );
        }
    }
    // all statement orders x namings
    let mut variants = 0u64;
    let mut namings = vec![p.clone()];
    namings.extend(renamings(p));
    for (ni, q) in namings.iter().enumerate() {
        for mi in 0..q.modules.len() {
            let n = q.modules[mi].stmts.len();
            for perm in permutations(n) {
                if ni == 0 && perm.iter().enumerate().all(|(i, j)| i == *j) && mi == 0 {
                    continue;
                }
                let mut r = q.clone();
                r.modules[mi].stmts = perm.iter().map(|j| q.modules[mi].stmts[*j].clone()).collect();
                let texts = print(&r).texts;
                variants += 1;
                match verdict_class(&pipeline::files_of(&texts)) {
                    Err(pi) => {
                        return Outcome::bad(
                            "variant-panic",
                            format!("panic on a permuted / renamed variant | {}", panic_site(&pi)),
                            pi.message.chars().take(200).collect(),
                            c02::program_json(&r, &texts),
                        )
                    }
                    Ok(c) if c != base => {
                        let what = if ni == 0 { "order of statements" } else { "spelling of identifiers" };
                        let mut v = c02::program_json(&r, &texts);
                        v["kind"] = json!("programs-variant");
                        v["original"] = case();
                        return Outcome::bad(
                            "verdict depends on order or names",
                            format!("verdict depends on the {what} | {base} vs {c}"),
                            format!("original: {base}; variant ({what}, permutation {perm:?} of module {mi}): {c}"),
                            v,
                        );
                    }
                    _ => {}
                }
            }
        }
    }
    let _ = variants;
    Outcome::ok(
        if base == "Accept" { "accepted under every order and naming" } else { "rejected alike under every order and naming" },
        Some(hash_of(&(base, print(p).texts))),
    )
}

pub fn run(phase: &Phase, sink: &mut Sink) {
    match phase.param["space"].as_str().unwrap() {
        "agnostic" => {
            let k = phase.param["k"].as_u64().unwrap() as usize;
            let all = space::agnostic_exprs(k);
            let sizes: Vec<usize> = if k == 2 { vec![1, 2] } else { vec![k] };
            let only = phase.param["only_context"].as_u64().map(|c| c as usize);
            let mut idx = 0u64;
            for s in sizes {
                for e in all[s].iter() {
                    for c in 0..space::N_CONTEXTS {
                        if only.map_or(false, |o| o != c) {
                            continue;
                        }
                        if sink.mine(idx) {
                            if sink.expired() {
                                return;
                            }
                            let p = space::context(c, e);
                            sink.visit(
                                idx,
                                || {
                                    let mut v = c02::program_json(&p, &print(&p).texts);
                                    v["kind"] = json!("programs");
                                    v
                                },
                                |_| judge(&p),
                            );
                        }
                        idx += 1;
                    }
                }
            }
        }
        _ => {
            let mut idx = 0u64;
            for f in [4usize, 5, 9, 6, 2, 7] {
                let frag = frags::fragment(f, false);
                for p in frag.programs.iter() {
                    if sink.mine(idx) {
                        if sink.expired() {
                            return;
                        }
                        sink.visit(
                            idx,
                            || {
                                let mut v = c02::program_json(p, &print(p).texts);
                                v["kind"] = json!("programs");
                                v["well_kinded_by_construction"] = json!(frag.well_kinded);
                                v
                            },
                            |_| judge_in(p, frag.well_kinded),
                        );
                    }
                    idx += 1;
                }
            }
        }
    }
}

pub fn replay(case: &Value) -> Outcome {
    let ast = if case["kind"] == "programs-variant" { &case["original"]["ast"] } else { &case["ast"] };
    match serde_json::from_value::<Program>(ast.clone()) {
        Ok(p) => judge_in(&p, case["well_kinded_by_construction"] == true || case["original"]["well_kinded_by_construction"] == true),
        Err(_) => Outcome::ok("replay needs the ast", None),
    }
}
