//! C14 — a base description is preserved; only paths and schema components are replaced.
//!
//! State space: the feature lattice of base documents. 17 independent optional features
//! (present / absent) times the three shapes of `servers` (absent, one server, two servers
//! one of which has variables) give 3 * 2^17 = 393 216 YAML texts, each a valid OpenAPI 3.0
//! object, each built deterministically from its index. Every base is merged with a menu of
//! six small accepted programs through the real `Builder::with_base(..).into_openapi()`
//! (in-process) and, for the sub-lattice spanned by the ten features that touch the members
//! the merge writes (`paths`, `components`, the flattened root extension map), through the
//! real `oal-cli --base`.
//!
//! Oracle: with strip(d) = d minus `paths` and `components.schemas`,
//!   strip(out) == strip(roundtrip(base))           (frame carried over unchanged)
//!   out.paths == baseless.paths                     (paths come entirely from the program)
//!   out.components.schemas == baseless.components.schemas
//!   every top-level / `info.*` / `components.*` key of the raw base text is still there
//! where roundtrip = parse + print of the base alone through the same `openapiv3` types and
//! baseless = the same program emitted without a base.

use crate::explore::*;
use oal_compiler::module::{Loader, ModuleSet};
use oal_compiler::spec::Spec;
use oal_compiler::tree::Tree;
use oal_model::locator::Locator;
use serde_json::{json, Value};
use serde_yaml::Value as Y;
use std::path::PathBuf;
use std::process::{Command, Stdio};

pub struct C14;

// ---------------------------------------------------------------------------
// Base documents

pub const NFEAT: usize = 17;
pub const NSERVERS: u64 = 3;
pub const NBASES: u64 = NSERVERS << NFEAT;

pub const FEATURES: [&str; NFEAT] = [
    "info.description",
    "info.termsOfService",
    "info.contact",
    "info.license",
    "security",
    "tags",
    "externalDocs",
    "x-extension",
    "paths",
    "components.schemas",
    "components.securitySchemes",
    "components.parameters",
    "components.responses",
    "components.headers",
    "components.examples",
    "components.requestBodies",
    "components.links",
];

const F_DESC: usize = 0;
const F_TOS: usize = 1;
const F_CONTACT: usize = 2;
const F_LICENSE: usize = 3;
const F_SECURITY: usize = 4;
const F_TAGS: usize = 5;
const F_EXTDOCS: usize = 6;
const F_XEXT: usize = 7;
const F_PATHS: usize = 8;
const F_SCHEMAS: usize = 9;
const F_SECSCHEMES: usize = 10;
const F_PARAMS: usize = 11;
const F_RESPONSES: usize = 12;
const F_HEADERS: usize = 13;
const F_EXAMPLES: usize = 14;
const F_REQBODIES: usize = 15;
const F_LINKS: usize = 16;

/// The ten features that interact with what the merge writes: `paths`, every member of
/// `components` (they decide whether the `components` object exists at all) and the root
/// extension (a flattened map next to the replaced members). Ordered by decreasing
/// interaction; the CLI phases span the first k of them.
pub const CLI_FEATURES: [usize; 10] = [
    F_PATHS,
    F_SCHEMAS,
    F_SECSCHEMES,
    F_XEXT,
    F_PARAMS,
    F_LINKS,
    F_RESPONSES,
    F_HEADERS,
    F_EXAMPLES,
    F_REQBODIES,
];

/// Index -> (feature bits, servers shape). Index 0 is the smallest document.
pub fn base_of_index(idx: u64) -> (u32, u8) {
    ((idx / NSERVERS) as u32, (idx % NSERVERS) as u8)
}

pub fn feature_names(bits: u32) -> Vec<&'static str> {
    (0..NFEAT)
        .filter(|f| bits >> f & 1 == 1)
        .map(|f| FEATURES[f])
        .collect()
}

/// The base document of a feature set, as YAML text.
pub fn base_yaml(bits: u32, servers: u8) -> String {
    let on = |f: usize| bits >> f & 1 == 1;
    let mut s = String::with_capacity(4096);
    // The version string is the base's own too: 3.1.0 with a description, 3.0.1 with a license
    // and no description, else 3.0.3.
    s.push_str(if on(F_DESC) { "openapi: 3.1.0\n" } else if on(F_LICENSE) { "openapi: 3.0.1\n" } else { "openapi: 3.0.3\n" });
    s.push_str("info:\n  title: Base API\n");
    if on(F_DESC) {
        s.push_str("  description: 'A base description: with a colon'\n");
    }
    if on(F_TOS) {
        s.push_str("  termsOfService: https://example.com/terms\n");
    }
    if on(F_CONTACT) {
        s.push_str("  contact:\n    name: API Support\n    url: https://example.com/support\n    email: support@example.com\n");
    }
    if on(F_LICENSE) {
        s.push_str("  license:\n    name: Apache 2.0\n    url: https://www.apache.org/licenses/LICENSE-2.0.html\n");
    }
    s.push_str("  version: 1.2.3\n");
    if on(F_XEXT) {
        s.push_str("  x-audience: internal\n");
    }
    match servers {
        0 => {}
        1 => s.push_str("servers:\n- url: https://api.example.com/v1/\n  description: production\n"),
        _ => s.push_str(
            "servers:\n- url: https://api.example.com/v1\n  description: production\n- url: https://{env}.example.com:{port}/v2\n  variables:\n    env:\n      default: dev\n      enum:\n      - dev\n      - staging\n      description: environment\n    port:\n      default: '8443'\n- url: /api/\n  x-internal: true\n",
        ),
    }
    if on(F_SECURITY) {
        s.push_str("security:\n- apiKey: []\n- oauth:\n  - read\n  - write\n");
    }
    if on(F_TAGS) {
        s.push_str("tags:\n- name: base-tag\n  description: a tag from the base\n  externalDocs:\n    url: https://example.com/tags\n- name: Another\n");
    }
    if on(F_EXTDOCS) {
        s.push_str("externalDocs:\n  description: more\n  url: https://example.com/docs\n");
    }
    if on(F_XEXT) {
        s.push_str("x-base-extension:\n  nested:\n    a: 1\n    b:\n    - true\n    - null\n    - s\n");
    }
    if on(F_PATHS) {
        // One path that no program has and one that collides with a program path.
        s.push_str(
            "paths:\n  x-base-route-table:\n    hidden:\n    - /internal\n  /base/only/{id}:\n    parameters:\n    - name: id\n      in: path\n      required: true\n      schema:\n        type: string\n    get:\n      operationId: get-objs\n      responses:\n        '200':\n          description: ok\n  /objs:\n    x-path-level: kept-nowhere\n    get:\n      x-gateway-integration:\n        type: lambda\n      summary: the base's own get\n      responses:\n        '200':\n          description: base\n    delete:\n      operationId: get-tree\n      responses:\n        '204':\n          description: gone\n",
        );
    } else {
        s.push_str("paths: {}\n");
    }
    if (F_SCHEMAS..NFEAT).any(on) {
        s.push_str("components:\n");
    }
    if on(F_SCHEMAS) {
        // `obj` collides with the `@obj` component of a program, `BaseOnly` does not.
        s.push_str("  schemas:\n    BaseOnly:\n      type: object\n      properties:\n        id:\n          type: string\n    obj:\n      type: integer\n      description: the base's obj\n");
    }
    if on(F_SECSCHEMES) {
        s.push_str("  securitySchemes:\n    apiKey:\n      type: apiKey\n      name: X-Api-Key\n      in: header\n    bearer:\n      type: http\n      scheme: bearer\n    oauth:\n      type: oauth2\n      flows:\n        implicit:\n          authorizationUrl: https://example.com/auth\n          scopes:\n            read: read access\n            write: write access\n");
    }
    if on(F_PARAMS) {
        s.push_str("  parameters:\n    limit:\n      name: limit\n      in: query\n      description: page size\n      schema:\n        type: integer\n        minimum: 1\n    trace:\n      name: X-Trace\n      in: header\n      schema:\n        type: string\n");
    }
    if on(F_RESPONSES) {
        s.push_str("  responses:\n    NotFound:\n      description: not found\n      content:\n        application/json:\n          schema:\n            $ref: '#/components/schemas/BaseOnly'\n    Empty:\n      description: nothing\n");
    }
    if on(F_HEADERS) {
        s.push_str("  headers:\n    X-Rate-Limit:\n      description: calls per hour\n      schema:\n        type: integer\n");
    }
    if on(F_EXAMPLES) {
        s.push_str("  examples:\n    sample:\n      summary: a sample\n      value:\n        id: 1\n        name: x\n");
    }
    if on(F_REQBODIES) {
        s.push_str("  requestBodies:\n    ObjBody:\n      description: an object\n      content:\n        application/json:\n          schema:\n            type: object\n      required: true\n");
    }
    if on(F_LINKS) {
        s.push_str("  links:\n    next:\n      description: next one\n      operationId: get-objs\n      parameters:\n        id: $response.body#/id\n");
    }
    s
}

// ---------------------------------------------------------------------------
// Programs

pub struct Prog {
    pub name: &'static str,
    pub text: &'static str,
}

pub const PROGRAMS: [Prog; 6] = [
    Prog {
        name: "refs",
        text: "let @obj = { 'id! int, 'name str, 'self /objs/{ 'id int } };\nlet @list = [@obj];\nlet tree = rec x { 'value @obj, 'children [x] };\nres /objs on get -> <@list> `examples: { sample: \"examples/list.json\", other: \"examples/other.json\" }`;\nres /objs/{ 'id int } on get -> <@obj>, put : <headers={ 'X-Api-Key str, 'Authorization str }, @obj> -> <@obj>;\nres /tree on (get -> <tree>) `tags: [from-the-program, another]`;\nlet first a b = a;\nres /v1/status on get -> <first @obj (rec x { 'k [x] })>;\nres /api/v1 on get -> <>;\n",
    },
    Prog {
        name: "empty",
        text: "let a = { 'p num };\n",
    },
    Prog {
        name: "plain",
        text: "res /a on get -> <{ 'x num }>;\n",
    },
    Prog {
        name: "rec",
        text: "let tree = rec x { 'value num, 'children [x] };\nres /tree on get -> <tree>;\n",
    },
    Prog {
        name: "paths",
        text: "let err = <status=4XX, media=\"application/problem+json\", {}>;\nres /a on get -> <status=200, { 'x num }> :: err;\nres /a/{ 'id str } on get -> <str>, delete -> <status=204>;\nres /b?{ 'q str } on post : <{ 'y bool }> -> <status=201, {}> :: err;\nres /objs on put : <[num]> -> <>;\n",
    },
    Prog {
        name: "headers",
        text: "let etag = 'ETag! str;\nlet inm = 'If-None-Match str;\nres /h/{ 'id int }?{ 'q! str, 'n int } on get : <headers={inm}> -> <status=200, headers={etag}, {}> :: <status=304>;\n",
    },
];

const MAIN_URL: &str = "file:///main.oal";

/// In-memory loader over a list of (url, text) modules.
pub struct MemLoader<'a>(pub &'a [(String, String)]);

impl Loader<anyhow::Error> for MemLoader<'_> {
    fn is_valid(&mut self, loc: &Locator) -> bool {
        self.0.iter().any(|(u, _)| u == loc.url().as_str())
    }
    fn load(&mut self, loc: &Locator) -> anyhow::Result<String> {
        self.0
            .iter()
            .find(|(u, _)| u == loc.url().as_str())
            .map(|(_, t)| t.clone())
            .ok_or_else(|| anyhow::anyhow!("no such module: {loc}"))
    }
    fn parse(&mut self, loc: Locator, input: String) -> anyhow::Result<Tree> {
        let (tree, errs) = oal_syntax::parse(loc, input);
        if let Some(e) = errs.into_iter().next() {
            return Err(anyhow::anyhow!("{e}"));
        }
        tree.ok_or_else(|| anyhow::anyhow!("no tree"))
    }
    fn compile(&mut self, mods: &ModuleSet, loc: &Locator) -> anyhow::Result<()> {
        oal_compiler::compile::compile(mods, loc)?;
        Ok(())
    }
}

/// Compiles a single-module program to its `Spec` (real loader, compiler and evaluator).
pub fn compile_program(text: &str) -> Result<Spec, String> {
    let mods = [(MAIN_URL.to_owned(), text.to_owned())];
    let main = Locator::try_from(MAIN_URL).unwrap();
    let r = guard(|| -> anyhow::Result<Spec> {
        let ms = oal_compiler::module::load(&mut MemLoader(&mods), &main)?;
        Ok(oal_compiler::eval::eval(&ms)?)
    });
    match r {
        Ok(Ok(s)) => Ok(s),
        Ok(Err(e)) => Err(format!("rejected: {e}")),
        Err(p) => Err(format!("panic {}: {}", panic_site(&p), p.message)),
    }
}

/// A program ready to be merged: its spec and the document it gives without a base.
pub struct Compiled {
    pub name: String,
    pub text: String,
    pub spec: Spec,
    pub baseless: Y,
}

pub fn prepare(name: &str, text: &str) -> Result<Compiled, String> {
    let spec = compile_program(text)?;
    let doc = oal_openapi::Builder::new(spec.clone()).into_openapi();
    let txt = serde_yaml::to_string(&doc).map_err(|e| e.to_string())?;
    let baseless: Y = serde_yaml::from_str(&txt).map_err(|e| e.to_string())?;
    Ok(Compiled {
        name: name.to_owned(),
        text: text.to_owned(),
        spec,
        baseless,
    })
}

// ---------------------------------------------------------------------------
// Oracle

pub struct Bad {
    pub sig: String,
    pub summary: String,
}

fn bad(cause: &str, location: &str, summary: String) -> Bad {
    Bad {
        sig: format!("base-merge | {location} | {cause}"),
        summary,
    }
}

fn ystr(s: &str) -> Y {
    Y::String(s.to_owned())
}

fn get<'a>(v: &'a Y, k: &str) -> Option<&'a Y> {
    v.as_mapping().and_then(|m| m.get(&ystr(k)))
}

fn show(v: Option<&Y>) -> String {
    match v {
        None => "<absent>".into(),
        Some(v) => {
            let mut s = serde_yaml::to_string(v).unwrap_or_default();
            if s.len() > 600 {
                s.truncate(600);
                s.push_str("…");
            }
            s
        }
    }
}

/// d minus `paths` and `components.schemas`. An *empty* `components` object is dropped as
/// well: `into_openapi` creates one (`get_or_insert(Default::default())`) when neither the
/// base nor the program has components, and an empty object carries no information.
pub fn strip(d: &Y) -> Y {
    let mut d = d.clone();
    if let Some(m) = d.as_mapping_mut() {
        m.remove(&ystr("paths"));
        let mut empty = false;
        if let Some(c) = m.get_mut(&ystr("components")).and_then(|c| c.as_mapping_mut()) {
            c.remove(&ystr("schemas"));
            empty = c.is_empty();
        }
        if empty {
            m.remove(&ystr("components"));
        }
    }
    d
}

/// The frame of a base: strip(parse + print through the `openapiv3` types).
pub struct BaseSide {
    pub raw: Y,
    pub frame: Y,
}

pub fn base_side(base_text: &str, verify_text_path: bool) -> Result<(openapiv3::OpenAPI, BaseSide), String> {
    let raw: Y = serde_yaml::from_str(base_text).map_err(|e| format!("raw base: {e}"))?;
    let typed: openapiv3::OpenAPI =
        serde_yaml::from_str(base_text).map_err(|e| format!("typed base: {e}"))?;
    // Serialised straight into a value tree: the same tree as printing the text and parsing
    // it back, at a third of the cost. The equality of the two routes is itself checked for
    // every base of the CLI phases and on every replay.
    let rt: Y = serde_yaml::to_value(&typed).map_err(|e| format!("serialise base: {e}"))?;
    if verify_text_path {
        let printed = serde_yaml::to_string(&typed).map_err(|e| format!("print base: {e}"))?;
        let rt2: Y = serde_yaml::from_str(&printed).map_err(|e| format!("reparse base: {e}"))?;
        if rt2 != rt {
            return Err("to_value(base) differs from parse(print(base))".into());
        }
    }
    Ok((
        typed,
        BaseSide {
            raw,
            frame: strip(&rt),
        },
    ))
}

/// Finds the first top-level member on which two frames differ (for the summary).
fn first_diff(a: &Y, b: &Y) -> String {
    let (Some(ma), Some(mb)) = (a.as_mapping(), b.as_mapping()) else {
        return "<root>".into();
    };
    for (k, va) in ma {
        let ks = k.as_str().unwrap_or("?");
        match mb.get(k) {
            None => return format!("{ks} (missing in the output)"),
            Some(vb) if vb != va => {
                if let (Some(_), Some(_)) = (va.as_mapping(), vb.as_mapping()) {
                    let inner = first_diff(va, vb);
                    return format!("{ks}.{inner}");
                }
                return ks.to_owned();
            }
            _ => {}
        }
    }
    for (k, _) in mb {
        if !ma.contains_key(k) {
            return format!("{} (added by the merge)", k.as_str().unwrap_or("?"));
        }
    }
    "<order>".into()
}

/// The property on one (base, program, output) triple.
pub fn check_merge(base: &BaseSide, prog: &Compiled, out: Y) -> Result<(), Bad> {
    let out = &out;
    // 1. raw level: nothing the base text names disappears
    if let Some(m) = base.raw.as_mapping() {
        for (k, _) in m {
            if !out.as_mapping().map_or(false, |o| o.contains_key(k)) {
                return Err(bad(
                    "a top-level member of the base is missing in the output",
                    "root",
                    format!("base member `{}` is not in the output (program {})", k.as_str().unwrap_or("?"), prog.name),
                ));
            }
        }
    }
    for section in ["info", "components"] {
        if let Some(m) = get(&base.raw, section).and_then(|c| c.as_mapping()) {
            for (k, _) in m {
                if section == "components" && k.as_str() == Some("schemas") {
                    continue; // replaced by the program's, possibly by nothing
                }
                let there = get(out, section)
                    .and_then(|c| c.as_mapping())
                    .map_or(false, |o| o.contains_key(k));
                if !there {
                    return Err(bad(
                        "a member of the base is missing in the output",
                        section,
                        format!("base member `{section}.{}` is not in the output (program {})", k.as_str().unwrap_or("?"), prog.name),
                    ));
                }
            }
        }
    }
    // 2. the frame is the base's
    let frame = strip(out);
    if frame != base.frame {
        let at = first_diff(&base.frame, &frame);
        let top = at.split(['.', ' ']).next().unwrap_or("").to_owned();
        return Err(bad(
            "the output differs from the base outside paths and schema components",
            if top.starts_with("x-") { "extension" } else { &top },
            format!(
                "program {}: first difference at `{at}`; base has {} output has {}",
                prog.name,
                show(get(&base.frame, &top)),
                show(get(&frame, &top))
            ),
        ));
    }
    // 3. paths and schema components are the program's
    if get(out, "paths") != get(&prog.baseless, "paths") {
        return Err(bad(
            "paths do not come entirely from the program",
            "paths",
            format!(
                "program {}: expected {} got {}",
                prog.name,
                show(get(&prog.baseless, "paths")),
                show(get(out, "paths"))
            ),
        ));
    }
    let so = get(out, "components").and_then(|c| get(c, "schemas"));
    let sp = get(&prog.baseless, "components").and_then(|c| get(c, "schemas"));
    if so != sp {
        return Err(bad(
            "schema components do not come entirely from the program",
            "components.schemas",
            format!("program {}: expected {} got {}", prog.name, show(sp), show(so)),
        ));
    }
    Ok(())
}

/// In-process subject: the real merge and the real printer.
pub fn merge_inproc(base: &openapiv3::OpenAPI, prog: &Compiled) -> Result<(String, Y), Bad> {
    let spec = prog.spec.clone();
    let base = base.clone();
    let r = guard(move || {
        let doc = oal_openapi::Builder::new(spec).with_base(base).into_openapi();
        serde_yaml::to_string(&doc)
    });
    match r {
        Err(p) => Err(Bad {
            sig: format!("panic | {} | merge with a base", panic_site(&p)),
            summary: format!("program {}: {}", prog.name, p.message),
        }),
        Ok(Err(e)) => Err(bad("the merged document cannot be printed", "serde_yaml", e.to_string())),
        Ok(Ok(text)) => match serde_yaml::from_str::<Y>(&text) {
            Ok(v) => Ok((text, v)),
            Err(e) => Err(bad("the merged document is not YAML", "serde_yaml", e.to_string())),
        },
    }
}

// ---------------------------------------------------------------------------
// CLI subject

pub fn cli_path() -> String {
    std::env::var("OAL_CLI").unwrap_or_else(|_| "/verif/.build/repo/debug/oal-cli".into())
}

/// A scratch directory removed when dropped.
pub struct TempDir(pub PathBuf);

impl TempDir {
    pub fn new(tag: &str) -> TempDir {
        static N: std::sync::atomic::AtomicU64 = std::sync::atomic::AtomicU64::new(0);
        let n = N.fetch_add(1, std::sync::atomic::Ordering::SeqCst);
        let p = PathBuf::from(format!("/var/tmp/oalmc-{}-{tag}{n} \u{e9}", std::process::id()));
        let _ = std::fs::remove_dir_all(&p);
        std::fs::create_dir_all(&p).expect("cannot create scratch directory");
        TempDir(p)
    }
}

impl Drop for TempDir {
    fn drop(&mut self) {
        let _ = std::fs::remove_dir_all(&self.0);
    }
}

fn strip_ansi(s: &str) -> String {
    let mut out = String::new();
    let mut it = s.chars().peekable();
    while let Some(c) = it.next() {
        if c == '\u{1b}' && it.peek() == Some(&'[') {
            it.next();
            for d in it.by_ref() {
                if d.is_ascii_alphabetic() {
                    break;
                }
            }
        } else {
            out.push(c);
        }
    }
    out
}

/// Runs `oal-cli -m main.oal -t out.yaml -b base.yaml` in `dir`, returns the written document.
pub fn merge_cli(dir: &TempDir, base_text: &str, prog: &Compiled) -> Result<(String, Y), Bad> {
    let d = &dir.0;
    std::fs::write(d.join("main.oal"), &prog.text).expect("write main.oal");
    std::fs::write(d.join("base.yaml"), base_text).expect("write base.yaml");
    let _ = std::fs::remove_file(d.join("out.yaml"));
    let out = Command::new(cli_path())
        .args(["-m", "main.oal", "-t", "out.yaml", "-b", "base.yaml"])
        .current_dir(d)
        .stdin(Stdio::null())
        .output()
        .expect("cannot run oal-cli (set OAL_CLI)");
    if out.status.code() != Some(0) {
        use std::os::unix::process::ExitStatusExt;
        return Err(bad(
            "the CLI fails on an accepted program with a valid base",
            "oal-cli exit",
            format!(
                "program {}: exit {:?} signal {:?} stderr {}",
                prog.name,
                out.status.code(),
                out.status.signal(),
                strip_ansi(&String::from_utf8_lossy(&out.stderr))
            ),
        ));
    }
    let text = std::fs::read_to_string(d.join("out.yaml")).map_err(|e| {
        bad("the CLI exits 0 without a target", "oal-cli target", format!("program {}: {e}", prog.name))
    })?;
    match serde_yaml::from_str::<Y>(&text) {
        Ok(v) => Ok((text, v)),
        Err(e) => Err(bad("the target is not YAML", "oal-cli target", format!("program {}: {e}", prog.name))),
    }
}

thread_local! {
    static BASELESS_CLI: std::cell::RefCell<std::collections::HashMap<(std::path::PathBuf, String), Y>> = Default::default();
}

/// The document `oal-cli -m main.oal -t baseless.yaml` writes in `dir` (once per directory and program).
fn baseless_cli(dir: &TempDir, prog: &Compiled) -> Result<Y, Bad> {
    let key = (dir.0.clone(), prog.name.clone());
    if let Some(y) = BASELESS_CLI.with(|m| m.borrow().get(&key).cloned()) {
        return Ok(y);
    }
    let d = &dir.0;
    std::fs::write(d.join("main.oal"), &prog.text).expect("write main.oal");
    let out = Command::new(cli_path())
        .args(["-m", "main.oal", "-t", "baseless.yaml"])
        .current_dir(d)
        .stdin(Stdio::null())
        .output()
        .expect("cannot run oal-cli (set OAL_CLI)");
    if out.status.code() != Some(0) {
        return Err(bad("the CLI fails on an accepted program", "oal-cli exit", format!("program {} without a base: exit {:?}", prog.name, out.status.code())));
    }
    let text = std::fs::read_to_string(d.join("baseless.yaml")).map_err(|e| bad("the CLI exits 0 without a target", "oal-cli target", format!("program {}: {e}", prog.name)))?;
    let y: Y = serde_yaml::from_str(&text).map_err(|e| bad("the target is not YAML", "oal-cli target", format!("program {}: {e}", prog.name)))?;
    BASELESS_CLI.with(|m| m.borrow_mut().insert(key, y.clone()));
    Ok(y)
}

// ---------------------------------------------------------------------------
// Cases

fn describe(mode: &str, bits: u32, servers: u8, progs: &[&Compiled]) -> Value {
    json!({
        "mode": mode,
        "bits": bits,
        "servers": servers,
        "features": feature_names(bits),
        "base": base_yaml(bits, servers),
        "programs": progs.iter().map(|p| json!({"name": p.name, "text": p.text})).collect::<Vec<_>>(),
    })
}

/// Runs one base against the given programs. Returns (merges checked, hash of the outputs).
fn run_case(
    mode: &str,
    base_text: &str,
    progs: &[&Compiled],
    dir: Option<&TempDir>,
) -> Result<(u64, u64), Bad> {
    let (typed, side) = base_side(base_text, mode != "inproc").map_err(|e| Bad {
        sig: "harness | base generator | the base does not go through openapiv3".into(),
        summary: e,
    })?;
    let mut n = 0;
    let mut hs = Vec::new();
    for p in progs {
        let (text, out) = if mode == "cli" {
            merge_cli(dir.expect("scratch dir"), base_text, p)?
        } else {
            merge_inproc(&typed, p)?
        };
        if mode == "cli" {
            // Names of implicit components hash the module's location: the base-less document
            // to compare with is the one the CLI writes for the same file in the same place.
            let at_place = Compiled {
                name: p.name.clone(),
                text: p.text.clone(),
                spec: p.spec.clone(),
                baseless: baseless_cli(dir.expect("scratch dir"), p)?,
            };
            check_merge(&side, &at_place, out)?;
        } else {
            check_merge(&side, p, out)?;
        }
        n += 1;
        hs.push(hash_of(&text));
    }
    Ok((n, hash_of(&hs)))
}

fn sub_lattice_bits(k: usize, i: u64) -> u32 {
    let mut bits = 0u32;
    for (j, f) in CLI_FEATURES.iter().take(k).enumerate() {
        if i >> j & 1 == 1 {
            bits |= 1 << f;
        }
    }
    bits
}

impl Engine for C14 {
    fn id(&self) -> &'static str {
        "C14"
    }
    fn engine_name(&self) -> &'static str {
        "frontends"
    }
    fn phases(&self, tier: Tier) -> Vec<Phase> {
        match tier {
            Tier::Quick => vec![
                Phase::new(
                    "in-process: 3*2^17 bases x 2 programs",
                    json!({"mode": "inproc", "programs": [0, 1]}),
                ),
                Phase::new(
                    "oal-cli --base: 2^7 sub-lattice x 2 programs",
                    json!({"mode": "cli", "k": 7, "programs": [0, 1]}),
                )
                .workers(8),
            ],
            Tier::Thorough => vec![
                Phase::new(
                    "in-process: 3*2^17 bases x 6 programs",
                    json!({"mode": "inproc", "programs": [0, 1, 2, 3, 4, 5]}),
                ),
                Phase::new(
                    "oal-cli --base: 2^10 sub-lattice x 2 programs",
                    json!({"mode": "cli", "k": 10, "programs": [0, 1]}),
                )
                .workers(8),
            ],
        }
    }
    fn run_phase(&self, phase: &Phase, sink: &mut Sink) {
        let mode = phase.param["mode"].as_str().unwrap().to_owned();
        // Programs are compiled once per worker; the Spec is cloned for every merge.
        let compiled: Vec<Compiled> = phase.param["programs"]
            .as_array()
            .unwrap()
            .iter()
            .map(|i| {
                let p = &PROGRAMS[i.as_u64().unwrap() as usize];
                prepare(p.name, p.text).unwrap_or_else(|e| panic!("menu program {} is not accepted: {e}", p.name))
            })
            .collect();
        let progs: Vec<&Compiled> = compiled.iter().collect();
        let cli = mode == "cli";
        let k = phase.param["k"].as_u64().unwrap_or(0) as usize;
        let total = if cli { 1u64 << k } else { NBASES };
        let dir = if cli && matches!(sink.mode, Mode::Run) {
            Some(TempDir::new("c14-"))
        } else {
            None
        };
        let mut idx = sink.shard;
        if let Some(i) = sink.single() {
            idx = i;
        }
        while idx < total {
            if sink.expired() {
                break;
            }
            let (bits, servers) = if cli {
                (sub_lattice_bits(k, idx), 2u8)
            } else {
                base_of_index(idx)
            };
            sink.visit(
                idx,
                || describe(&mode, bits, servers, &progs),
                |s| {
                    let text = base_yaml(bits, servers);
                    match run_case(&mode, &text, &progs, dir.as_ref()) {
                        Ok((n, h)) => {
                            s.count("states", 1);
                            s.count("transitions", n);
                            Outcome::ok(if cli { "preserved-cli" } else { "preserved" }, Some(h))
                        }
                        Err(b) => Outcome::bad("not-preserved", b.sig, b.summary, Value::Null),
                    }
                },
            );
            if sink.single().is_some() {
                break;
            }
            idx += sink.nshards;
        }
    }
    fn replay(&self, case: &Value) -> Outcome {
        let mode = case["mode"].as_str().unwrap_or("inproc");
        let base = case["base"].as_str().unwrap_or("");
        let mut compiled = Vec::new();
        for p in case["programs"].as_array().cloned().unwrap_or_default() {
            match prepare(p["name"].as_str().unwrap_or("?"), p["text"].as_str().unwrap_or("")) {
                Ok(c) => compiled.push(c),
                Err(e) => {
                    return Outcome::bad(
                        "not-preserved",
                        "harness | replay | the program of the case is not accepted".into(),
                        e,
                        case.clone(),
                    )
                }
            }
        }
        let progs: Vec<&Compiled> = compiled.iter().collect();
        let dir = (mode == "cli").then(|| TempDir::new("c14r-"));
        let replay_mode = if mode == "cli" { "cli" } else { "inproc-replay" };
        match run_case(replay_mode, base, &progs, dir.as_ref()) {
            Ok(_) => Outcome::ok("preserved", None),
            Err(b) => Outcome::bad("not-preserved", b.sig, b.summary, case.clone()),
        }
    }
    fn rule(&self) -> String {
        format!(
            "base documents are built from an index: 17 independent optional features ({}) x servers in {{absent, one, two with variables}} = 3*2^17 YAML texts, each a valid OpenAPI 3.0 object (the `paths` feature adds one path no program has, one that collides with a program path and an `x-` extension directly under `paths`; the `schemas` feature adds one schema no program has and one named like a program's `@obj`); every base is merged with each program of a menu of six accepted programs (refs: `@` components, an implicit hash-* component referred to from a resource only, an operation with tags the base does not declare, and colliding path; empty: no resource at all; plain: no component; rec: implicit hash-* component; paths: several paths, methods and statuses; headers: header and query parameters) through the real Builder::with_base + serde_yaml (in-process), and the sub-lattice spanned by the first k of the ten features that touch what the merge writes (paths, the eight components members, the root extension; the others absent, two servers) through the real `oal-cli -b`. Checked per merge: strip(out) == strip(print(parse(base))) on serde_yaml values, out.paths and out.components.schemas equal those of the same program without a base, no top-level / info.* / components.* key of the raw base text disappears. Every case is non-trivial; distinct = distinct vectors of output texts. states = base documents, transitions = merges checked",
            FEATURES.join(", ")
        )
    }
    fn assumptions(&self) -> Vec<String> {
        vec![
            "an empty `components: {}` object added by the merge when neither the base nor the program has any component is not counted as a difference (it carries no information); strip() removes a components object that is empty after `schemas` was taken out, on both sides".into(),
            "the frame is compared against print(parse(base)) through the same openapiv3 2.0 types, so that defaults the library itself adds (`style: form`, `description: null` of a server variable) are not attributed to the merge; the raw-level check is limited to keys not disappearing".into(),
            "`paths` is a required member of an OpenAPI object: the feature `paths` switches between `paths: {}` and two path items".into(),
            "DESIGN counts 2^17 documents; the three shapes of `servers` are kept as a separate ternary factor, hence 3*2^17".into(),
            "trusted: serde_yaml, openapiv3 (used on both sides of the comparison)".into(),
        ]
    }
    fn budget_s(&self, tier: Tier) -> u64 {
        match tier {
            Tier::Quick => 60,
            Tier::Thorough => 1500,
        }
    }
    fn state_counters(&self, m: &Stats) -> Option<(u64, u64, u64)> {
        let s = *m.counters.get("states").unwrap_or(&0);
        let t = *m.counters.get("transitions").unwrap_or(&0);
        Some((s, t, t))
    }
}
