//! C02 — the emitted document means what the program says.
//!
//! Every program of the kind-directed fragments is compiled by the real pipeline and
//! evaluated by the reference semantics; the YAML text is parsed back, extracted into the
//! abstract document type and compared with the reference document.

use crate::doc;
use crate::explore::*;
use crate::frags;
use crate::gen::*;
use crate::pipeline::{self, Run};
use crate::props::c01::{texts_json, panic_head};
use crate::refsem::{self, Stop};
use serde_json::{json, Value};

pub struct C02;

/// Strips positions and values from a comparison message: "<at>: <what>: emitted…".
pub fn diff_class(msg: &str) -> String {
    let parts: Vec<&str> = msg.splitn(3, ": ").collect();
    let what = if parts.len() >= 2 { parts[1] } else { msg };
    let what: String = what.chars().take(60).collect();
    // Where: the last path component kind.
    let at = parts.first().copied().unwrap_or("");
    let place = if at.contains("requestBody") {
        "request body"
    } else if at.contains("response") {
        "response"
    } else if at.contains("param") {
        "parameter"
    } else if at.starts_with("components") {
        "component"
    } else if at == "paths" {
        "paths"
    } else {
        "operation or schema"
    };
    format!("{place}: {what}")
}

pub fn program_json(p: &Program, texts: &[(String, String)]) -> Value {
    let mut v = texts_json(texts);
    v["ast"] = serde_json::to_value(p).unwrap_or(Value::Null);
    v
}

pub fn judge(p: &Program, well_kinded: bool) -> Outcome {
    let printed = print(p);
    let texts = &printed.texts;
    let files = pipeline::files_of(texts);
    let reference = refsem::meaning(p);
    let run = pipeline::run(&files, "main.oal");
    let case = || program_json(p, texts);
    match (&reference, run) {
        (_, Run::LoadPanic(_)) => Outcome::ok("compile-panic (C04)", None),
        (_, Run::BackendPanic(pi)) => {
            // Never a document: C01 owns crashes of accepted programs; here the program
            // belongs to a fragment with a defined meaning, so the document is missing.
            match reference {
                Ok(_) | Err(Stop::Error(_)) => Outcome::bad(
                    "backend-panic",
                    format!("no document: panic | {} | program of the reference fragment", panic_head(&pi)),
                    format!("panic at {}: {}", pi.location, pi.message.chars().take(160).collect::<String>()),
                    case(),
                ),
                _ => Outcome::ok("backend-panic outside the reference fragment (C01)", None),
            }
        }
        (Err(Stop::Unspecified(_)), _) => Outcome::ok("unspecified by the language: crash check only", None),
        (Err(Stop::Stuck(_)), Run::Rejected(_)) => Outcome::ok("ill-kinded: rejected", Some(hash_of("rej"))),
        (Err(Stop::Stuck(_)), _) => Outcome::ok("reference has no meaning: no verdict", None),
        (Ok(_), Run::Rejected(e)) | (Err(Stop::Error(_)), Run::Rejected(e)) => {
            if well_kinded {
                Outcome::bad(
                    "rejected",
                    format!("rejected | {} | program of a well-kinded fragment", e.class()),
                    format!("the compiler rejects a program that has a reference meaning: {e:?}")
                        .chars()
                        .take(300)
                        .collect(),
                    case(),
                )
            } else {
                Outcome::ok("rejected", Some(hash_of(&("rej", e.class()))))
            }
        }
        (Err(Stop::Error(k)), Run::EvalError(e, _)) => {
            if pipeline::kind_name(&e.kind) == *k {
                Outcome::ok("evaluation error as defined", Some(hash_of(&("err", k))))
            } else {
                Outcome::bad(
                    "wrong-error",
                    format!("evaluation error kind | expected {k} | got {}", pipeline::kind_name(&e.kind)),
                    format!("{e}"),
                    case(),
                )
            }
        }
        (Err(Stop::Error(k)), Run::Doc(..)) => Outcome::bad(
            "missing-error",
            format!("document emitted | the language defines an evaluation error {k} | silently accepted"),
            "a document was emitted where evaluation must fail".into(),
            case(),
        ),
        (Ok(_), Run::EvalError(e, _)) => Outcome::bad(
            "spurious-error",
            format!("evaluation error | {} | program with a reference meaning", pipeline::kind_name(&e.kind)),
            format!("{e}"),
            case(),
        ),
        (Ok((rdoc, _)), Run::Doc(yaml, _)) => {
            let y: serde_yaml::Value = match serde_yaml::from_str(&yaml) {
                Ok(y) => y,
                Err(e) => {
                    return Outcome::bad(
                        "unparsable",
                        "emitted YAML does not parse".into(),
                        e.to_string(),
                        case(),
                    )
                }
            };
            let idoc = doc::extract(&y);
            match doc::compare(&idoc, rdoc) {
                Ok(()) => Outcome::ok("document equals reference", Some(hash_of(&yaml))),
                Err(msg) => {
                    let notes = refsem::last_notes();
                    let sig = if notes.is_empty() {
                        format!("document differs | {}", diff_class(&msg))
                    } else {
                        format!("document differs | {} | program has {}", diff_class(&msg), notes.join(" and "))
                    };
                    Outcome::bad("differs", sig, msg, case())
                }
            }
        }
    }
}

impl Engine for C02 {
    fn id(&self) -> &'static str {
        "C02"
    }
    fn engine_name(&self) -> &'static str {
        "progspace"
    }
    fn phases(&self, tier: Tier) -> Vec<Phase> {
        let mut v: Vec<Phase> = frags::NAMES
            .iter()
            .enumerate()
            .map(|(i, n)| Phase::new(n, json!({"frag": i, "thorough": false})))
            .collect();
        v.push(Phase::new(
            "kind-agnostic expressions of <= 2 constructors x 28 contexts, judged where the reference gives a meaning",
            json!({"agnostic": 2}),
        ));
        v.push(Phase::new(
            "kind-agnostic expressions of 3 constructors x 28 contexts, judged where the reference gives a meaning",
            json!({"agnostic": 3}),
        ));
        v.push(Phase::new(
            "annotation matrix: 17 keys x 15 value shapes x 9 positions x 8 targets, judged where the reference gives a meaning",
            json!({"matrix": true}),
        ));
        v.push(Phase::new(
            "two modules: function bodies <= 2 x arguments <= 2 x 12 use sites, judged where the reference gives a meaning",
            json!({"two": 2}),
        ));
        if tier == Tier::Thorough {
            v.push(Phase::new(
                "kind-agnostic expressions of 4 constructors x 28 contexts, judged where the reference gives a meaning",
                json!({"agnostic": 4}),
            ));
            v.push(Phase::new(
                "two modules: function bodies of 3 x arguments <= 2 x 12 use sites, judged where the reference gives a meaning",
                json!({"two": 3}),
            ));
            for i in frags::HAS_NEXT_BOUND {
                v.push(Phase::new(
                    &format!("{} (next bound)", frags::NAMES[i]),
                    json!({"frag": i, "thorough": true}),
                ));
            }
        }
        v
    }
    fn run_phase(&self, phase: &Phase, sink: &mut Sink) {
        if let Some(k) = phase.param["agnostic"].as_u64() {
            let k = k as usize;
            let all = crate::space::agnostic_exprs(k);
            let sizes: Vec<usize> = if k == 2 { vec![1, 2] } else { vec![k] };
            let mut idx = 0u64;
            for sz in sizes {
                for e in all[sz].iter() {
                    for c in 0..crate::space::N_CONTEXTS {
                        if sink.mine(idx) {
                            if sink.expired() {
                                return;
                            }
                            let p = crate::space::context(c, e);
                            sink.visit(idx, || program_json(&p, &print(&p).texts), |_| judge(&p, false));
                        }
                        idx += 1;
                    }
                }
            }
            return;
        }
        if phase.param["matrix"].as_bool() == Some(true) {
            for i in 0..crate::space::ann_case_count() {
                let idx = i as u64;
                if sink.mine(idx) {
                    if sink.expired() {
                        return;
                    }
                    let p = crate::space::ann_case(i);
                    sink.visit(idx, || program_json(&p, &print(&p).texts), |_| judge(&p, false));
                }
            }
            return;
        }
        if let Some(kb) = phase.param["two"].as_u64() {
            let kb = kb as usize;
            let all = crate::space::agnostic_exprs(kb.max(2));
            let bodies: Vec<&E> = if kb == 2 { all[1].iter().chain(all[2].iter()).collect() } else { all[kb].iter().collect() };
            let args: Vec<&E> = (1..=2).flat_map(|s| all[s].iter()).collect();
            let mut idx = 0u64;
            for b in bodies.iter() {
                for a in args.iter() {
                    for site in 0..crate::space::N_SITES {
                        if sink.mine(idx) {
                            if sink.expired() {
                                return;
                            }
                            let p = crate::space::two_module(b, a, site);
                            sink.visit(idx, || program_json(&p, &print(&p).texts), |_| judge(&p, false));
                        }
                        idx += 1;
                    }
                }
            }
            return;
        }
        let i = phase.param["frag"].as_u64().unwrap() as usize;
        let thorough = phase.param["thorough"].as_bool().unwrap();
        let frag = frags::fragment(i, thorough);
        for (idx, p) in frag.programs.iter().enumerate() {
            let idx = idx as u64;
            if !sink.mine(idx) {
                continue;
            }
            if sink.expired() {
                return;
            }
            sink.visit(
                idx,
                || program_json(p, &print(p).texts),
                |_| judge(p, frag.well_kinded),
            );
        }
    }
    fn replay(&self, case: &Value) -> Outcome {
        match serde_json::from_value::<Program>(case["ast"].clone()) {
            Ok(p) => judge(&p, false),
            Err(_) => Outcome::ok("replay needs the ast", None),
        }
    }
    fn rule(&self) -> String {
        "kind-directed fragments F1 schema algebra, F2 contents x ranges (status x media x headers x body)^<=n in three spellings, F3 transfers and relations, F4 URI templates and concat, F5 declarations/functions/scoping under all statement permutations, F6 recursion (all assignments of 27/40 body forms to 2/3 declarations, rec in functions, imported recursion), F7 @references, F8 modules, F9 annotations (every key at every position the language defines), F10 collisions, F11 every closed recursion term; each enumerated exhaustively with the others at their simplest value; plus the generated spaces of C01 (kind-agnostic expressions of <= 3, thorough 4, constructors x 28 contexts; the annotation matrix; the two-module products), judged wherever the reference gives the program a meaning. Oracle: abstract document of the emitted YAML == document of the independent reference evaluator (exact, modulo names of implicit components). Non-trivial = accepted with a reference meaning; distinct = distinct YAML texts".into()
    }
    fn assumptions(&self) -> Vec<String> {
        vec![
            "constructs the language leaves undefined (DESIGN.md §3.2 list) are reported by the reference as `unspecified` and only checked for crashes".into(),
            "the reference evaluator and the YAML extractor are trusted; serde_yaml is used to read annotations and the emitted text".into(),
        ]
    }
    fn crash_signature(&self, kind: &str, _case: &Value) -> String {
        format!("{kind} | pipeline | program of the reference fragment")
    }
}
