//! C08 — identifiers bind lexically and evaluation honours the same binding.
//!
//! Every program over colliding name pools (declarations, parameters, rec binders,
//! qualified and unqualified imports) is resolved by the reference resolver and compiled
//! by the real pipeline: the `definition()` of every variable node must be the binder the
//! reference names, unbound uses and duplicate declarations must be rejected, and the
//! emitted document must equal the lexically scoped reference evaluation.

use crate::explore::*;
use crate::gen::*;
use crate::pipeline;
use crate::props::c02;
use crate::refsem::{self, Bind};
use oal_compiler::definition::Definition;
use oal_compiler::tree::Core;
use oal_model::grammar::AbstractSyntaxNode;
use oal_syntax::parser as syn;
use serde_json::{json, Value};
use std::collections::HashMap;

pub struct C08;

fn num() -> E {
    E::Prim(Prim::Num)
}

/// Variable uses available to bodies.
fn uses(full: bool) -> Vec<E> {
    let mut v = vec![var("a"), var("b"), var("x"), qvar("m", "a")];
    if full {
        v.push(qvar("m", "b"));
        v.push(qvar("a", "a"));
    }
    v
}

pub fn bodies(full: bool) -> Vec<E> {
    let mut out = vec![num()];
    let us = uses(full);
    for u in us.iter() {
        out.push(u.clone());
        out.push(obj(vec![prop("k", u.clone())]));
        out.push(E::Rec("x".into(), Box::new(obj(vec![prop("k", arr(u.clone()))]))));
    }
    for u in us.iter().take(if full { us.len() } else { 3 }) {
        out.push(E::App(None, "f".into(), vec![u.clone()]));
        out.push(E::Rec("a".into(), Box::new(obj(vec![prop("k", arr(u.clone()))]))));
    }
    // two members: a use after another use / after a rec that binds the same name
    out.push(obj(vec![prop("k", var("a")), prop("j", var("x"))]));
    for u in us.iter().take(3) {
        out.push(obj(vec![
            prop("k", E::Rec("x".into(), Box::new(obj(vec![prop("k", arr(var("x")))])))),
            prop("j", u.clone()),
        ]));
    }
    // two-argument applications: a later argument may be named like an earlier parameter
    for u1 in us.iter().take(3) {
        for u2 in us.iter().take(3) {
            out.push(E::App(None, "f".into(), vec![u1.clone(), u2.clone()]));
            out.push(E::App(None, "g".into(), vec![u1.clone(), u2.clone()]));
        }
    }
    if full {
        for u in us.iter().take(3) {
            out.push(E::App(None, "g".into(), vec![u.clone()]));
            out.push(E::App(Some("m".into()), "f".into(), vec![u.clone()]));
        }
    }
    out
}

/// Declaration heads: (name, parameters).
pub fn heads(full: bool) -> Vec<(&'static str, Vec<&'static str>)> {
    let mut v = vec![
        ("a", vec![]),
        ("b", vec![]),
        ("f", vec!["x"]),
        ("f", vec!["a"]),
        ("f", vec!["x", "a"]),
        ("g", vec!["a", "x"]),
    ];
    if full {
        v.push(("x", vec![]));
        v.push(("g", vec!["a"]));
        v.push(("f", vec!["a", "x"]));
    }
    // a parameter name written twice (which one a use denotes is not defined; the program must
    // not crash)
    v.push(("f", vec!["x", "x"]));
    v
}

fn finals() -> Vec<E> {
    vec![
        var("a"),
        obj(vec![prop("r", var("a")), prop("s", var("b"))]),
        E::App(None, "f".into(), vec![num()]),
        obj(vec![prop("r", E::App(None, "f".into(), vec![E::Prim(Prim::Str)])), prop("s", qvar("m", "a"))]),
        E::App(None, "f".into(), vec![num(), E::Prim(Prim::Str)]),
    ]
}

/// (import statement, placed after the declarations instead of before them)
fn imports() -> Vec<(Option<Stmt>, bool)> {
    vec![
        (None, false),
        (Some(Stmt::Use("m.oal".into(), None)), false),
        (Some(Stmt::Use("m.oal".into(), Some("m".into()))), false),
        (Some(Stmt::Use("m.oal".into(), Some("a".into()))), false),
        (Some(Stmt::Use("m.oal".into(), None)), true),
        (Some(Stmt::Use("m.oal".into(), Some("m".into()))), true),
    ]
}

fn module_m(variant: usize) -> Module {
    let stmts = match variant {
        0 => vec![
            let_("a", E::Prim(Prim::Str)),
            let_("b", obj(vec![prop("mb", var("a"))])),
        ],
        _ => vec![
            let_("a", E::Prim(Prim::Bool)),
            fun("f", &["x"], obj(vec![prop("mf", var("x")), prop("ma", var("a"))])),
        ],
    };
    Module {
        name: "m.oal".into(),
        stmts,
    }
}

pub struct Space {
    decls: Vec<Stmt>,
    k: usize,
}

impl Space {
    pub fn new(k: usize, full: bool) -> Space {
        let mut decls = Vec::new();
        for (n, ps) in heads(full) {
            for b in bodies(full) {
                decls.push(fun(n, &ps, b));
            }
        }
        Space { decls, k }
    }
    /// A small menu for longer declaration sequences.
    pub fn small(k: usize) -> Space {
        let bodies = vec![
            num(),
            var("a"),
            var("x"),
            obj(vec![prop("k", var("a"))]),
            obj(vec![prop("k", var("x"))]),
            E::App(None, "f".into(), vec![var("a")]),
            E::App(None, "f".into(), vec![var("x"), var("a")]),
            E::Rec("x".into(), Box::new(obj(vec![prop("k", arr(var("x")))]))),
            obj(vec![prop("k", var("a")), prop("j", var("x"))]),
            obj(vec![prop("k", E::Rec("x".into(), Box::new(arr(var("x"))))), prop("j", var("x"))]),
        ];
        let mut decls = Vec::new();
        for (n, ps) in [("a", vec![]), ("b", vec![]), ("f", vec!["x"]), ("f", vec!["x", "a"])] {
            for b in bodies.iter() {
                decls.push(fun(n, &ps, b.clone()));
            }
        }
        Space { decls, k }
    }
    pub fn count(&self) -> u64 {
        let d = self.decls.len() as u64;
        let seqs: u64 = (0..=self.k as u32).map(|i| d.pow(i)).sum();
        seqs * (imports().len() * 2 * finals().len()) as u64
    }
    pub fn program(&self, mut idx: u64) -> Program {
        let fin = finals();
        let imps = imports();
        let f = (idx % fin.len() as u64) as usize;
        idx /= fin.len() as u64;
        let mv = (idx % 2) as usize;
        idx /= 2;
        let im = (idx % imps.len() as u64) as usize;
        idx /= imps.len() as u64;
        // idx now selects the declaration sequence: lengths 0, 1, .., k in that order.
        let d = self.decls.len() as u64;
        let mut len = 0u32;
        let mut rest = idx;
        while rest >= d.pow(len) {
            rest -= d.pow(len);
            len += 1;
        }
        let mut stmts = Vec::new();
        if let (Some(u), false) = &imps[im] {
            stmts.push(u.clone());
        }
        for _ in 0..len {
            stmts.push(self.decls[(rest % d) as usize].clone());
            rest /= d;
        }
        if let (Some(u), true) = &imps[im] {
            stmts.push(u.clone());
        }
        stmts.push(Stmt::Res(rel(uri_lit(&[""]), vec![xfer(Method::Get, content(fin[f].clone()))])));
        let mut modules = vec![Module {
            name: "main.oal".into(),
            stmts,
        }];
        if imps[im].0.is_some() {
            modules.push(module_m(mv));
        }
        Program { modules }
    }
}

/// (module, start, end) of the identifier that binds, for a definition of the real tree.
fn binder_span(mods: &oal_compiler::module::ModuleSet, d: &Definition) -> Option<(String, usize, usize)> {
    match d {
        Definition::Internal(_) => None,
        Definition::External(ext) => {
            let node = ext.node(mods);
            let ident = if let Some(decl) = syn::Declaration::<Core>::cast(node) {
                decl.identifier().node()
            } else if syn::Binding::<Core>::cast(node).is_some() {
                node.first()
            } else {
                return Some(("<neither declaration nor binding>".into(), 0, 0));
            };
            let s = ident.span()?;
            Some((pipeline::module_name(s.locator()), s.start(), s.end()))
        }
    }
}

pub fn judge(p: &Program) -> Outcome {
    let printed = print(p);
    let reso = refsem::resolve(p, &printed);
    let files = pipeline::files_of(&printed.texts);
    let case = || c02::program_json(p, &printed.texts);
    let loaded = match guard(|| pipeline::load(&files, "main.oal")) {
        Err(_) => return Outcome::ok("compile-panic (C04)", None),
        Ok(r) => r,
    };
    let name_error = reso.duplicates || reso.unbound;
    match loaded {
        Err(e) => {
            let class = e.class();
            if reso.unspecified.is_some() {
                // A parameter name written twice leaves open which parameter a use denotes, not
                // whether uses have a binder: every use still has one.
                if reso.unspecified == Some("duplicate parameter name") && class == "NotInScope" && !reso.unbound {
                    return Outcome::bad(
                        "spurious-name-error",
                        format!("rejected with {class} | every use has a binder (a parameter name is written twice)"),
                        format!("{e:?}").chars().take(300).collect(),
                        case(),
                    );
                }
                return Outcome::ok("unspecified collision: rejected", None);
            }
            if name_error {
                // Any rejection is fine; a name error must be one the reference also sees.
                let ok = match class {
                    "NotInScope" => reso.unbound,
                    "InvalidIdentifier" => reso.duplicates || reso.decl_vs_import,
                    _ => true,
                };
                if ok {
                    Outcome::ok("name error rejected", Some(hash_of(&("rej", class, reso.duplicates, reso.unbound))))
                } else {
                    Outcome::bad(
                        "wrong-name-error",
                        format!("rejected with {class} | reference sees no such name error"),
                        format!("reference: duplicates={} unbound={}", reso.duplicates, reso.unbound),
                        case(),
                    )
                }
            } else if class == "InvalidIdentifier" && reso.decl_vs_import {
                Outcome::ok("declaration vs unqualified import reported as a duplicate", Some(hash_of("dvi")))
            } else if class == "NotInScope" || class == "InvalidIdentifier" {
                Outcome::bad(
                    "spurious-name-error",
                    format!("rejected with {class} | every use has a binder and no declaration is duplicated"),
                    format!("{e:?}").chars().take(300).collect(),
                    case(),
                )
            } else {
                Outcome::ok("rejected for another reason", Some(hash_of(&("other", class))))
            }
        }
        Ok(mods) => {
            if reso.unspecified.is_some() {
                // Only "does not crash" is required: run the back end and say so if it does.
                if let Err(pi) = guard(|| pipeline::emit(&mods)) {
                    return Outcome::bad(
                        "crash",
                        format!("panic {} | accepted program with a collision the language leaves open", panic_site(&pi)),
                        format!("accepted, then panic at {}: {}", pi.location, pi.message.chars().take(160).collect::<String>()),
                        case(),
                    );
                }
                return Outcome::ok("unspecified collision: accepted", None);
            }
            if name_error {
                return Outcome::bad(
                    "name-error-accepted",
                    format!(
                        "accepted | {}",
                        if reso.duplicates { "duplicate declaration" } else { "use without a binder" }
                    ),
                    "the compiler accepts a program with a name error".into(),
                    case(),
                );
            }
            // Binding table of the real trees.
            let mut table: HashMap<(String, usize, usize), Option<(String, usize, usize)>> = HashMap::new();
            for (name, _) in printed.texts.iter() {
                let Some(tree) = mods.get(&pipeline::locator(name)) else {
                    continue;
                };
                for node in tree.root().descendants() {
                    if let Some(v) = syn::Variable::<Core>::cast(node) {
                        let id = v.identifier().node().span().unwrap();
                        let def = node.syntax().core_ref().definition().cloned();
                        let b = def.as_ref().and_then(|d| binder_span(&mods, d));
                        table.insert((name.clone(), id.start(), id.end()), b);
                    }
                }
            }
            for (oi, bind) in reso.uses.iter() {
                let o = &printed.occs[*oi];
                let mname = printed.texts[o.module].0.clone();
                // Modules that main does not reach are not loaded.
                if mods.get(&pipeline::locator(&mname)).is_none() {
                    continue;
                }
                let got = table.get(&(mname.clone(), o.start, o.end));
                let want = match bind {
                    Bind::Binder(b) => {
                        let bo = &printed.occs[*b];
                        Some((printed.texts[bo.module].0.clone(), bo.start, bo.end))
                    }
                    Bind::Builtin => None,
                    _ => continue,
                };
                match got {
                    None => {
                        return Outcome::bad(
                            "missing-variable",
                            "no variable node at an identifier use".into(),
                            format!("use `{}` at {}..{} of {mname}", o.text, o.start, o.end),
                            case(),
                        )
                    }
                    Some(g) if *g != want => {
                        let kind = match bind {
                            Bind::Binder(b) => format!("{:?}", printed.occs[*b].kind),
                            _ => "Builtin".into(),
                        };
                        return Outcome::bad(
                            "wrong-binder",
                            format!("definition differs from the lexical binder | expected a {kind}"),
                            format!(
                                "use `{}` at {}..{} of {mname}: definition {g:?}, lexical binder {want:?}",
                                o.text, o.start, o.end
                            ),
                            case(),
                        );
                    }
                    _ => {}
                }
            }
            // Evaluation honours the same binding: the document equals the lexically
            // scoped reference evaluation.
            let out = c02::judge(p, false);
            match out.violation {
                // Collisions of paths / @names are C02's business (D6, D7), not binding.
                Some(_) if refsem::last_notes().iter().any(|n| n.contains("path") || n.contains("@name")) => {
                    Outcome::ok("program with a path or @name collision (see C02)", None)
                }
                Some(mut v) => {
                    v.signature = format!("evaluation does not honour lexical binding | {}", v.signature);
                    Outcome {
                        tag: "evaluation differs",
                        class: None,
                        violation: Some(v),
                    }
                }
                None => Outcome::ok("bindings and document agree", out.class),
            }
        }
    }
}

impl Engine for C08 {
    fn id(&self) -> &'static str {
        "C08"
    }
    fn engine_name(&self) -> &'static str {
        "progspace"
    }
    fn phases(&self, tier: Tier) -> Vec<Phase> {
        let mut v = vec![
            Phase::new("programs with <= 1 declaration", json!({"k":1,"full":true})),
            Phase::new("programs with 2 declarations (reduced body menu)", json!({"k":2,"full":false})),
        ];
        v.push(Phase::new("module fragments: imports, qualifiers, sub-directories, relative spellings (F8), scoping (F5), collisions (F10)", json!({"frags":[7,4,9]})));
        if tier == Tier::Thorough {
            v.push(Phase::new("programs with 2 declarations (full body menu)", json!({"k":2,"full":true})));
            v.push(Phase::new("programs with 3 declarations (small menu: 4 heads x 10 bodies)", json!({"k":3,"full":false,"small":true})));
            v.push(Phase::new("two modules: function bodies <= 2 x arguments <= 2 x 12 use sites (the generated space of C01)", json!({"two":2})));
        }
        v
    }
    fn run_phase(&self, phase: &Phase, sink: &mut Sink) {
        if let Some(fs) = phase.param["frags"].as_array() {
            let mut idx = 0u64;
            for f in fs {
                for p in crate::frags::fragment(f.as_u64().unwrap() as usize, false).programs.iter() {
                    if sink.mine(idx) {
                        if sink.expired() {
                            return;
                        }
                        sink.visit(idx, || c02::program_json(p, &print(p).texts), |_| judge(p));
                    }
                    idx += 1;
                }
            }
            return;
        }
        if phase.param["two"].as_u64().is_some() {
            let all = crate::space::agnostic_exprs(2);
            let terms: Vec<&E> = all[1].iter().chain(all[2].iter()).collect();
            let mut idx = 0u64;
            for b in terms.iter() {
                for a in terms.iter() {
                    for site in 0..crate::space::N_SITES {
                        if sink.mine(idx) {
                            if sink.expired() {
                                return;
                            }
                            let p = crate::space::two_module(b, a, site);
                            sink.visit(idx, || c02::program_json(&p, &print(&p).texts), |_| judge(&p));
                        }
                        idx += 1;
                    }
                }
            }
            return;
        }
        let k = phase.param["k"].as_u64().unwrap() as usize;
        let full = phase.param["full"].as_bool().unwrap();
        let space = if phase.param["small"].as_bool().unwrap_or(false) { Space::small(k) } else { Space::new(k, full) };
        let total = space.count();
        let mut idx = sink.single().unwrap_or(sink.shard);
        while idx < total {
            if sink.expired() {
                break;
            }
            let p = space.program(idx);
            sink.visit(idx, || c02::program_json(&p, &print(&p).texts), |_| judge(&p));
            if sink.single().is_some() {
                break;
            }
            idx += sink.nshards;
        }
    }
    fn replay(&self, case: &Value) -> Outcome {
        match serde_json::from_value::<Program>(case["ast"].clone()) {
            Ok(p) => judge(&p),
            Err(_) => Outcome::ok("replay needs the ast", None),
        }
    }
    fn rule(&self) -> String {
        "every program made of an optional import of m.oal (unqualified, `as m`, `as a`, written before or after the declarations; two variants of m), a sequence of <= k declarations from heads {a, b, f x, f a, f x a, …} x bodies {num, a, b, x, m.a, {'k u}, f u, rec x {'k [u]}, rec a {'k [u]}, …} and one of 4 final uses; names are drawn from colliding pools so that parameters, rec binders, declarations and imports shadow each other. Oracle: definition() of every variable node == binder of the reference lexical resolver; unbound use / duplicate declaration <=> rejected with NotInScope / InvalidIdentifier; emitted document == lexically scoped reference evaluation. Non-trivial = accepted or rejected with a name error; distinct = distinct documents / rejection classes".into()
    }
    fn assumptions(&self) -> Vec<String> {
        vec!["a declaration with the name of something an unqualified import provides: the declaration must win if the program is accepted; reporting the pair as a duplicate (InvalidIdentifier) is tolerated".into(), "collisions the property does not order (declaration vs built-in, two imports providing one name, duplicate parameter names) are explored for crashes only".into()]
    }
}
