//! C07 — type inference terminates and its verdict is independent of order and names.
//!
//! Part (1) of DESIGN.md §4 C07: the **equation-system space**, fed directly to the real
//! unifier through hook H1 (`oal_compiler::verif`).
//!
//! Space. A *term universe* T(V, C, depth, size) holds every term of depth <= `depth` and at
//! most `size` nodes over the variables v0..v(V-1), the first C constants of
//! {Text, Object, Primitive}, `Property(t)`, `Func([t],t)` and `Func([t,t],t)`, enumerated
//! simplest first (by node count, then constructor, then children). An *equation* is an
//! unordered pair {l, r} of universe terms (l = r allowed), a *system* is a multiset of E
//! equations. Systems are ranked by the combinatorial number system over the equation
//! indices, so the space is index-addressable and every worker jumps straight to its own
//! indices. For every system the subject is run on **all E! orders of its equations x all
//! 2^E orientations** (duplicates removed).
//!
//! Oracle. A textbook Robinson unifier over this module's own term type with a complete
//! occurs check (through `Property` and every position of `Func`), producing an idempotent
//! most general unifier.
//!  (a) `InferenceSet::unify` and `reduce` terminate (worker watchdog, stack overflow and
//!      OOM are attributed to the case by the explorer);
//!  (b) `unify` is `Ok` iff the reference finds the system solvable, and the error is
//!      `errors::Kind::InvalidType`;
//!  (c) on success the vector `reduce(sets, v)` for v in v0..v(V-1) equals the vector
//!      `mgu(v)` up to one bijective renaming of the remaining free variables (both vectors
//!      are renamed by first occurrence and compared), `reduce` is idempotent on its answers;
//!  (d) verdict and canonical solution are identical over all orders and orientations.

use crate::explore::*;
use oal_compiler::errors::Kind;
use oal_compiler::verif::{reduce, FuncTag, InferenceSet, Seq, Tag};
use oal_model::locator::Locator;
use serde_json::{json, Value};
use std::collections::HashMap;
use std::sync::OnceLock;

pub struct C07;

const LISTED_PER_SIGNATURE: u32 = 200;
const UNIFY_SITE: &str = "oal-compiler/src/inference/unify.rs InferenceSet::unify";
const REDUCE_SITE: &str = "oal-compiler/src/inference/union.rs reduce";

// ---------------------------------------------------------------------------
// Terms of the reference side

/// Names of the constant kinds; the enumerated alphabet is a prefix of this list, the rest
/// is only there so that any tag coming back from the subject can be represented.
const CONSTS: [&str; 11] = [
    "Text",
    "Object",
    "Primitive",
    "Number",
    "Status",
    "Relation",
    "Content",
    "Transfer",
    "Array",
    "Uri",
    "Any",
];

/// Index given to a tag variable that the subject invented (never part of the input).
const FOREIGN_VAR: u8 = 255;

#[derive(Clone, PartialEq, Eq, Hash, Debug, PartialOrd, Ord)]
pub enum Term {
    Var(u8),
    Con(u8),
    Prop(Box<Term>),
    Func(Vec<Term>, Box<Term>),
}

impl Term {
    fn show(&self) -> String {
        match self {
            Term::Var(i) => format!("v{i}"),
            Term::Con(c) => CONSTS[*c as usize].to_owned(),
            Term::Prop(t) => format!("Property({})", t.show()),
            Term::Func(bs, r) => format!(
                "Func([{}],{})",
                bs.iter().map(|b| b.show()).collect::<Vec<_>>().join(","),
                r.show()
            ),
        }
    }

    /// Parses the syntax written by `show`.
    fn parse(s: &str) -> Option<Term> {
        let b = s.as_bytes();
        let mut pos = 0usize;
        let t = Term::parse_at(b, &mut pos)?;
        skip_ws(b, &mut pos);
        (pos == b.len()).then_some(t)
    }

    fn parse_at(b: &[u8], pos: &mut usize) -> Option<Term> {
        skip_ws(b, pos);
        let start = *pos;
        while *pos < b.len() && b[*pos].is_ascii_alphanumeric() {
            *pos += 1;
        }
        let word = std::str::from_utf8(&b[start..*pos]).ok()?;
        match word {
            "Property" => {
                expect(b, pos, b'(')?;
                let t = Term::parse_at(b, pos)?;
                expect(b, pos, b')')?;
                Some(Term::Prop(Box::new(t)))
            }
            "Func" => {
                expect(b, pos, b'(')?;
                expect(b, pos, b'[')?;
                let mut bs = vec![];
                loop {
                    skip_ws(b, pos);
                    if *pos < b.len() && b[*pos] == b']' {
                        *pos += 1;
                        break;
                    }
                    if !bs.is_empty() {
                        expect(b, pos, b',')?;
                    }
                    bs.push(Term::parse_at(b, pos)?);
                }
                expect(b, pos, b',')?;
                let r = Term::parse_at(b, pos)?;
                expect(b, pos, b')')?;
                Some(Term::Func(bs, Box::new(r)))
            }
            w => {
                if let Some(i) = CONSTS.iter().position(|c| *c == w) {
                    Some(Term::Con(i as u8))
                } else if let Some(n) = w.strip_prefix('v') {
                    n.parse::<u8>().ok().map(Term::Var)
                } else {
                    None
                }
            }
        }
    }

    fn has_var(&self, x: u8) -> bool {
        match self {
            Term::Var(y) => *y == x,
            Term::Con(_) => false,
            Term::Prop(t) => t.has_var(x),
            Term::Func(bs, r) => r.has_var(x) || bs.iter().any(|b| b.has_var(x)),
        }
    }

    /// Replaces every variable by `f(variable)`.
    fn subst(&self, f: &impl Fn(u8) -> Term) -> Term {
        match self {
            Term::Var(x) => f(*x),
            Term::Con(c) => Term::Con(*c),
            Term::Prop(t) => Term::Prop(Box::new(t.subst(f))),
            Term::Func(bs, r) => Term::Func(
                bs.iter().map(|b| b.subst(f)).collect(),
                Box::new(r.subst(f)),
            ),
        }
    }
}

fn skip_ws(b: &[u8], pos: &mut usize) {
    while *pos < b.len() && b[*pos] == b' ' {
        *pos += 1;
    }
}

fn expect(b: &[u8], pos: &mut usize, c: u8) -> Option<()> {
    skip_ws(b, pos);
    if *pos < b.len() && b[*pos] == c {
        *pos += 1;
        Some(())
    } else {
        None
    }
}

// ---------------------------------------------------------------------------
// Reference: Robinson unification with a complete occurs check

#[derive(Clone, Copy, PartialEq, Eq, Debug, Hash)]
pub enum Fail {
    /// Two different constructors (constant / Property / Func) meet.
    Clash,
    /// Two functions with a different number of bindings meet.
    Arity,
    /// A variable would have to contain itself.
    Occurs,
}

impl Fail {
    fn name(&self) -> &'static str {
        match self {
            Fail::Clash => "constructor clash",
            Fail::Arity => "function arity mismatch",
            Fail::Occurs => "self-containing type (occurs check)",
        }
    }
}

/// Solves the system. `Ok(answers)`: `answers[v]` is the image of variable `v` under an
/// idempotent most general unifier (a free variable is its own image).
pub fn ref_unify(nv: usize, eqs: &[(Term, Term)]) -> Result<Vec<Term>, Fail> {
    ref_unify_with(nv, eqs, None)
}

/// With `carry_on`, a failing pair is recorded and skipped instead of ending the run: used
/// only to name the cause class of a deviation (which kinds of conflict the system holds).
fn ref_unify_with(
    nv: usize,
    eqs: &[(Term, Term)],
    mut carry_on: Option<&mut Vec<Fail>>,
) -> Result<Vec<Term>, Fail> {
    macro_rules! fail {
        ($f:expr) => {
            match carry_on.as_mut() {
                Some(seen) => {
                    seen.push($f);
                    continue;
                }
                None => return Err($f),
            }
        };
    }
    // sigma is kept fully applied: no bound variable occurs in any image.
    let mut sigma: Vec<Option<Term>> = vec![None; nv];
    let mut work: Vec<(Term, Term)> = eqs.iter().rev().cloned().collect();
    while let Some((s, t)) = work.pop() {
        let apply = |x: u8| sigma[x as usize].clone().unwrap_or(Term::Var(x));
        let s = s.subst(&apply);
        let t = t.subst(&apply);
        if s == t {
            continue;
        }
        match (s, t) {
            (Term::Var(x), t) | (t, Term::Var(x)) => {
                if t.has_var(x) {
                    fail!(Fail::Occurs);
                }
                let bind = |y: u8| if y == x { t.clone() } else { Term::Var(y) };
                for img in sigma.iter_mut().flatten() {
                    *img = img.subst(&bind);
                }
                sigma[x as usize] = Some(t);
            }
            (Term::Prop(a), Term::Prop(b)) => work.push((*a, *b)),
            (Term::Func(ab, ar), Term::Func(bb, br)) => {
                if ab.len() != bb.len() {
                    fail!(Fail::Arity);
                }
                work.push((*ar, *br));
                for (a, b) in ab.into_iter().zip(bb).rev() {
                    work.push((a, b));
                }
            }
            _ => fail!(Fail::Clash),
        }
    }
    Ok((0..nv)
        .map(|v| sigma[v].clone().unwrap_or(Term::Var(v as u8)))
        .collect())
}

/// Renames the variables of a vector of terms by first occurrence (left to right). Two
/// vectors are equal up to a bijective renaming of their variables iff their canonical
/// forms are equal.
fn canon(answers: &[Term]) -> Vec<Term> {
    fn go(t: &Term, map: &mut Vec<u8>) -> Term {
        match t {
            Term::Var(x) => {
                let i = match map.iter().position(|y| y == x) {
                    Some(i) => i,
                    None => {
                        map.push(*x);
                        map.len() - 1
                    }
                };
                Term::Var(i as u8)
            }
            Term::Con(c) => Term::Con(*c),
            Term::Prop(p) => Term::Prop(Box::new(go(p, map))),
            Term::Func(bs, r) => {
                let bs = bs.iter().map(|b| go(b, map)).collect();
                Term::Func(bs, Box::new(go(r, map)))
            }
        }
    }
    let mut map = Vec::new();
    answers.iter().map(|t| go(t, &mut map)).collect()
}

/// Does the substitution `v -> answers[v]` make both sides of every equation equal?
fn solves(answers: &[Term], eqs: &[(Term, Term)]) -> bool {
    let f = |x: u8| {
        answers
            .get(x as usize)
            .cloned()
            .unwrap_or(Term::Var(x))
    };
    eqs.iter().all(|(l, r)| l.subst(&f) == r.subst(&f))
}

fn idempotent(answers: &[Term]) -> bool {
    let f = |x: u8| {
        answers
            .get(x as usize)
            .cloned()
            .unwrap_or(Term::Var(x))
    };
    answers.iter().all(|t| t.subst(&f) == *t)
}

// ---------------------------------------------------------------------------
// Bridge to the subject's tags

fn var_tags() -> &'static Vec<Tag> {
    static VARS: OnceLock<Vec<Tag>> = OnceLock::new();
    VARS.get_or_init(|| {
        let loc = Locator::try_from("file:///c07.oal").expect("locator");
        let mut seq = Seq::new(loc);
        (0..8).map(|_| Tag::Var(seq.next())).collect()
    })
}

fn const_tag(c: u8) -> Tag {
    match c {
        0 => Tag::Text,
        1 => Tag::Object,
        2 => Tag::Primitive,
        3 => Tag::Number,
        4 => Tag::Status,
        5 => Tag::Relation,
        6 => Tag::Content,
        7 => Tag::Transfer,
        8 => Tag::Array,
        9 => Tag::Uri,
        _ => Tag::Any,
    }
}

fn to_tag(t: &Term) -> Tag {
    match t {
        Term::Var(x) => var_tags()[*x as usize].clone(),
        Term::Con(c) => const_tag(*c),
        Term::Prop(p) => Tag::Property(Box::new(to_tag(p))),
        Term::Func(bs, r) => Tag::Func(FuncTag {
            bindings: bs.iter().map(to_tag).collect(),
            range: Box::new(to_tag(r)),
        }),
    }
}

fn from_tag(t: &Tag) -> Term {
    match t {
        Tag::Var(_) => Term::Var(
            var_tags()
                .iter()
                .position(|v| v == t)
                .map(|i| i as u8)
                .unwrap_or(FOREIGN_VAR),
        ),
        Tag::Property(p) => Term::Prop(Box::new(from_tag(p))),
        Tag::Func(FuncTag { bindings, range }) => Term::Func(
            bindings.iter().map(from_tag).collect(),
            Box::new(from_tag(range)),
        ),
        Tag::Text => Term::Con(0),
        Tag::Object => Term::Con(1),
        Tag::Primitive => Term::Con(2),
        Tag::Number => Term::Con(3),
        Tag::Status => Term::Con(4),
        Tag::Relation => Term::Con(5),
        Tag::Content => Term::Con(6),
        Tag::Transfer => Term::Con(7),
        Tag::Array => Term::Con(8),
        Tag::Uri => Term::Con(9),
        Tag::Any => Term::Con(10),
    }
}

/// What the real unifier did with one ordered, oriented list of equations.
enum Obs {
    Accepted {
        /// `reduce(sets, v)` for every variable.
        answers: Vec<Term>,
        /// `reduce(sets, reduce(sets, v))` for every variable.
        again: Vec<Term>,
    },
    Rejected {
        invalid_type: bool,
        message: String,
    },
}

fn run_subject(nv: usize, eqs: &[(Term, Term)]) -> Result<Obs, PanicInfo> {
    let pairs: Vec<(Tag, Tag)> = eqs.iter().map(|(l, r)| (to_tag(l), to_tag(r))).collect();
    guard(move || {
        let mut set = InferenceSet::new();
        for (l, r) in pairs {
            set.push(l, r, None);
        }
        match set.unify() {
            Ok(sets) => {
                let answers: Vec<Tag> = var_tags()[..nv].iter().map(|v| reduce(&sets, v)).collect();
                let again: Vec<Tag> = answers.iter().map(|t| reduce(&sets, t)).collect();
                Obs::Accepted {
                    answers: answers.iter().map(from_tag).collect(),
                    again: again.iter().map(from_tag).collect(),
                }
            }
            Err(e) => Obs::Rejected {
                invalid_type: matches!(e.kind, Kind::InvalidType),
                message: e.to_string(),
            },
        }
    })
}

// ---------------------------------------------------------------------------
// One system: all orders and orientations against the reference

fn show_system(eqs: &[(Term, Term)]) -> String {
    eqs.iter()
        .map(|(l, r)| format!("{} = {}", l.show(), r.show()))
        .collect::<Vec<_>>()
        .join("; ")
}

fn show_answers(a: &[Term]) -> String {
    a.iter()
        .enumerate()
        .map(|(i, t)| format!("v{i} := {}", t.show()))
        .collect::<Vec<_>>()
        .join(", ")
}

fn permutations(n: usize) -> Vec<Vec<usize>> {
    fn go(rest: &mut Vec<usize>, cur: &mut Vec<usize>, out: &mut Vec<Vec<usize>>) {
        if rest.is_empty() {
            out.push(cur.clone());
            return;
        }
        for i in 0..rest.len() {
            let x = rest.remove(i);
            cur.push(x);
            go(rest, cur, out);
            cur.pop();
            rest.insert(i, x);
        }
    }
    let mut out = vec![];
    go(&mut (0..n).collect(), &mut vec![], &mut out);
    out
}

/// Every order of the equations x every orientation (or, when `orient_all` is false, every
/// order with no / all equations flipped plus every orientation of the given order),
/// without duplicates; the given order and orientation comes first.
fn variants(eqs: &[(Term, Term)], orient_all: bool) -> Vec<Vec<(Term, Term)>> {
    let e = eqs.len();
    let full: u32 = (1u32 << e) - 1;
    let mut out: Vec<Vec<(Term, Term)>> = vec![];
    for (pi, perm) in permutations(e).iter().enumerate() {
        for mask in 0..=full {
            if !(orient_all || pi == 0 || mask == 0 || mask == full) {
                continue;
            }
            let v: Vec<(Term, Term)> = perm
                .iter()
                .map(|&k| {
                    let (l, r) = &eqs[k];
                    if mask >> k & 1 == 1 {
                        (r.clone(), l.clone())
                    } else {
                        (l.clone(), r.clone())
                    }
                })
                .collect();
            if !out.contains(&v) {
                out.push(v);
            }
        }
    }
    out
}

struct Checked {
    tag: &'static str,
    class: Option<u64>,
    /// Number of runs of the real unifier and number of equations fed to it.
    runs: u64,
    fed: u64,
    /// (signature, summary)
    bad: Option<(String, String)>,
}

fn reference_verdict(nv: usize, eqs: &[(Term, Term)]) -> Result<Vec<Term>, Fail> {
    let reference = ref_unify(nv, eqs);
    // Self-checks of the oracle; a failure here is a bug of the harness, not a verdict.
    let rev: Vec<(Term, Term)> = eqs
        .iter()
        .rev()
        .map(|(l, r)| (r.clone(), l.clone()))
        .collect();
    let other = ref_unify(nv, &rev);
    match (&reference, &other) {
        (Ok(a), Ok(b)) => {
            assert!(
                canon(a) == canon(b),
                "reference unifier: solution depends on the order for {}",
                show_system(eqs)
            );
            assert!(
                solves(a, eqs) && idempotent(a),
                "reference unifier: answer is not an idempotent solution of {}",
                show_system(eqs)
            );
        }
        (Err(_), Err(_)) => {}
        _ => panic!(
            "reference unifier: verdict depends on the order for {}",
            show_system(eqs)
        ),
    }
    reference
}

/// Cause class of a deviation: the gravest kind of conflict the system holds (found by the
/// reference when it carries on after a conflict), so that it does not depend on which
/// conflict an order of the equations happens to meet first.
fn cause_class(nv: usize, eqs: &[(Term, Term)]) -> String {
    let mut seen = vec![];
    let _ = ref_unify_with(nv, eqs, Some(&mut seen));
    for f in [Fail::Occurs, Fail::Arity, Fail::Clash] {
        if seen.contains(&f) {
            return format!("unsolvable system: {}", f.name());
        }
    }
    "solvable system".to_owned()
}

fn check_system(nv: usize, eqs: &[(Term, Term)], orient_all: bool) -> Checked {
    let reference = reference_verdict(nv, eqs);
    let expected: Option<Vec<Term>> = reference.as_ref().ok().map(|a| canon(a));
    let vs = variants(eqs, orient_all);
    let nvariants = vs.len();

    let mut runs = 0u64;
    let mut fed = 0u64;
    // First deviation from the reference, and how many variants deviate.
    let mut first_bad: Option<(String, String, String)> = None; // (kind, site, detail)
    let mut deviating = 0usize;
    // (d) what the subject concluded per variant: None = rejected, Some(canonical solution).
    let mut verdicts: Vec<Option<Vec<Term>>> = Vec::with_capacity(nvariants);

    for v in vs.iter() {
        runs += 1;
        fed += v.len() as u64;
        let obs = match run_subject(nv, v) {
            Ok(o) => o,
            Err(p) => {
                return Checked {
                    tag: "panic",
                    class: None,
                    runs,
                    fed,
                    bad: Some((
                        format!("panic | {} | {}", panic_site(&p), cause_class(nv, eqs)),
                        format!(
                            "unify/reduce panicked on [{}]: {} at {}",
                            show_system(v),
                            p.message,
                            p.location
                        ),
                    )),
                }
            }
        };
        let mut dev: Option<(String, String, String)> = None;
        match obs {
            Obs::Rejected {
                invalid_type,
                message,
            } => {
                verdicts.push(None);
                if !invalid_type {
                    dev = Some((
                        "error of a kind other than InvalidType".into(),
                        UNIFY_SITE.into(),
                        format!("[{}] rejected with \"{message}\"", show_system(v)),
                    ));
                } else if let Ok(mgu) = &reference {
                    dev = Some((
                        "solvable system rejected".into(),
                        UNIFY_SITE.into(),
                        format!(
                            "[{}] rejected with \"{message}\", reference solution: {}",
                            show_system(v),
                            show_answers(mgu)
                        ),
                    ));
                }
            }
            Obs::Accepted { answers, again } => {
                let c = canon(&answers);
                if again != answers {
                    dev = Some((
                        "reduce is not idempotent".into(),
                        REDUCE_SITE.into(),
                        format!(
                            "[{}]: reduce gives {}, reducing the answers again gives {}",
                            show_system(v),
                            show_answers(&answers),
                            show_answers(&again)
                        ),
                    ));
                } else {
                    match &reference {
                        Err(f) => {
                            dev = Some((
                                "unsolvable system accepted".into(),
                                UNIFY_SITE.into(),
                                format!(
                                    "[{}] accepted with {}, reference: {}",
                                    show_system(v),
                                    show_answers(&answers),
                                    f.name()
                                ),
                            ));
                        }
                        Ok(mgu) => {
                            if Some(&c) != expected.as_ref() {
                                let what = if answers.iter().any(|t| t.has_var(FOREIGN_VAR)) {
                                    "answer holds a variable that is not part of the system"
                                } else if !solves(&answers, eqs) {
                                    "answer is not a solution of the system"
                                } else {
                                    "answer is a solution but not the most general one"
                                };
                                dev = Some((
                                    format!("solution differs from the most general unifier: {what}"),
                                    REDUCE_SITE.into(),
                                    format!(
                                        "[{}]: reduce gives {}, reference (up to renaming) {}",
                                        show_system(v),
                                        show_answers(&answers),
                                        show_answers(mgu)
                                    ),
                                ));
                            }
                        }
                    }
                }
                verdicts.push(Some(c));
            }
        }
        if let Some(d) = dev {
            deviating += 1;
            if first_bad.is_none() {
                first_bad = Some(d);
            }
        }
    }

    let uniform = verdicts.windows(2).all(|w| w[0] == w[1]);
    if let Some((kind, site, detail)) = first_bad {
        let scope = if deviating == nvariants {
            "in every order and orientation"
        } else {
            "depending on the order or orientation of the equations"
        };
        return Checked {
            tag: "disagree",
            class: None,
            runs,
            fed,
            bad: Some((
                format!("{kind} | {site} | {}, {scope}", cause_class(nv, eqs)),
                format!(
                    "system {{{}}} ({deviating} of {nvariants} orders/orientations deviate): {detail}",
                    show_system(eqs)
                ),
            )),
        };
    }
    // Every variant agrees with the order-independent reference, hence with each other.
    assert!(uniform, "variants agree with the reference but not with each other");

    let trivial = eqs.iter().all(|(l, r)| l == r);
    let (tag, class) = match &reference {
        Ok(_) if trivial => ("accepted-trivial", None),
        Ok(_) => ("accepted", Some(hash_of(&("accepted", &expected)))),
        Err(Fail::Clash) => ("rejected-clash", Some(hash_of(&("rejected", "clash")))),
        Err(Fail::Arity) => ("rejected-arity", Some(hash_of(&("rejected", "arity")))),
        Err(Fail::Occurs) => ("rejected-occurs", Some(hash_of(&("rejected", "occurs")))),
    };
    Checked {
        tag,
        class,
        runs,
        fed,
        bad: None,
    }
}

// ---------------------------------------------------------------------------
// The space: term universe, equations, systems

/// All terms with exactly `size` nodes and depth <= `depth`, in a fixed order.
fn terms_exact(
    size: usize,
    depth: usize,
    atoms: &[Term],
    memo: &mut HashMap<(usize, usize), Vec<Term>>,
) -> Vec<Term> {
    if size == 0 {
        return vec![];
    }
    if size == 1 {
        return atoms.to_vec();
    }
    if depth == 0 {
        return vec![];
    }
    if let Some(v) = memo.get(&(size, depth)) {
        return v.clone();
    }
    let mut out = vec![];
    // Property(t)
    for t in terms_exact(size - 1, depth - 1, atoms, memo) {
        out.push(Term::Prop(Box::new(t)));
    }
    // Func([a], r)
    for sa in 1..size.saturating_sub(1) {
        let sr = size - 1 - sa;
        if sr == 0 {
            continue;
        }
        let as_ = terms_exact(sa, depth - 1, atoms, memo);
        let rs = terms_exact(sr, depth - 1, atoms, memo);
        for a in as_.iter() {
            for r in rs.iter() {
                out.push(Term::Func(vec![a.clone()], Box::new(r.clone())));
            }
        }
    }
    // Func([a, b], r)
    for sa in 1..size {
        for sb in 1..size {
            if sa + sb + 1 >= size {
                continue;
            }
            let sr = size - 1 - sa - sb;
            let as_ = terms_exact(sa, depth - 1, atoms, memo);
            let bs = terms_exact(sb, depth - 1, atoms, memo);
            let rs = terms_exact(sr, depth - 1, atoms, memo);
            for a in as_.iter() {
                for b in bs.iter() {
                    for r in rs.iter() {
                        out.push(Term::Func(vec![a.clone(), b.clone()], Box::new(r.clone())));
                    }
                }
            }
        }
    }
    memo.insert((size, depth), out.clone());
    out
}

/// The universe T(V, C, depth, size), simplest first.
pub fn universe(nv: usize, nc: usize, depth: usize, size: usize) -> Vec<Term> {
    let mut atoms: Vec<Term> = (0..nv).map(|i| Term::Var(i as u8)).collect();
    atoms.extend((0..nc).map(|c| Term::Con(c as u8)));
    let mut memo = HashMap::new();
    let mut out = vec![];
    for s in 1..=size {
        out.extend(terms_exact(s, depth, &atoms, &mut memo));
    }
    out
}

fn binom(n: u64, k: usize) -> u64 {
    let n = n as u128;
    let r: u128 = match k {
        0 => 1,
        1 => n,
        2 => n * n.saturating_sub(1) / 2,
        3 => n * n.saturating_sub(1) * n.saturating_sub(2) / 6,
        _ => {
            let mut r: u128 = 1;
            for i in 0..k as u128 {
                r = r * n.saturating_sub(i) / (i + 1);
            }
            r
        }
    };
    u64::try_from(r).expect("space too large for a 64-bit index")
}

/// Index of the unordered pair {l, r}, l <= r.
fn pair_rank(l: u32, r: u32) -> u64 {
    let (l, r) = if l <= r { (l, r) } else { (r, l) };
    (r as u64) * (r as u64 + 1) / 2 + l as u64
}

fn pair_unrank(p: u64) -> (u32, u32) {
    let mut r = (((8.0 * p as f64 + 1.0).sqrt() - 1.0) / 2.0) as u64;
    while r * (r + 1) / 2 > p {
        r -= 1;
    }
    while (r + 1) * (r + 2) / 2 <= p {
        r += 1;
    }
    ((p - r * (r + 1) / 2) as u32, r as u32)
}

struct Space {
    nv: usize,
    e: usize,
    terms: Vec<Term>,
    npairs: u64,
    total: u64,
    sym: bool,
    orient_all: bool,
    /// For every non-identity permutation of the variables: term index -> term index.
    renamings: Vec<Vec<u32>>,
}

impl Space {
    fn new(param: &Value) -> Space {
        let nv = param["V"].as_u64().unwrap() as usize;
        let nc = param["C"].as_u64().unwrap() as usize;
        let depth = param["depth"].as_u64().unwrap() as usize;
        let size = param["size"].as_u64().unwrap() as usize;
        let e = param["E"].as_u64().unwrap() as usize;
        let sym = param["sym"].as_bool().unwrap_or(false);
        let orient_all = param["orient"].as_str().unwrap_or("all") == "all";
        let terms = universe(nv, nc, depth, size);
        let u = terms.len() as u64;
        let npairs = u * (u + 1) / 2;
        let total = binom(npairs + e as u64 - 1, e);
        let mut renamings = vec![];
        if sym {
            let index: HashMap<&Term, u32> = terms
                .iter()
                .enumerate()
                .map(|(i, t)| (t, i as u32))
                .collect();
            for perm in permutations(nv).into_iter().skip(1) {
                let f = |x: u8| Term::Var(perm[x as usize] as u8);
                renamings.push(terms.iter().map(|t| index[&t.subst(&f)]).collect());
            }
        }
        Space {
            nv,
            e,
            terms,
            npairs,
            total,
            sym,
            orient_all,
            renamings,
        }
    }

    /// The system of rank `idx`: E equation indices, non-decreasing (combinatorial number
    /// system over strictly increasing c_i = e_i + i, colexicographic order).
    fn system(&self, idx: u64) -> Vec<u64> {
        let mut r = idx;
        let mut out = vec![0u64; self.e];
        let mut hi = self.npairs + self.e as u64; // exclusive upper bound of c
        for i in (1..=self.e).rev() {
            // largest c in [i-1, hi) with binom(c, i) <= r
            let (mut lo, mut up) = (i as u64 - 1, hi);
            while up - lo > 1 {
                let mid = lo + (up - lo) / 2;
                if binom(mid, i) <= r {
                    lo = mid;
                } else {
                    up = mid;
                }
            }
            r -= binom(lo, i);
            out[i - 1] = lo - (i as u64 - 1);
            hi = lo;
        }
        out
    }

    /// True when no renaming of the variables gives a smaller system.
    fn canonical(&self, sys: &[u64]) -> bool {
        let mut img = [0u64; 8];
        for m in self.renamings.iter() {
            for (k, p) in sys.iter().enumerate() {
                let (l, r) = pair_unrank(*p);
                img[k] = pair_rank(m[l as usize], m[r as usize]);
            }
            let img = &mut img[..sys.len()];
            img.sort_unstable();
            // compare as (largest equation first), the order of the enumeration
            for k in (0..sys.len()).rev() {
                if img[k] < sys[k] {
                    return false;
                }
                if img[k] > sys[k] {
                    break;
                }
            }
        }
        true
    }

    fn equations(&self, sys: &[u64]) -> Vec<(Term, Term)> {
        sys.iter()
            .map(|p| {
                let (l, r) = pair_unrank(*p);
                (self.terms[l as usize].clone(), self.terms[r as usize].clone())
            })
            .collect()
    }
}

fn describe_system(nv: usize, orient_all: bool, eqs: &[(Term, Term)]) -> Value {
    json!({
        "kind": "systems",
        "V": nv,
        "orient": if orient_all { "all" } else { "base" },
        "equations": eqs.iter().map(|(l, r)| json!([l.show(), r.show()])).collect::<Vec<_>>(),
    })
}

fn parse_case(case: &Value) -> Option<(usize, bool, Vec<(Term, Term)>)> {
    let nv = case["V"].as_u64()? as usize;
    let orient_all = case["orient"].as_str().unwrap_or("all") == "all";
    let mut eqs = vec![];
    for e in case["equations"].as_array()? {
        let l = Term::parse(e.get(0)?.as_str()?)?;
        let r = Term::parse(e.get(1)?.as_str()?)?;
        eqs.push((l, r));
    }
    Some((nv, orient_all, eqs))
}

fn outcome_of(c: Checked, case: Value) -> Outcome {
    match c.bad {
        Some((sig, summary)) => Outcome::bad(c.tag, sig, summary, case),
        None => Outcome::ok(c.tag, c.class),
    }
}

fn run_systems(phase: &Phase, sink: &mut Sink) {
    let sp = Space::new(&phase.param);
    let step = sink.nshards.max(1);
    let mut idx = match sink.mode {
        Mode::Describe(i) | Mode::Only(i) => i,
        Mode::Run => {
            // Index-addressable space: jump straight to this shard's first case >= from.
            let from = sink.from;
            let base = from - from % step + sink.shard;
            if base < from {
                base + step
            } else {
                base
            }
        }
    };
    let mut skipped = 0u64;
    // A broken unifier deviates on a large share of the space: every signature is listed
    // (with replay input) at most LISTED_PER_SIGNATURE times per worker, the rest is counted.
    let mut listed: HashMap<String, u32> = HashMap::new();
    while idx < sp.total {
        if sink.expired() {
            break;
        }
        let sys = sp.system(idx);
        if sp.sym && sink.single().is_none() && !sp.canonical(&sys) {
            skipped += 1;
            idx += step;
            continue;
        }
        let eqs = sp.equations(&sys);
        let pending = std::mem::take(&mut skipped);
        sink.visit(
            idx,
            || describe_system(sp.nv, sp.orient_all, &eqs),
            |s| {
                let mut c = check_system(sp.nv, &eqs, sp.orient_all);
                if let Some((sig, _)) = &c.bad {
                    let n = listed.entry(sig.clone()).or_insert(0);
                    *n += 1;
                    if *n > LISTED_PER_SIGNATURE {
                        c.bad = None;
                        c.class = None;
                        c.tag = "disagree-not-listed";
                        s.count("violations_not_listed", 1);
                    }
                }
                s.count("states", 1);
                s.count("transitions", c.fed);
                s.count("unify_runs", c.runs);
                if pending > 0 {
                    s.count("renamed_duplicates_skipped", pending);
                }
                outcome_of(c, Value::Null)
            },
        );
        if sink.single().is_some() {
            break;
        }
        idx += step;
    }
}

fn systems_phase(name: &str, v: u64, c: u64, depth: u64, size: u64, e: u64, sym: bool, orient: &str) -> Phase {
    let u = universe(v as usize, c as usize, depth as usize, size as usize).len() as u64;
    let total = binom(u * (u + 1) / 2 + e - 1, e as usize);
    Phase::new(
        name,
        json!({
            "kind": "systems", "V": v, "C": c, "depth": depth, "size": size, "E": e,
            "sym": sym, "orient": orient, "terms": u, "systems_before_symmetry": total,
        }),
    )
}

impl Engine for C07 {
    fn id(&self) -> &'static str {
        "C07"
    }
    fn engine_name(&self) -> &'static str {
        "unifspace"
    }
    fn phases(&self, tier: Tier) -> Vec<Phase> {
        let mut ps = vec![
            systems_phase("systems E=1 V=2 depth<=2 size<=5", 2, 3, 2, 5, 1, false, "all"),
            systems_phase("systems E=2 V=2 depth<=2 size<=3", 2, 3, 2, 3, 2, false, "all"),
            systems_phase("systems E=2 V=2 C=1 depth<=2 size<=4", 2, 1, 2, 4, 2, false, "all"),
            systems_phase("systems E=3 V=2 depth<=1 size<=2", 2, 3, 1, 2, 3, false, "all"),
            systems_phase("systems E=3 V=2 C=1 depth<=1 size<=3", 2, 1, 1, 3, 3, false, "all"),
            systems_phase(
                "systems E=3 V=3 C=1 depth<=1 size<=3 modulo variable renaming",
                3, 1, 1, 3, 3, true, "base",
            ),
        ];
        // every constant kind of the implementation (a special case for one of them, e.g. a
        // kind that "matches everything", shows as a wrong verdict or as order dependence)
        ps.push(systems_phase("systems E=1 V=2 C=11 (every constant kind) depth<=1 size<=2", 2, 11, 1, 2, 1, false, "all"));
        ps.push(systems_phase("systems E=3 V=1 C=11 (every constant kind) depth 0", 1, 11, 0, 1, 3, false, "all"));
        ps.extend(crate::props::c07_programs::phases(tier));
        if tier == Tier::Thorough {
            ps.push(systems_phase("systems E=2 V=2 depth<=1", 2, 3, 1, 4, 2, false, "all"));
            ps.push(systems_phase(
                "systems E=3 V=3 depth<=2 size<=3 modulo variable renaming",
                3, 3, 2, 3, 3, true, "base",
            ));
        }
        ps
    }
    fn run_phase(&self, phase: &Phase, sink: &mut Sink) {
        match phase.param["kind"].as_str() {
            Some("systems") => run_systems(phase, sink),
            Some("programs") => crate::props::c07_programs::run(phase, sink),
            other => panic!("C07: unknown phase kind {other:?}"),
        }
    }
    fn replay(&self, case: &Value) -> Outcome {
        match case["kind"].as_str() {
            Some("programs") | Some("programs-variant") => crate::props::c07_programs::replay(case),
            Some("systems") => match parse_case(case) {
                Some((nv, orient_all, eqs)) => {
                    outcome_of(check_system(nv, &eqs, orient_all), case.clone())
                }
                None => Outcome::bad(
                    "unreadable",
                    "unreadable replay case".into(),
                    "cannot parse the equations of the replay file".into(),
                    case.clone(),
                ),
            },
            _ => Outcome::bad(
                "unreadable",
                "unreadable replay case".into(),
                "unknown case kind".into(),
                case.clone(),
            ),
        }
    }
    fn rule(&self) -> String {
        "kind=programs: every program of the kind-agnostic space (<= k constructors x 26 contexts) and of fragments F5, F6 is compiled under ALL permutations of the statements of each module (all n! for n <= 4) and under two consistent renamings of all identifiers (fresh names; a rotation of the program's own names), each again under all permutations: accept/reject and errors::Kind must not change, and for single-module programs must equal the verdict of the reference kind checker (lexical resolution, Robinson unifier, kind predicates, cycle rule). kind=systems: term universe T(V,C,depth,size) = every term of depth <= depth and <= size nodes over v0..v(V-1), the first C of {Text,Object,Primitive}, Property(t), Func([t],t), Func([t,t],t), simplest first; an equation is an unordered pair of universe terms, a system a multiset of E equations, ranked by the combinatorial number system (index-addressable, sharded by index). Every system is pushed into the real InferenceSet in ALL E! orders x ALL 2^E orientations (duplicates removed), unify() is run, reduce(sets, v) is taken for every variable and reduced again; verdict, errors::Kind and the solution vector renamed by first occurrence are compared with a Robinson unifier with complete occurs check written over the engine's own term type (itself checked per system for order independence, idempotence and solving the system). sym=true phases explore one system per orbit of variable renamings (orbit minimum); renaming independence itself is decided by the sym=false phases, where every naming is executed and compared with the same name-blind reference. A system is trivial when every equation has two identical sides; distinct = hash of (verdict, failure class | canonical most general solution)".into()
    }
    fn assumptions(&self) -> Vec<String> {
        vec![
            "depth-2 universes are bounded by node count as well (the full depth-2 universe over 5 atoms has 4.1 M terms); the bound of each phase is stated in its param".into(),
            "the message of a rejection (recursive type / arity / mismatch) may depend on the order of the equations; the property speaks of the class of error, i.e. errors::Kind".into(),
            "when the subject deviates on more than 200 cases with the same signature in one worker, the further ones are counted (outcome disagree-not-listed) but not listed as violations".into(),
            "phases with sym=true rely on the unreduced phases for independence of variable names".into(),
        ]
    }
    fn case_budget_ms(&self) -> u64 {
        5_000
    }
    fn crash_signature(&self, kind: &str, case: &Value) -> String {
        // Which order or orientation crashed is not known, and the kind of conflict an
        // unsolvable system shows depends on the order: the cause class stays coarse.
        let cause = match parse_case(case) {
            Some((nv, _, eqs)) => match ref_unify(nv, &eqs) {
                Ok(_) => "solvable system",
                Err(_) => "unsolvable system",
            },
            None => "unknown case",
        };
        format!("{kind} | {UNIFY_SITE} / reduce | {cause}")
    }
    fn state_counters(&self, m: &Stats) -> Option<(u64, u64, u64)> {
        let s = *m.counters.get("states").unwrap_or(&0);
        let t = *m.counters.get("transitions").unwrap_or(&0);
        Some((s, t, s))
    }
}

#[cfg(test)]
mod tests {
    use super::*;
    use std::collections::HashSet;

    fn space(v: u64, c: u64, depth: u64, size: u64, e: u64, sym: bool) -> Space {
        Space::new(&systems_phase("t", v, c, depth, size, e, sym, "all").param)
    }

    #[test]
    fn universe_sizes() {
        assert_eq!(universe(2, 3, 1, 4).len(), 160);
        assert_eq!(universe(2, 3, 2, 3).len(), 40);
        assert_eq!(universe(3, 3, 1, 4).len(), 264);
        assert_eq!(universe(2, 1, 2, 4).len(), 72);
        let u = universe(2, 3, 2, 5);
        assert_eq!(u.iter().collect::<HashSet<_>>().len(), u.len());
        for t in u.iter() {
            assert_eq!(Term::parse(&t.show()).as_ref(), Some(t));
        }
    }

    #[test]
    fn unranking_is_a_bijection() {
        let sp = space(2, 1, 1, 2, 3, false);
        let mut seen = HashSet::new();
        for i in 0..sp.total {
            let s = sp.system(i);
            assert!(s.windows(2).all(|w| w[0] <= w[1]) && *s.last().unwrap() < sp.npairs);
            assert!(seen.insert(s));
        }
        assert_eq!(seen.len() as u64, sp.total);
        for p in 0..sp.npairs {
            let (l, r) = pair_unrank(p);
            assert!(l <= r && pair_rank(l, r) == p);
        }
    }

    #[test]
    fn one_canonical_system_per_orbit() {
        let sp = space(3, 1, 1, 2, 2, true);
        // orbits counted directly: normal form = minimum over all renamings
        let mut orbits = HashSet::new();
        let mut canonical = 0;
        for i in 0..sp.total {
            let s = sp.system(i);
            let mut best = s.clone();
            for m in sp.renamings.iter() {
                let mut img: Vec<u64> = s
                    .iter()
                    .map(|p| {
                        let (l, r) = pair_unrank(*p);
                        pair_rank(m[l as usize], m[r as usize])
                    })
                    .collect();
                img.sort_unstable();
                let key = |v: &Vec<u64>| v.iter().rev().cloned().collect::<Vec<_>>();
                if key(&img) < key(&best) {
                    best = img;
                }
            }
            orbits.insert(best);
            if sp.canonical(&s) {
                canonical += 1;
            }
        }
        assert_eq!(canonical, orbits.len());
    }

    #[test]
    fn reference_examples() {
        let t = |s: &str| Term::parse(s).unwrap();
        assert_eq!(ref_unify(1, &[(t("v0"), t("Property(v0)"))]), Err(Fail::Occurs));
        assert_eq!(ref_unify(1, &[(t("v0"), t("Func([Text],Func([v0],Text))"))]), Err(Fail::Occurs));
        assert_eq!(ref_unify(1, &[(t("Text"), t("Object"))]), Err(Fail::Clash));
        assert_eq!(ref_unify(1, &[(t("Func([v0],Text)"), t("Func([v0,v0],Text)"))]), Err(Fail::Arity));
        assert_eq!(
            ref_unify(2, &[(t("v0"), t("Func([v1],v1)")), (t("v1"), t("Text"))]),
            Ok(vec![t("Func([Text],Text)"), t("Text")])
        );
        assert_eq!(canon(&[t("Func([v1],v0)"), t("v1")]), vec![t("Func([v0],v1)"), t("v0")]);
    }
}
