//! C15 — language-server answers depend only on current texts, not on edit history.
//!
//! Two explicit-state searches (DESIGN.md §4 C15).
//!
//! (a) **Edit transition relation**, in-process through hook H3. A state is a document
//!     text (every text of <= n symbols over {a, é, €, 😉, LF, CRLF, U+FEFF}); a transition is one
//!     `didChange` handed to the real `Workspace::change`: a range edit for every pair of
//!     positions start <= end (line 0..=lines+1, character 0..=maxcol+2, i.e. including
//!     positions past the end of a line and past the end of the text) with every
//!     replacement of {"", "b", "é", LF, "😉"CRLF}, a full-text change, and — for the
//!     smaller texts — batches of two changes in one notification (the second change's
//!     positions refer to the text after the first). Oracle: the server's copy, read back
//!     with `Workspace::verif_text`, equals the client-side buffer model
//!     (`textmodel::apply_edit`). Every transition from every state is checked, so every
//!     history over such texts is covered by induction: the server's copy cannot drift.
//!
//! (b) **Histories against the real `oal-lsp`** (driver: `lspdrv`). Workspace
//!     {oal.toml, main.oal, m.oal}, three initial disk contents, all histories of length
//!     <= d over open / change_full / change_incr / close / sync (/ idle 1.1 s), no
//!     deduplication by client-visible state. After each history: a final sync, then the
//!     observation vector (last published diagnostics per URI, answers to definition /
//!     references / prepareRename / rename at every identifier of the final texts,
//!     liveness) must equal that of a **fresh** server on the same disk contents that is
//!     handed the final open texts.

use crate::explore::*;
use crate::lspdrv::{Change, LspError, LspServer, TempWorkspace};
use crate::textmodel::*;
use lsp_types::{
    DidChangeTextDocumentParams, DidOpenTextDocumentParams, Position, Range,
    TextDocumentContentChangeEvent, TextDocumentItem, VersionedTextDocumentIdentifier,
};
use oal_client::lsp::Workspace;
use oal_model::locator::Locator;
use serde::Serialize;
use serde_json::{json, Value};
use std::collections::{BTreeMap, HashMap};
use std::time::Duration;

pub struct C15;

// ===========================================================================
// (a) edit transition relation, in-process
// ===========================================================================

/// Replacement texts of a range edit.
const REPLACEMENTS: [&str; 5] = ["", "b", "\u{e9}", "\n", "\u{1F609}\r\n"];
/// Texts of a full-text change.
const FULL_TEXTS: [&str; 3] = ["", "a\u{1F609}\r\n\u{e9}", "\u{20ac}\n"];
/// Replacements of the first change of a two-change batch (they move offsets, columns and lines).
const BATCH_FIRST: [&str; 3] = ["", "\u{e9}", "\u{1F609}\r\n"];
/// Replacement of the second change of a batch.
const BATCH_SECOND: &str = "b";
/// DESIGN.md §3.2 puts positions between the two UTF-16 units of one character outside the
/// property (no defined meaning), so a panic of `Workspace::change` there is counted in the
/// evidence (`a:panics at undefined positions`) but is not a violation. On the pinned tree
/// it does panic: didOpen("😉a"), didChange (0,1)-(0,2) := "" converts start to the end of
/// the line (5) and end to 4, and `replace_range(5..4)` panics (the real server exits).
const UNDEFINED_POSITIONS_MUST_NOT_PANIC: bool = true;

#[derive(Clone, Debug)]
enum Chg {
    Full(String),
    Range(Pos, Pos, String),
}

impl Chg {
    fn to_lsp(&self) -> TextDocumentContentChangeEvent {
        match self {
            Chg::Full(t) => TextDocumentContentChangeEvent {
                range: None,
                range_length: None,
                text: t.clone(),
            },
            Chg::Range(s, e, t) => TextDocumentContentChangeEvent {
                range: Some(Range {
                    start: Position {
                        line: s.line,
                        character: s.character,
                    },
                    end: Position {
                        line: e.line,
                        character: e.character,
                    },
                }),
                range_length: None,
                text: t.clone(),
            },
        }
    }
    /// The client's buffer after the change.
    fn model(&self, text: &str) -> String {
        match self {
            Chg::Full(t) => t.clone(),
            Chg::Range(s, e, t) => apply_edit(text, *s, *e, t),
        }
    }
    fn show(&self) -> String {
        match self {
            Chg::Full(t) => format!("full {t:?}"),
            Chg::Range(s, e, t) => format!(
                "({},{})-({},{}) := {t:?}",
                s.line, s.character, e.line, e.character
            ),
        }
    }
}

/// The real workspace, holding one document.
struct EditSubject {
    uri: lsp_types::Url,
    loc: Locator,
}

impl EditSubject {
    fn new() -> EditSubject {
        let uri = lsp_types::Url::parse("file:///t.oal").unwrap();
        let loc = Locator::from(uri.clone());
        EditSubject { uri, loc }
    }

    /// `didOpen(text)` then one `didChange` with the given content changes, on a new
    /// workspace; returns the server's copy.
    fn run(&self, text: &str, changes: &[Chg]) -> Result<Option<String>, PanicInfo> {
        let content_changes: Vec<_> = changes.iter().map(Chg::to_lsp).collect();
        guard(|| {
            let mut ws = Workspace::default();
            ws.open(DidOpenTextDocumentParams {
                text_document: TextDocumentItem {
                    uri: self.uri.clone(),
                    language_id: "oal".into(),
                    version: 1,
                    text: text.to_owned(),
                },
            })
            .ok()?;
            ws.change(DidChangeTextDocumentParams {
                text_document: VersionedTextDocumentIdentifier {
                    uri: self.uri.clone(),
                    version: 2,
                },
                content_changes,
            })
            .ok()?;
            ws.verif_text(&self.loc).map(str::to_owned)
        })
    }
}

/// Every position of the grid of a text, in lexicographic order, with its model offset
/// and whether it has a defined meaning (not inside a surrogate pair).
fn grid(text: &str) -> Vec<(Pos, bool)> {
    let t = LineTable::new(text);
    let max_col = t.max_col();
    let mut v = Vec::new();
    for line in 0..=(t.lines.len() as u32 + 1) {
        for character in 0..=(max_col + 2) {
            let p = Pos { line, character };
            let (_, exact) = t.offset(p);
            v.push((p, exact));
        }
    }
    v
}

struct EditStats {
    edits: u64,
    batches: u64,
    undefined_skipped: u64,
    undefined_panics: u64,
    obs: u64,
}

type EditFailure = (String, String); // (signature, summary)

fn check_one(
    subj: &EditSubject,
    text: &str,
    changes: &[Chg],
    kind: &str,
    st: &mut EditStats,
) -> Result<(), EditFailure> {
    let mut expect = text.to_owned();
    for c in changes {
        expect = c.model(&expect);
    }
    let shown = || changes.iter().map(Chg::show).collect::<Vec<_>>().join(" ; ");
    match subj.run(text, changes) {
        Err(p) => Err((
            format!("panic | {} | Workspace::change, {kind}", panic_site(&p)),
            format!(
                "didOpen({text:?}); didChange[{}] panicked: {} (client buffer: {expect:?})",
                shown(),
                p.message
            ),
        )),
        Ok(None) => Err((
            format!("document lost | Workspace::change | {kind}"),
            format!("didOpen({text:?}); didChange[{}]: the server has no copy", shown()),
        )),
        Ok(Some(got)) => {
            if got != expect {
                return Err((
                    format!("document drift | Workspace::change | {kind}"),
                    format!(
                        "didOpen({text:?}); didChange[{}]: server copy {got:?}, client buffer {expect:?}",
                        shown()
                    ),
                ));
            }
            st.obs = hash_of(&(st.obs, &got));
            Ok(())
        }
    }
}

/// Checks every transition that leaves one text. `batch`: also the two-change batches.
fn check_edits(text: &str, batch: bool) -> Result<EditStats, EditFailure> {
    let subj = EditSubject::new();
    let mut st = EditStats {
        edits: 0,
        batches: 0,
        undefined_skipped: 0,
        undefined_panics: 0,
        obs: 0,
    };
    // Full-text changes.
    for f in FULL_TEXTS.iter().copied().chain([text]) {
        check_one(&subj, text, &[Chg::Full(f.to_owned())], "full-text change", &mut st)?;
        st.edits += 1;
    }
    // Single range edits.
    let g = grid(text);
    for (i, (s, s_ok)) in g.iter().enumerate() {
        for (e, e_ok) in g[i..].iter() {
            for r in REPLACEMENTS {
                let c = Chg::Range(*s, *e, r.to_owned());
                if !(*s_ok && *e_ok) {
                    // Inside a surrogate pair: no defined meaning, no verdict on the text.
                    // Whether the real code panics there is counted, and only a violation
                    // when UNDEFINED_POSITIONS_MUST_NOT_PANIC is set.
                    st.undefined_skipped += 1;
                    if r.is_empty() {
                        if let Err(p) = subj.run(text, &[c.clone()]) {
                            st.undefined_panics += 1;
                            if UNDEFINED_POSITIONS_MUST_NOT_PANIC {
                                return Err((
                                    format!(
                                        "panic | {} | Workspace::change, position inside a surrogate pair",
                                        panic_site(&p)
                                    ),
                                    format!(
                                        "didOpen({text:?}); didChange[{}] panicked: {}",
                                        c.show(),
                                        p.message
                                    ),
                                ));
                            }
                        }
                    }
                    continue;
                }
                check_one(&subj, text, &[c], "range edit", &mut st)?;
                st.edits += 1;
            }
        }
    }
    if !batch {
        return Ok(st);
    }
    // Batches of two changes in one notification.
    for (i, (s1, s1_ok)) in g.iter().enumerate() {
        for (e1, e1_ok) in g[i..].iter() {
            if !(*s1_ok && *e1_ok) {
                continue;
            }
            for r1 in BATCH_FIRST {
                let first = Chg::Range(*s1, *e1, r1.to_owned());
                let mid = first.model(text);
                if mid == text {
                    // The first change is the identity: already covered by the single edits.
                    continue;
                }
                let g2 = grid(&mid);
                for (j, (s2, s2_ok)) in g2.iter().enumerate() {
                    for (e2, e2_ok) in g2[j..].iter() {
                        if !(*s2_ok && *e2_ok) {
                            continue;
                        }
                        let second = Chg::Range(*s2, *e2, BATCH_SECOND.to_owned());
                        check_one(
                            &subj,
                            text,
                            &[first.clone(), second],
                            "batch of two range edits",
                            &mut st,
                        )?;
                        st.batches += 1;
                    }
                }
            }
        }
    }
    // A range edit after a full-text change, and the reverse, in one notification.
    for f in FULL_TEXTS {
        for (s2, s2_ok) in grid(f).iter() {
            if !*s2_ok {
                continue;
            }
            let second = Chg::Range(*s2, *s2, BATCH_SECOND.to_owned());
            check_one(
                &subj,
                text,
                &[Chg::Full(f.to_owned()), second.clone()],
                "batch: full-text change then range edit",
                &mut st,
            )?;
            st.batches += 1;
        }
        if let Some((p, true)) = g.last() {
            check_one(
                &subj,
                text,
                &[Chg::Range(*p, *p, "b".into()), Chg::Full(f.to_owned())],
                "batch: range edit then full-text change",
                &mut st,
            )?;
            st.batches += 1;
        }
    }
    Ok(st)
}

fn run_edit_case(text: &str, batch: bool, sink: Option<&mut Sink>) -> Outcome {
    match check_edits(text, batch) {
        Ok(st) => {
            if let Some(sink) = sink {
                sink.count("states", 1);
                sink.count("transitions", st.edits + st.batches);
                sink.count("a:texts", 1);
                sink.count("a:single changes checked", st.edits);
                sink.count("a:two-change batches checked", st.batches);
                sink.count("a:edits at undefined positions (skipped)", st.undefined_skipped);
                sink.count(
                    "a:panics at undefined positions (no verdict)",
                    st.undefined_panics,
                );
            }
            let nontrivial = !text.is_ascii() || text.contains('\n');
            Outcome::ok(
                if nontrivial {
                    "a: server copy == client buffer"
                } else {
                    "a: server copy == client buffer (ascii, one line)"
                },
                if nontrivial { Some(st.obs ^ hash_of(text)) } else { None },
            )
        }
        Err((sig, summary)) => Outcome::bad(
            "a: DRIFT",
            sig,
            summary,
            json!({"part": "a", "text": text, "batch": batch}),
        ),
    }
}

// ===========================================================================
// (b) histories against the real oal-lsp
// ===========================================================================

const MAIN: usize = 0;
const MOD: usize = 1;
const FILES: [&str; 2] = ["main.oal", "m.oal"];

/// Text menu of `main.oal` (Appendix B: M0..M4).
const MAIN_TEXTS: [&str; 5] = [
    "use \"m.oal\" as m;\nres / on get -> <m.a>;",
    "use \"m.oal\" as m;\nres / on get -> <m.zz>;",
    "res / on get -> <>;",
    "res / on get -> <>",
    "/* \u{e9}\u{1F609} */ use \"m.oal\" as m;\r\nres / on get -> <m.a>;",
];
/// Text menu of `m.oal` (N0..N3).
const MOD_TEXTS: [&str; 4] = [
    "let a = str;",
    "let a = zz;",
    "let a = ;",
    "let a = str;\nlet b = 'p b;",
];

/// Initial disk contents (main.oal, m.oal).
const DISKS: [(&str, &str, &str); 3] = [
    ("ok/ok", MAIN_TEXTS[0], MOD_TEXTS[0]),
    ("ok/error", MAIN_TEXTS[0], MOD_TEXTS[2]),
    ("error/ok", MAIN_TEXTS[3], MOD_TEXTS[0]),
];

struct EditDef {
    name: &'static str,
    range: (u32, u32, u32, u32),
    text: &'static str,
}

/// Incremental edits of `main.oal`: the single-range replacements between menu texts.
/// Each is an event of its own: it is applied to whatever the current text is (the client
/// model says what the result is), so it also lands past the end of lines / of the text.
const MAIN_EDITS: [EditDef; 8] = [
    // M0 -> M1 (and M4 -> unbound name on a CRLF text): creates an unbound name
    EditDef { name: "unbind", range: (1, 19, 1, 20), text: "zz" },
    // M1 -> M0: repairs it
    EditDef { name: "rebind", range: (1, 19, 1, 21), text: "a" },
    // M0 -> M2: drops the import (a replacement spanning a line break)
    EditDef { name: "drop-import", range: (0, 0, 1, 20), text: "res / on get -> <" },
    // M2 -> M0: adds the import
    EditDef { name: "add-import", range: (0, 0, 0, 17), text: "use \"m.oal\" as m;\nres / on get -> <m.a" },
    // M2 -> M3: creates a syntax error at the end of the file
    EditDef { name: "cut-semicolon", range: (0, 18, 0, 19), text: "" },
    // M3 -> M2: insertion at the end of the file, addressed past the last line
    EditDef { name: "append-semicolon", range: (9, 0, 9, 0), text: ";" },
    // on M4: deletion spanning a CRLF line break, multi-byte characters before the edit point
    EditDef { name: "delete-import-line", range: (0, 10, 1, 0), text: "" },
    // on M0 / M1: the line break becomes a blank, so every later byte offset stays what it was
    // while its line and column change
    EditDef { name: "join-lines", range: (0, 17, 1, 0), text: " " },
];

const MOD_EDITS: [EditDef; 6] = [
    // N0 -> N1, N1 -> N0: unbound name and back
    EditDef { name: "unbind", range: (0, 8, 0, 11), text: "zz" },
    EditDef { name: "rebind", range: (0, 8, 0, 10), text: "str" },
    // N0 -> N2, N2 -> N0: syntax error and back
    EditDef { name: "cut-body", range: (0, 8, 0, 11), text: "" },
    EditDef { name: "insert-body", range: (0, 8, 0, 8), text: "str" },
    // N0 -> N3: insertion at the end of the file (type error: recursive property type)
    EditDef { name: "append-decl", range: (7, 0, 7, 0), text: "\nlet b = 'p b;" },
    // N3 -> N0: deletion spanning a line break
    EditDef { name: "delete-decl", range: (0, 12, 1, 14), text: "" },
];

fn menu(file: usize) -> &'static [&'static str] {
    if file == MAIN {
        &MAIN_TEXTS
    } else {
        &MOD_TEXTS
    }
}

fn edits(file: usize) -> &'static [EditDef] {
    if file == MAIN {
        &MAIN_EDITS
    } else {
        &MOD_EDITS
    }
}

const IDLE_MS: u64 = 1100;
/// A session that took longer than this is re-run (the 1 s idle refresh may have run).
const SLOW_MS: u128 = 800;

/// One concrete step of a history (self-contained: this is what a replay file holds).
#[derive(Clone, Debug, PartialEq)]
enum Step {
    Open(usize, String),
    Full(usize, String),
    Incr(usize, (u32, u32, u32, u32), String, String),
    Close(usize),
    Sync,
    Idle(u64),
}

impl Step {
    fn to_json(&self) -> Value {
        match self {
            Step::Open(f, t) => json!({"ev": "open", "file": FILES[*f], "text": t}),
            Step::Full(f, t) => json!({"ev": "change_full", "file": FILES[*f], "text": t}),
            Step::Incr(f, r, t, name) => json!({"ev": "change_incr", "file": FILES[*f],
                "range": [r.0, r.1, r.2, r.3], "text": t, "name": name}),
            Step::Close(f) => json!({"ev": "close", "file": FILES[*f]}),
            Step::Sync => json!({"ev": "sync"}),
            Step::Idle(ms) => json!({"ev": "idle", "ms": ms}),
        }
    }
    fn from_json(v: &Value) -> Option<Step> {
        let file = || FILES.iter().position(|f| Some(*f) == v["file"].as_str());
        let text = || v["text"].as_str().map(str::to_owned);
        Some(match v["ev"].as_str()? {
            "open" => Step::Open(file()?, text()?),
            "change_full" => Step::Full(file()?, text()?),
            "change_incr" => {
                let r = v["range"].as_array()?;
                let n = |i: usize| r.get(i).and_then(Value::as_u64).map(|x| x as u32);
                Step::Incr(
                    file()?,
                    (n(0)?, n(1)?, n(2)?, n(3)?),
                    text()?,
                    v["name"].as_str().unwrap_or("").to_owned(),
                )
            }
            "close" => Step::Close(file()?),
            "sync" => Step::Sync,
            "idle" => Step::Idle(v["ms"].as_u64().unwrap_or(IDLE_MS)),
            _ => return None,
        })
    }
    fn show(&self) -> String {
        match self {
            Step::Open(f, t) => format!("open({}, {t:?})", FILES[*f]),
            Step::Full(f, t) => format!("change_full({}, {t:?})", FILES[*f]),
            Step::Incr(f, r, t, _) => format!(
                "change_incr({}, ({},{})-({},{}) := {t:?})",
                FILES[*f], r.0, r.1, r.2, r.3
            ),
            Step::Close(f) => format!("close({})", FILES[*f]),
            Step::Sync => "sync".into(),
            Step::Idle(ms) => format!("idle {ms} ms"),
        }
    }
    fn kind(&self) -> &'static str {
        match self {
            Step::Open(..) => "b:events open",
            Step::Full(..) => "b:events change_full",
            Step::Incr(..) => "b:events change_incr",
            Step::Close(..) => "b:events close",
            Step::Sync => "b:events sync",
            Step::Idle(..) => "b:events idle",
        }
    }
}

/// The client's view: the text of each open document.
type Client = [Option<String>; 2];

fn range_positions(r: (u32, u32, u32, u32)) -> (Pos, Pos) {
    (
        Pos { line: r.0, character: r.1 },
        Pos { line: r.2, character: r.3 },
    )
}

/// Applies a step to the client model. `None`: the step is not legal for an LSP client in
/// this state (open of an open document, change / close of a closed one, a position inside
/// a surrogate pair).
fn client_step(c: &Client, s: &Step) -> Option<Client> {
    let mut n = c.clone();
    match s {
        Step::Open(f, t) => {
            if c[*f].is_some() {
                return None;
            }
            n[*f] = Some(t.clone());
        }
        Step::Full(f, t) => {
            c[*f].as_ref()?;
            n[*f] = Some(t.clone());
        }
        Step::Incr(f, r, t, _) => {
            let cur = c[*f].as_ref()?;
            let (s, e) = range_positions(*r);
            let lt = LineTable::new(cur);
            if !lt.offset(s).1 || !lt.offset(e).1 {
                return None;
            }
            n[*f] = Some(apply_edit(cur, s, e, t));
        }
        Step::Close(f) => {
            c[*f].as_ref()?;
            n[*f] = None;
        }
        Step::Sync | Step::Idle(_) => {}
    }
    Some(n)
}

/// All notifications of the event alphabet, in a fixed order (requests and idle periods
/// are placed between them by the schedule, see `Gaps`).
fn alphabet() -> Vec<Step> {
    let mut v = Vec::new();
    for f in [MAIN, MOD] {
        for t in menu(f) {
            v.push(Step::Open(f, (*t).to_owned()));
        }
    }
    for f in [MAIN, MOD] {
        for t in menu(f) {
            v.push(Step::Full(f, (*t).to_owned()));
        }
    }
    for f in [MAIN, MOD] {
        for e in edits(f) {
            v.push(Step::Incr(f, e.range, e.text.to_owned(), e.name.to_owned()));
        }
    }
    v.push(Step::Close(MAIN));
    v.push(Step::Close(MOD));
    v
}

/// Depth-first enumeration of all histories of exactly `depth` enabled events.
fn for_each_history(
    alphabet: &[Step],
    depth: usize,
    f: &mut dyn FnMut(&[usize]) -> bool, // returns false to stop
) {
    fn rec(
        alphabet: &[Step],
        depth: usize,
        client: &Client,
        path: &mut Vec<usize>,
        f: &mut dyn FnMut(&[usize]) -> bool,
    ) -> bool {
        if path.len() == depth {
            return f(path);
        }
        for (i, s) in alphabet.iter().enumerate() {
            if let Some(next) = client_step(client, s) {
                path.push(i);
                let go = rec(alphabet, depth, &next, path, f);
                path.pop();
                if !go {
                    return false;
                }
            }
        }
        true
    }
    let mut path = Vec::new();
    rec(alphabet, depth, &[None, None], &mut path, f);
}

// ----- observation ---------------------------------------------------------------------

type Diag = (u32, u32, u32, u32, String);

/// What a client can see of a server at the end of a session.
#[derive(Clone, Debug, PartialEq, Eq, Hash, Serialize)]
struct Obs {
    /// Last published diagnostics per file, sorted; files whose last publication is empty
    /// are left out ("never published" and "published empty" are the same to a client).
    diags: BTreeMap<String, Vec<Diag>>,
    /// "<method> <file> <line>:<character>" -> canonical answer.
    answers: BTreeMap<String, String>,
    alive: bool,
    /// "server died | <method> | <cause>", "no response | <method> | ...", or none.
    failure: Option<String>,
}

/// Canonical rendering of an answer: object keys sorted, arrays sorted and deduplicated
/// (locations and text edits are sets), URIs made relative to the workspace folder.
fn canon(v: &Value, folder_uri: &str) -> String {
    match v {
        Value::Null => "null".into(),
        Value::Bool(b) => b.to_string(),
        Value::Number(n) => n.to_string(),
        Value::String(s) => format!("{:?}", s.replace(folder_uri, "$WS")),
        Value::Array(a) => {
            let mut items: Vec<String> = a.iter().map(|x| canon(x, folder_uri)).collect();
            items.sort();
            items.dedup();
            format!("[{}]", items.join(","))
        }
        Value::Object(o) => {
            let mut items: Vec<String> = o
                .iter()
                .map(|(k, x)| format!("{}:{}", k.replace(folder_uri, "$WS"), canon(x, folder_uri)))
                .collect();
            items.sort();
            format!("{{{}}}", items.join(","))
        }
    }
}

fn canon_diags(v: &Value, folder_uri: &str) -> Vec<Diag> {
    let mut out: Vec<Diag> = v
        .as_array()
        .map(|a| {
            a.iter()
                .map(|d| {
                    let n = |p: &str, q: &str| d["range"][p][q].as_u64().unwrap_or(u64::MAX) as u32;
                    (
                        n("start", "line"),
                        n("start", "character"),
                        n("end", "line"),
                        n("end", "character"),
                        d["message"].as_str().unwrap_or("").replace(folder_uri, "$WS"),
                    )
                })
                .collect()
        })
        .unwrap_or_default();
    out.sort();
    out
}

/// Reserved words of the language: they lex as keywords, not as identifiers.
const KEYWORDS: [&str; 21] = [
    "let", "res", "use", "as", "on", "rec", "num", "str", "uri", "bool", "int", "get", "put",
    "post", "patch", "delete", "options", "head", "media", "headers", "status",
];

/// Start positions (line, UTF-16 character) of the identifiers of a text:
/// `[a-zA-Z_@][0-9a-zA-Z$_-]*` outside strings, comments, annotations and `'property` names.
fn identifier_positions(text: &str) -> Vec<(u32, u32)> {
    let b = text.as_bytes();
    let t = LineTable::new(text);
    let mut out = Vec::new();
    let mut i = 0;
    let is_start = |c: u8| c.is_ascii_alphabetic() || c == b'_' || c == b'@';
    let is_cont = |c: u8| c.is_ascii_alphanumeric() || c == b'$' || c == b'_' || c == b'-';
    while i < b.len() {
        let c = b[i];
        if c == b'"' {
            i += 1;
            while i < b.len() && b[i] != b'"' {
                i += 1;
            }
            i += 1;
        } else if c == b'/' && b.get(i + 1) == Some(&b'/') || c == b'#' {
            while i < b.len() && b[i] != b'\n' {
                i += 1;
            }
        } else if c == b'/' && b.get(i + 1) == Some(&b'*') {
            i += 2;
            while i < b.len() && !(b[i] == b'*' && b.get(i + 1) == Some(&b'/')) {
                i += 1;
            }
            i += 2;
        } else if c == b'`' {
            i += 1;
            while i < b.len() && b[i] != b'`' {
                i += 1;
            }
            i += 1;
        } else if c == b'\'' {
            i += 1;
            while i < b.len() && is_cont(b[i]) {
                i += 1;
            }
        } else if is_start(c) {
            let start = i;
            i += 1;
            while i < b.len() && is_cont(b[i]) {
                i += 1;
            }
            if !KEYWORDS.contains(&&text[start..i]) {
                let p = t.position(start);
                out.push((p.line, p.character));
            }
        } else {
            i += 1;
        }
    }
    out
}

const QUERY_METHODS: [&str; 4] = [
    "textDocument/definition",
    "textDocument/references",
    "textDocument/prepareRename",
    "textDocument/rename",
];

struct Session {
    obs: Obs,
    /// Wall time from the end of the handshake to the answer of the final sync.
    elapsed_ms: u128,
}

fn failure_of(srv: &mut LspServer, method: &str, e: &LspError) -> String {
    match e {
        LspError::ServerDied(_) => format!("server died | {method} | {}", srv.death_cause()),
        LspError::Timeout => format!("no response | {method} | server still running after 5 s"),
        LspError::Protocol(m) => {
            let m: String = m.chars().take_while(|c| *c != ':').take(40).collect();
            format!("protocol error | {method} | {m}")
        }
    }
}

/// Runs one session on the real server: the steps, a final sync, then the queries at every
/// identifier of `visible` (the text of each file as the client sees it at the end).
fn run_session(folder: &std::path::Path, steps: &[Step], visible: [&str; 2]) -> Session {
    let mut obs = Obs {
        diags: BTreeMap::new(),
        answers: BTreeMap::new(),
        alive: false,
        failure: None,
    };
    let mut srv = match LspServer::start(folder) {
        Ok(s) => s,
        Err(LspError::Protocol(m)) if m.starts_with("cannot spawn") || m.starts_with("workspace folder") => {
            // Not attributable to the subject: harness error (exit 2).
            panic!("C15 harness: {m}");
        }
        Err(e) => {
            obs.failure = Some(match e {
                LspError::ServerDied(x) => format!("server died | initialize | {x}"),
                LspError::Timeout => "no response | initialize | server still running after 5 s".into(),
                LspError::Protocol(m) => format!("protocol error | initialize | {m}"),
            });
            return Session { obs, elapsed_ms: 0 };
        }
    };
    let folder_uri = srv.folder_uri();
    'session: {
        for s in steps {
            // A notification that cannot be written means the server is gone; the next
            // request reports it with the exit status.
            let r = match s {
                Step::Open(f, t) => srv.open(FILES[*f], t),
                Step::Full(f, t) => srv.change_full(FILES[*f], t),
                // an edit whose name ends in "+noop" is sent with a second content change in the
                // same notification that changes nothing (empty range at 0:0, empty text)
                Step::Incr(f, r, t, name) if name.ends_with("+noop") => {
                    srv.change(FILES[*f], &[Change::Range(*r, t.clone()), Change::Range((0, 0, 0, 0), String::new())])
                }
                Step::Incr(f, r, t, _) => srv.change(FILES[*f], &[Change::Range(*r, t.clone())]),
                Step::Close(f) => srv.close(FILES[*f]),
                Step::Sync => srv.sync(),
                Step::Idle(ms) => {
                    srv.idle(Duration::from_millis(*ms));
                    Ok(())
                }
            };
            if let (Step::Sync, Err(e)) = (s, &r) {
                obs.failure = Some(failure_of(&mut srv, "textDocument/definition", e));
                break 'session;
            }
        }
        if let Err(e) = srv.sync() {
            obs.failure = Some(failure_of(&mut srv, "textDocument/definition", &e));
            break 'session;
        }
    }
    let elapsed_ms = srv.elapsed().as_millis();
    if obs.failure.is_none() {
        // All queries are pipelined; the server answers in order.
        let mut pending: Vec<(String, i64)> = Vec::new();
        'send: for (f, text) in visible.iter().enumerate() {
            // Every identifier, and the start of the file (not an identifier in the menu texts).
            let mut positions = identifier_positions(text);
            if !positions.contains(&(0, 0)) {
                positions.insert(0, (0, 0));
            }
            for (line, character) in positions {
                for method in QUERY_METHODS {
                    let extra = match method {
                        "textDocument/references" => json!({"context": {"includeDeclaration": true}}),
                        "textDocument/rename" => json!({"newName": "zz"}),
                        _ => Value::Null,
                    };
                    let params = srv.position_params(FILES[f], line, character, extra);
                    let key = format!(
                        "{} {} {line}:{character}",
                        method.trim_start_matches("textDocument/"),
                        FILES[f]
                    );
                    match srv.send_request(method, params) {
                        Ok(id) => pending.push((key, id)),
                        Err(_) => break 'send, // reported by the wait below
                    }
                }
            }
        }
        for (key, id) in pending {
            match srv.wait_response(id) {
                Ok(v) => {
                    obs.answers.insert(key, canon(&v, &folder_uri));
                }
                Err(e) => {
                    let method = srv.method_of(id).unwrap_or("?").to_owned();
                    obs.failure = Some(failure_of(&mut srv, &method, &e));
                    break;
                }
            }
        }
        if obs.failure.is_none() {
            // One more round trip: a server that died on the way out is noticed.
            if let Err(e) = srv.sync() {
                obs.failure = Some(failure_of(&mut srv, "textDocument/definition", &e));
            }
        }
    }
    srv.drain();
    for (uri, d) in srv.last_diagnostics.iter() {
        let d = canon_diags(d, &folder_uri);
        if !d.is_empty() {
            obs.diags.insert(srv.relative(uri).to_owned(), d);
        }
    }
    obs.alive = srv.is_alive();
    if !obs.alive && obs.failure.is_none() {
        obs.failure = Some(format!("server died | (idle) | {}", srv.death_cause()));
    }
    srv.shutdown();
    Session { obs, elapsed_ms }
}

// ----- oracle --------------------------------------------------------------------------

/// Per-worker state: one workspace folder per disk variant (the server never writes), and
/// the observations of fresh servers by (disk contents, final open texts).
#[derive(Default)]
struct Ctx {
    dirs: HashMap<(String, String), TempWorkspace>,
    fresh: HashMap<(String, String, Option<String>, Option<String>, bool), Obs>,
    counts: BTreeMap<&'static str, u64>,
}

impl Ctx {
    fn dir(&mut self, disk: (&str, &str)) -> std::path::PathBuf {
        self.dirs
            .entry((disk.0.to_owned(), disk.1.to_owned()))
            .or_insert_with(|| {
                TempWorkspace::new(&[(FILES[MAIN], disk.0), (FILES[MOD], disk.1)])
                    .unwrap_or_else(|e| panic!("C15 harness: cannot create a workspace folder: {e}"))
            })
            .path()
            .to_owned()
    }
    fn count(&mut self, k: &'static str, n: u64) {
        *self.counts.entry(k).or_default() += n;
    }
    fn flush(&mut self, sink: &mut Sink) {
        for (k, n) in std::mem::take(&mut self.counts) {
            sink.count(k, n);
        }
    }
}

fn fresh_steps(finals: &Client) -> Vec<Step> {
    let mut v = Vec::new();
    for f in [MAIN, MOD] {
        if let Some(t) = &finals[f] {
            v.push(Step::Open(f, t.clone()));
        }
    }
    v
}

/// First difference between the history server and the fresh server: (signature, detail).
fn difference(hist: &Obs, fresh: &Obs, finals: &Client) -> Option<(String, String)> {
    for (idx, f) in FILES.iter().enumerate() {
        let empty = Vec::new();
        let h = hist.diags.get(*f).unwrap_or(&empty);
        let r = fresh.diags.get(*f).unwrap_or(&empty);
        if h != r {
            let h_in_r = h.iter().all(|d| r.contains(d));
            let r_in_h = r.iter().all(|d| h.contains(d));
            let class = if r_in_h && !h_in_r {
                "stale diagnostic kept"
            } else if h_in_r && !r_in_h {
                "diagnostic missing"
            } else {
                "different diagnostics"
            };
            let open = if finals[idx].is_some() { "an open" } else { "a closed" };
            return Some((
                format!("diagnostics differ from a fresh server | publishDiagnostics | {class} for {open} document"),
                format!("last diagnostics of {f}: after the history {h:?}, fresh server {r:?}"),
            ));
        }
    }
    for f in hist.diags.keys().chain(fresh.diags.keys()) {
        if !FILES.contains(&f.as_str()) && hist.diags.get(f) != fresh.diags.get(f) {
            return Some((
                "diagnostics differ from a fresh server | publishDiagnostics | URI outside the workspace files".into(),
                format!(
                    "diagnostics of {f}: after the history {:?}, fresh server {:?}",
                    hist.diags.get(f),
                    fresh.diags.get(f)
                ),
            ));
        }
    }
    for k in hist.answers.keys().chain(fresh.answers.keys()) {
        let h = hist.answers.get(k);
        let r = fresh.answers.get(k);
        if h != r {
            let method = k.split(' ').next().unwrap_or("?");
            let is_empty = |x: Option<&String>| {
                x.map_or(true, |s| s == "null" || s == "[]" || s == "{changes:{}}")
            };
            let class = match (is_empty(h), is_empty(r)) {
                (false, true) => "answer after the history, none from the fresh server",
                (true, false) => "no answer after the history, one from the fresh server",
                _ => "different answers",
            };
            return Some((
                format!("answer differs from a fresh server | textDocument/{method} | {class}"),
                format!("{k}: after the history {h:?}, fresh server {r:?}"),
            ));
        }
    }
    if hist.alive != fresh.alive || hist.failure != fresh.failure {
        return Some((
            "liveness differs from a fresh server | process | different".into(),
            format!(
                "after the history alive={} {:?}, fresh server alive={} {:?}",
                hist.alive, hist.failure, fresh.alive, fresh.failure
            ),
        ));
    }
    None
}

fn history_json(disk: (&str, &str, &str), steps: &[Step]) -> Value {
    json!({
        "part": "b",
        "disk": {"name": disk.0, "main.oal": disk.1, "m.oal": disk.2},
        "events": steps.iter().map(Step::to_json).collect::<Vec<_>>(),
    })
}

/// What the oracle says about one history.
enum Verdict {
    /// Equal to the fresh server; the observation vector.
    Equal(Obs),
    /// Candidate difference that did not reproduce identically: no verdict.
    Nondeterministic,
    Violation { signature: String, summary: String, case: Value },
    /// Not a history a client may send.
    Illegal,
}

/// Final client state of a history (`None`: not legal for a client).
fn final_client(steps: &[Step]) -> Option<Client> {
    let mut client: Client = [None, None];
    for s in steps {
        client = client_step(&client, s)?;
    }
    Some(client)
}

/// Compares one history (its session `hist` was already run, or is run here) with a fresh
/// server handed the final texts.
fn check_history(
    ctx: &mut Ctx,
    disk: (&str, &str, &str),
    steps: &[Step],
    hist: Option<Session>,
) -> Verdict {
    let Some(finals) = final_client(steps) else {
        return Verdict::Illegal;
    };
    for s in steps {
        ctx.count(s.kind(), 1);
    }
    ctx.count("b:histories", 1);
    ctx.count("states", 1);
    ctx.count("transitions", steps.len() as u64);
    let visible_main = finals[MAIN].clone().unwrap_or_else(|| disk.1.to_owned());
    let visible_mod = finals[MOD].clone().unwrap_or_else(|| disk.2.to_owned());
    let visible = [visible_main.as_str(), visible_mod.as_str()];
    let folder = ctx.dir((disk.1, disk.2));
    let has_idle = steps.iter().any(|s| matches!(s, Step::Idle(_)));

    let mut hist = match hist {
        Some(h) => h,
        None => {
            ctx.count("b:server sessions", 1);
            run_session(&folder, steps, visible)
        }
    };
    if hist.elapsed_ms > SLOW_MS && !has_idle {
        // The idle refresh may have interleaved: run the history again.
        ctx.count("b:histories re-run because the session took > 0.8 s", 1);
        hist = run_session(&folder, steps, visible);
        ctx.count("b:server sessions", 1);
        if hist.elapsed_ms > SLOW_MS {
            ctx.count("b:histories slow twice (second run kept)", 1);
        }
    }
    let mut fsteps = fresh_steps(&finals);
    let settle = matches!(steps.last(), Some(Step::Idle(_)));
    if settle {
        fsteps.push(Step::Idle(IDLE_MS));
    }
    let key = (
        disk.1.to_owned(),
        disk.2.to_owned(),
        finals[MAIN].clone(),
        finals[MOD].clone(),
        settle,
    );
    let fresh = match ctx.fresh.get(&key).cloned() {
        Some(o) => {
            ctx.count("b:fresh-server observations reused", 1);
            o
        }
        None => {
            let s = run_session(&folder, &fsteps, visible);
            ctx.count("b:server sessions", 1);
            ctx.count("b:fresh-server observations computed", 1);
            ctx.fresh.insert(key.clone(), s.obs.clone());
            s.obs
        }
    };
    ctx.count(
        "b:requests answered",
        (hist.obs.answers.len() + steps.iter().filter(|s| **s == Step::Sync).count() + 2) as u64,
    );

    let verdict: Option<(String, String)> = if let Some(f) = &hist.obs.failure {
        // "server died | <method> | <cause>" is already a signature.
        Some((f.clone(), format!("the server of the history failed: {f}")))
    } else if let Some(f) = &fresh.failure {
        Some((
            f.clone(),
            format!("the fresh server that was handed the final texts failed: {f}"),
        ))
    } else {
        difference(&hist.obs, &fresh, &finals)
    };
    let Some((signature, detail)) = verdict else {
        return Verdict::Equal(hist.obs);
    };

    // Before reporting: the history twice more, and the fresh server once more, must give
    // the same observations; otherwise the harness cannot tell and says so.
    let h2 = run_session(&folder, steps, visible).obs;
    let h3 = run_session(&folder, steps, visible).obs;
    let f2 = run_session(&folder, &fsteps, visible).obs;
    ctx.count("b:server sessions", 3);
    if h2 != hist.obs || h3 != hist.obs || f2 != fresh {
        ctx.count("b:nondeterministic histories (no verdict)", 1);
        ctx.fresh.remove(&key);
        return Verdict::Nondeterministic;
    }
    let shown: Vec<String> = steps.iter().map(Step::show).collect();
    let summary = format!(
        "disk {} ; history [{}] ; finally open: main.oal={:?} m.oal={:?} ; {detail}",
        disk.0,
        shown.join("; "),
        finals[MAIN],
        finals[MOD]
    );
    Verdict::Violation {
        signature,
        summary,
        case: history_json(disk, steps),
    }
}

/// What happens between two consecutive notifications of a history.
#[derive(Clone, Copy, PartialEq, Eq, Debug)]
enum Gap {
    /// Nothing: the next notification follows at once.
    None,
    /// A request (the server refreshes and publishes before answering it).
    Sync,
    /// 1.1 s without any message (the server's idle refresh runs).
    Idle,
}

/// Which interleavings of requests / idle periods a phase explores.
#[derive(Clone, Copy, PartialEq, Eq, Debug)]
enum Gaps {
    /// Every gap from {nothing, request}: 2^(d-1) schedules.
    Plain,
    /// Every gap from {nothing, request, idle}, at least one idle.
    IdleAny,
    /// Exactly one idle gap, the others from {nothing, request}.
    IdleOne,
    /// Two schedules only: no request at all, or a request in every gap.
    Ends,
    /// Every gap from {nothing, request}; after the last notification nothing or a request,
    /// then 1.1 s without any message before the observation (the fresh server gets the
    /// final texts, then the same 1.1 s): what a client sees once the server has settled.
    Settle,
}

impl Gaps {
    fn name(&self) -> &'static str {
        match self {
            Gaps::Plain => "plain",
            Gaps::IdleAny => "idle-any",
            Gaps::IdleOne => "idle-one",
            Gaps::Settle => "settle",
            Gaps::Ends => "ends",
        }
    }
    fn parse(s: &str) -> Gaps {
        match s {
            "idle-any" => Gaps::IdleAny,
            "idle-one" => Gaps::IdleOne,
            "settle" => Gaps::Settle,
            "ends" => Gaps::Ends,
            _ => Gaps::Plain,
        }
    }
    /// All schedules for `d` notifications (d-1 gaps), in a fixed order.
    fn schedules(&self, d: usize) -> Vec<Vec<Gap>> {
        if *self == Gaps::Settle {
            // one more entry than there are gaps: what follows the last notification
            let mut out = Vec::new();
            if d == 0 {
                return vec![vec![Gap::None]];
            }
            for code in 0..(1u64 << d) {
                out.push((0..d).map(|k| if code >> k & 1 == 1 { Gap::Sync } else { Gap::None }).collect());
            }
            return out;
        }
        let gaps = d.saturating_sub(1);
        if *self == Gaps::Ends {
            return if gaps == 0 { vec![vec![]] } else { vec![vec![Gap::None; gaps], vec![Gap::Sync; gaps]] };
        }
        let menu = [Gap::None, Gap::Sync, Gap::Idle];
        let k = if *self == Gaps::Plain { 2 } else { 3 };
        let mut out = Vec::new();
        for mut code in 0..(k as u64).pow(gaps as u32) {
            let mut s = Vec::with_capacity(gaps);
            for _ in 0..gaps {
                s.push(menu[(code % k) as usize]);
                code /= k;
            }
            let idles = s.iter().filter(|g| **g == Gap::Idle).count();
            let keep = match self {
                Gaps::Plain => true,
                Gaps::IdleAny => idles >= 1,
                Gaps::IdleOne => idles == 1,
                Gaps::Settle | Gaps::Ends => unreachable!(),
            };
            if keep {
                out.push(s);
            }
        }
        out
    }
}

fn interleave(notes: &[Step], schedule: &[Gap]) -> Vec<Step> {
    let mut steps = Vec::new();
    for (k, n) in notes.iter().enumerate() {
        if k > 0 {
            match schedule[k - 1] {
                Gap::None => {}
                Gap::Sync => steps.push(Step::Sync),
                Gap::Idle => steps.push(Step::Idle(IDLE_MS)),
            }
        }
        steps.push(n.clone());
    }
    if schedule.len() == notes.len().max(1) && (schedule.len() > notes.len().saturating_sub(1)) {
        // a schedule with a trailing entry: settle before the observation
        if schedule.last() == Some(&Gap::Sync) {
            steps.push(Step::Sync);
        }
        steps.push(Step::Idle(IDLE_MS));
    }
    steps
}

fn case_json(disk: (&str, &str, &str), notes: &[Step], gaps: Gaps) -> Value {
    json!({
        "part": "b",
        "disk": {"name": disk.0, "main.oal": disk.1, "m.oal": disk.2},
        "notifications": notes.iter().map(Step::to_json).collect::<Vec<_>>(),
        "gaps": gaps.name(),
    })
}

/// One case of (b): one sequence of notifications under every schedule of the phase.
fn check_case(ctx: &mut Ctx, disk: (&str, &str, &str), notes: &[Step], gaps: Gaps) -> Outcome {
    let schedules = gaps.schedules(notes.len());
    let histories: Vec<Vec<Step>> = schedules.iter().map(|s| interleave(notes, s)).collect();
    // Sessions with idle periods mostly sleep: run those of one case side by side.
    let mut sessions: Vec<Option<Session>> = histories.iter().map(|_| None).collect();
    if gaps != Gaps::Plain && histories.len() > 1 {
        if let Some(finals) = final_client(&histories[0]) {
            let visible_main = finals[MAIN].clone().unwrap_or_else(|| disk.1.to_owned());
            let visible_mod = finals[MOD].clone().unwrap_or_else(|| disk.2.to_owned());
            let folder = ctx.dir((disk.1, disk.2));
            let folder = folder.as_path();
            let visible = [visible_main.as_str(), visible_mod.as_str()];
            std::thread::scope(|sc| {
                let handles: Vec<_> = histories
                    .iter()
                    .map(|h| sc.spawn(move || run_session(folder, h, visible)))
                    .collect();
                for (i, h) in handles.into_iter().enumerate() {
                    match h.join() {
                        Ok(s) => sessions[i] = Some(s),
                        Err(_) => panic!("C15 harness: session thread panicked"),
                    }
                }
            });
            ctx.count("b:server sessions", histories.len() as u64);
        }
    }
    let mut all = Vec::new();
    let mut nondet = false;
    let mut last: Option<Obs> = None;
    for (h, s) in histories.iter().zip(sessions) {
        match check_history(ctx, disk, h, s) {
            Verdict::Equal(o) => {
                all.push(hash_of(&o));
                last = Some(o);
            }
            Verdict::Nondeterministic => nondet = true,
            Verdict::Illegal => {
                return Outcome::ok("b: history not legal for a client (skipped)", None)
            }
            Verdict::Violation { signature, summary, case } => {
                return Outcome::bad("b: DIFFERS from a fresh server", signature, summary, case);
            }
        }
    }
    if nondet {
        return Outcome::ok("b: NONDETERMINISTIC observations (harness-level, no verdict)", None);
    }
    let (main_d, mod_d) = last
        .as_ref()
        .map(|o| (o.diags.contains_key(FILES[MAIN]), o.diags.contains_key(FILES[MOD])))
        .unwrap_or((false, false));
    let tag = match (main_d, mod_d) {
        (false, false) => "b: equal to fresh server, no diagnostics",
        (true, false) => "b: equal to fresh server, diagnostics in main.oal",
        (false, true) => "b: equal to fresh server, diagnostics in m.oal",
        (true, true) => "b: equal to fresh server, diagnostics in both",
    };
    Outcome::ok(tag, Some(hash_of(&all)))
}

// ===========================================================================
// Engine
// ===========================================================================

fn phase_a(n: usize, batch: bool) -> Phase {
    Phase::new(
        &format!(
            "(a) edits from every text of {n} symbols{}",
            if batch { ", with two-change batches" } else { "" }
        ),
        json!({"part": "a", "n": n, "batch": batch}),
    )
}

/// `disks`: indices into DISKS.
fn phase_b(d: usize, disks: &[usize], gaps: Gaps) -> Phase {
    let names: Vec<&str> = disks.iter().map(|i| DISKS[*i].0).collect();
    let what = match gaps {
        Gaps::Plain => "a request or nothing between them".to_owned(),
        Gaps::IdleAny => "request / nothing / idle 1.1 s between them, at least one idle".to_owned(),
        Gaps::IdleOne => "exactly one idle 1.1 s between them, else request / nothing".to_owned(),
        Gaps::Settle => "a request or nothing between them and after the last one, then 1.1 s of silence before the observation".to_owned(),
        Gaps::Ends => "no request at all / a request in every gap".to_owned(),
    };
    Phase::new(
        &format!("(b) histories of {d} notifications, {what}, disk {}", names.join(" ")),
        json!({"part": "b", "d": d, "disks": disks, "gaps": gaps.name()}),
    )
}

/// The text alphabet of part (a): the common one plus a byte order mark (a character editors
/// keep in the buffer and count as one UTF-16 unit).
const SYMBOLS15: [&str; 7] = ["a", "\u{e9}", "\u{20ac}", "\u{1F609}", "\n", "\r\n", "\u{feff}"];

impl C15 {
    fn run_a(&self, phase: &Phase, sink: &mut Sink) {
        let n = phase.param["n"].as_u64().unwrap() as usize;
        let batch = phase.param["batch"].as_bool().unwrap_or(false);
        let total = (SYMBOLS15.len() as u64).pow(n as u32);
        let mut idx = sink.shard;
        if let Some(i) = sink.single() {
            idx = i;
        }
        while idx < total {
            if sink.expired() {
                break;
            }
            let text = text_of(n, idx, &SYMBOLS15);
            sink.visit(
                idx,
                || json!({"part": "a", "text": text, "batch": batch}),
                |s| run_edit_case(&text, batch, Some(s)),
            );
            if sink.single().is_some() {
                break;
            }
            idx += sink.nshards;
        }
    }

    fn run_b(&self, phase: &Phase, sink: &mut Sink) {
        let d = phase.param["d"].as_u64().unwrap() as usize;
        let gaps = Gaps::parse(phase.param["gaps"].as_str().unwrap_or("plain"));
        let disks: Vec<usize> = phase.param["disks"]
            .as_array()
            .map(|a| a.iter().filter_map(|x| x.as_u64().map(|x| x as usize)).collect())
            .unwrap_or_default();
        if gaps.schedules(d).is_empty() {
            return;
        }
        let alpha = alphabet();
        let mut ctx = Ctx::default();
        let mut idx = 0u64;
        if phase.param["pattern"] == "noop-tail" {
            // open, then one notification made of a range edit and a change that changes nothing
            for disk in disks.iter().map(|i| DISKS[*i]) {
                for f in [MAIN, MOD] {
                    for t1 in menu(f) {
                        for e1 in edits(f) {
                            if sink.expired() {
                                return;
                            }
                            if sink.mine(idx) {
                                let notes = vec![
                                    Step::Open(f, (*t1).to_owned()),
                                    Step::Incr(f, e1.range, e1.text.to_owned(), format!("{}+noop", e1.name)),
                                ];
                                sink.visit(
                                    idx,
                                    || case_json(disk, &notes, gaps),
                                    |s| {
                                        let o = check_case(&mut ctx, disk, &notes, gaps);
                                        ctx.flush(s);
                                        o
                                    },
                                );
                            }
                            idx += 1;
                        }
                    }
                }
            }
            return;
        }
        if phase.param["pattern"] == "reopen" {
            // open, range edit, close, open (any text), range edit - on each file in turn
            for disk in disks.iter().map(|i| DISKS[*i]) {
                for f in [MAIN, MOD] {
                    for t1 in menu(f) {
                        for e1 in edits(f) {
                            for t2 in menu(f) {
                                for e2 in edits(f) {
                                    if sink.expired() {
                                        return;
                                    }
                                    if sink.mine(idx) {
                                        let notes = vec![
                                            Step::Open(f, (*t1).to_owned()),
                                            Step::Incr(f, e1.range, e1.text.to_owned(), e1.name.to_owned()),
                                            Step::Close(f),
                                            Step::Open(f, (*t2).to_owned()),
                                            Step::Incr(f, e2.range, e2.text.to_owned(), e2.name.to_owned()),
                                        ];
                                        sink.visit(
                                            idx,
                                            || case_json(disk, &notes, gaps),
                                            |s| {
                                                let o = check_case(&mut ctx, disk, &notes, gaps);
                                                ctx.flush(s);
                                                o
                                            },
                                        );
                                    }
                                    idx += 1;
                                }
                            }
                        }
                    }
                }
            }
            return;
        }
        for disk in disks.iter().map(|i| DISKS[*i]) {
            for_each_history(&alpha, d, &mut |path| {
                if sink.expired() {
                    return false;
                }
                if sink.mine(idx) {
                    let notes: Vec<Step> = path.iter().map(|i| alpha[*i].clone()).collect();
                    sink.visit(
                        idx,
                        || case_json(disk, &notes, gaps),
                        |s| {
                            let o = check_case(&mut ctx, disk, &notes, gaps);
                            ctx.flush(s);
                            o
                        },
                    );
                }
                idx += 1;
                true
            });
        }
    }
}

impl Engine for C15 {
    fn id(&self) -> &'static str {
        "C15"
    }
    fn engine_name(&self) -> &'static str {
        "lsp-histories"
    }
    fn phases(&self, tier: Tier) -> Vec<Phase> {
        let mut v = Vec::new();
        let (n_max, n_batch) = match tier {
            Tier::Quick => (4, 2),
            Tier::Thorough => (6, 3),
        };
        for n in 0..=n_max {
            v.push(phase_a(n, n <= n_batch));
        }
        let all = [0usize, 1, 2];
        for d in 0..=2 {
            v.push(phase_b(d, &all, Gaps::Plain));
        }
        v.push(phase_b(3, &[0], Gaps::Plain));
        v.push(phase_b(3, &[1], Gaps::Plain));
        v.push(phase_b(1, &all, Gaps::Settle));
        v.push(Phase::new(
            "(b) histories open - didChange made of a range edit and a content change that changes nothing (every text and edit of the menus), with / without a request between, all disks",
            json!({"part": "b", "d": 2, "disks": [0, 1, 2], "gaps": "ends", "pattern": "noop-tail"}),
        ));
        v.push(Phase::new(
            "(b) histories open - range edit - close - open - range edit of one file (every text and edit of the menus), no request at all / a request in every gap, disk ok/ok",
            json!({"part": "b", "d": 5, "disks": [0], "gaps": "ends", "pattern": "reopen"}),
        ));
        if tier == Tier::Thorough {
            v.push(phase_b(3, &[2], Gaps::Plain));
            v.push(phase_b(2, &all, Gaps::Settle));
            v.push(phase_b(3, &[0], Gaps::Settle));
            v.push(phase_b(2, &all, Gaps::IdleAny));
            v.push(phase_b(3, &[0], Gaps::IdleOne));
            v.push(phase_b(4, &[0], Gaps::Plain));
            v.push(phase_b(4, &[1, 2], Gaps::Plain));
            v.push(phase_b(5, &[0], Gaps::Plain));
        }
        v
    }
    fn run_phase(&self, phase: &Phase, sink: &mut Sink) {
        match phase.param["part"].as_str() {
            Some("a") => self.run_a(phase, sink),
            _ => self.run_b(phase, sink),
        }
    }
    fn replay(&self, case: &Value) -> Outcome {
        if case["part"].as_str() == Some("a") {
            let text = case["text"].as_str().unwrap_or("");
            return run_edit_case(text, case["batch"].as_bool().unwrap_or(true), None);
        }
        let disk_main = case["disk"]["main.oal"].as_str().unwrap_or(DISKS[0].1).to_owned();
        let disk_mod = case["disk"]["m.oal"].as_str().unwrap_or(DISKS[0].2).to_owned();
        let name = case["disk"]["name"].as_str().unwrap_or("?").to_owned();
        let disk = (name.as_str(), disk_main.as_str(), disk_mod.as_str());
        let parse = |v: &Value| -> Vec<Step> {
            v.as_array()
                .map(|a| a.iter().filter_map(Step::from_json).collect())
                .unwrap_or_default()
        };
        let mut ctx = Ctx::default();
        if case.get("events").is_some() {
            // One history (what a violation records).
            let steps = parse(&case["events"]);
            match check_history(&mut ctx, disk, &steps, None) {
                Verdict::Equal(_) => Outcome::ok("b: equal to fresh server", None),
                Verdict::Nondeterministic => {
                    Outcome::ok("b: NONDETERMINISTIC observations (harness-level, no verdict)", None)
                }
                Verdict::Illegal => Outcome::ok("b: history not legal for a client (skipped)", None),
                Verdict::Violation { signature, summary, case } => {
                    Outcome::bad("b: DIFFERS from a fresh server", signature, summary, case)
                }
            }
        } else {
            // A whole case (what a crash of the worker records).
            let notes = parse(&case["notifications"]);
            let gaps = Gaps::parse(case["gaps"].as_str().unwrap_or("plain"));
            check_case(&mut ctx, disk, &notes, gaps)
        }
    }
    fn rule(&self) -> String {
        "(a) every text of <= n symbols over {a, é, €, 😉, LF, CRLF, U+FEFF} is a state; from each, through the real Workspace::open + Workspace::change (hook H3): a range edit for every pair of positions start <= end of the grid line 0..=lines+1 x character 0..=maxcol+2 (past end of line / text included) with every replacement of {\"\", b, é, LF, 😉CRLF}, 4 full-text changes, and for the smaller texts every two-change batch (first change: every range x {\"\", é, 😉CRLF}; second: every range of the intermediate text, replacement b) plus full-then-range and range-then-full batches; oracle = client line-table buffer. A text is non-trivial when it holds a multi-byte character or a line break. \
(b) real oal-lsp over stdio, one server process per history: workspace {oal.toml, main.oal, m.oal}, disk contents {ok/ok, ok/error, error/ok}; a case is one sequence of d enabled notifications over open(f, text of the menu M0-M4 / N0-N3), change_full(f, menu text), change_incr(f, one of 7 / 6 single-range edits between menu texts, applied to whatever the current text is), close(f); it is run under EVERY schedule that puts a request (sync), nothing, or (idle phases) 1.1 s of silence between consecutive notifications, i.e. all histories over {open, change_full, change_incr, close, sync, idle} with d notifications and no two adjacent syncs; an event is enabled when a client may send it (open only a closed document, change/close only an open one, no position inside a surrogate pair); no deduplication by client state. After a final sync: last published diagnostics per URI (empty == never published), canonical answers (sets) to definition / references / prepareRename / rename at every identifier start of both files' client-visible texts plus position 0:0, liveness; compared with a fresh server on the same disk contents that is sent didOpen of the finally open documents. states = histories, transitions = events sent; distinct = distinct observation vectors. A difference is only reported after the history was replayed twice and the fresh server once more with identical observations".into()
    }
    fn assumptions(&self) -> Vec<String> {
        vec![
            "positions between the two UTF-16 units of one character have no defined meaning: edits at such positions are not checked (a) and not sent (b)".into(),
            "ranges are sent with start <= end; a lone CR is outside the text alphabet".into(),
            "the client is well behaved: it opens only closed documents and changes/closes only open ones; files on disk do not change during a session".into(),
            "the 1 s idle refresh of the server is explored as an explicit `idle 1.1 s` event (thorough tier); a session without idle events that took more than 0.8 s is run again".into(),
            "requests on a document that is not open are answered from the file on disk; the queries use the text the client can see (open text, else disk content)".into(),
            "histories of 3 notifications are explored on the disk contents ok/ok and ok/error in the quick tier, on all three in the thorough tier".into(),
        ]
    }
    fn budget_s(&self, tier: Tier) -> u64 {
        match tier {
            Tier::Quick => 75,
            Tier::Thorough => 3000,
        }
    }
    fn case_budget_ms(&self) -> u64 {
        // A case runs up to a dozen server sessions; a hung server costs 5 s per session.
        120_000
    }
    fn crash_signature(&self, kind: &str, case: &Value) -> String {
        if case["part"].as_str() == Some("a") {
            format!("{kind} | Workspace::change | in-process edit")
        } else {
            format!("{kind} | harness worker | while driving oal-lsp")
        }
    }
    fn state_counters(&self, m: &Stats) -> Option<(u64, u64, u64)> {
        let s = *m.counters.get("states").unwrap_or(&0);
        let t = *m.counters.get("transitions").unwrap_or(&0);
        Some((s, t, s))
    }
}
