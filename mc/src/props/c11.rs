//! C11 — the syntax tree is lossless and every reported span is exact.
//!
//! Per text: (a) token spans and lexical-error spans tile `[0, len)` in order, without gap
//! or overlap, on character boundaries; (b) every token re-lexes alone to the same kind
//! and its value is the slice minus the documented delimiters; (c) the leaves of the tree
//! are exactly the non-trivia tokens before the "remaining input" point, each once, in
//! order; (d) every node's `span()` is the hull of the leaves below it (`None` without a
//! leaf); (e) every span of a syntax error, compile error or external definition lies in
//! the module text on character boundaries (one position past the end allowed).

use crate::explore::*;
use crate::tokspace::*;
use oal_compiler::definition::Definition;
use oal_compiler::module::{Loader, ModuleSet};
use oal_compiler::tree::{Core, Tree};
use oal_model::grammar::{AbstractSyntaxNode, Context, NodeCursor, SyntaxTrunk};
use oal_model::lexicon::{Interner, Lexeme, TokenList};
use oal_model::locator::Locator;
use oal_model::span::Span;
use oal_syntax::atom::{HttpStatus, HttpStatusRange};
use oal_syntax::lexer::{tokenize, Token, TokenKind, TokenValue};
use oal_syntax::parser::{
    parse_declaration, parse_expression, parse_import, parse_resource, Gram, Variable,
};
use serde_json::{json, Value};
use std::cell::RefCell;
use std::collections::HashSet;

pub struct C11;

const MAIN: &str = "file:///main.oal";
const REMAINING: &str = "cannot parse remaining input";

type Fail = (String, String);

fn fail(location: &str, cause: &str, detail: String) -> Fail {
    (format!("span | {location} | {cause}"), detail)
}

fn panicked(subject: &str, p: &PanicInfo, text: &str) -> Fail {
    (
        format!("panic | {} | {subject}", stable_site(&p.location, &p.message)),
        format!("{subject} panicked at {}: {} on {}", p.location, p.message, show(text)),
    )
}

#[derive(Clone, Debug, PartialEq, Eq, Hash)]
pub enum Val {
    None,
    Status(u8),
    Number(u64),
    Sym(String),
}

#[derive(Clone, Debug)]
pub struct Tok {
    pub kind: TokenKind,
    pub start: usize,
    pub end: usize,
    pub value: Val,
    pub loc_ok: bool,
}

fn status_digit(s: &HttpStatus) -> u8 {
    match s {
        HttpStatus::Range(HttpStatusRange::Info) => 1,
        HttpStatus::Range(HttpStatusRange::Success) => 2,
        HttpStatus::Range(HttpStatusRange::Redirect) => 3,
        HttpStatus::Range(HttpStatusRange::ClientError) => 4,
        HttpStatus::Range(HttpStatusRange::ServerError) => 5,
        HttpStatus::Code(_) => 0,
    }
}

fn collect_tokens(list: &TokenList<Token>, loc: &Locator) -> Vec<Tok> {
    let mut v = Vec::with_capacity(list.len());
    let mut c = list.head();
    while c.is_valid() {
        let (t, span) = list.token_span(c);
        let value = match t.value() {
            TokenValue::None => Val::None,
            TokenValue::HttpStatus(s) => Val::Status(status_digit(s)),
            TokenValue::Number(n) => Val::Number(*n),
            TokenValue::Symbol(s) => Val::Sym(list.resolve(*s).to_owned()),
        };
        v.push(Tok {
            kind: t.kind(),
            start: span.start(),
            end: span.end(),
            value,
            loc_ok: span.locator() == loc,
        });
        c = list.advance(c);
    }
    v
}

/// Tokens and lexical-error spans of a text, through the real lexer.
fn lex(text: &str, loc: &Locator) -> Result<(Vec<Tok>, Vec<(usize, usize, bool)>), Fail> {
    let r = guard(|| {
        let (list, errs) = tokenize(loc.clone(), text);
        let toks = list.as_ref().map(|l| collect_tokens(l, loc));
        let errs: Vec<(usize, usize, bool)> = errs
            .iter()
            .map(|e| {
                let s = e.span();
                (s.start(), s.end(), s.locator() == loc)
            })
            .collect();
        (toks, errs)
    })
    .map_err(|p| panicked("lexer::tokenize", &p, text))?;
    match r {
        (Some(t), e) => Ok((t, e)),
        (None, e) if !e.is_empty() => Ok((vec![], e)),
        (None, _) => Err(fail(
            "lexer::tokenize",
            "neither a token list nor an error",
            format!("tokenize returned no list and no error on {}", show(text)),
        )),
    }
}

/// The value a token of this kind must carry, computed from its source slice.
fn expected_value(kind: TokenKind, slice: &str) -> Option<Val> {
    let inner = |a: usize, b: usize| -> Option<Val> {
        if slice.len() >= a + b && slice.is_char_boundary(a) && slice.is_char_boundary(slice.len() - b) {
            Some(Val::Sym(slice[a..slice.len() - b].to_owned()))
        } else {
            None
        }
    };
    match kind {
        TokenKind::LiteralNumber => slice.parse::<u64>().ok().map(Val::Number),
        TokenKind::LiteralString | TokenKind::AnnotationInline => inner(1, 1),
        TokenKind::LiteralHttpStatus => {
            let d = slice.as_bytes().first()?;
            Some(Val::Status(d.checked_sub(b'0')?))
        }
        TokenKind::AnnotationLine | TokenKind::PathElementSegment | TokenKind::Property => {
            inner(1, 0)
        }
        TokenKind::IdentifierReference
        | TokenKind::IdentifierValue
        | TokenKind::Space
        | TokenKind::CommentLine
        | TokenKind::CommentBlock => inner(0, 0),
        _ => Some(Val::None),
    }
}

thread_local! {
    /// (kind, slice) pairs whose stand-alone re-lexing was already verified in this worker.
    static RELEXED: RefCell<HashSet<(TokenKind, String)>> = RefCell::new(HashSet::new());
}

fn check_relex(t: &Tok, text: &str, loc: &Locator) -> Result<(), Fail> {
    let slice = &text[t.start..t.end];
    match expected_value(t.kind, slice) {
        Some(v) if v == t.value => {}
        exp => {
            return Err(fail(
                "lexer::tokenize",
                "token value is not the source slice minus its delimiters",
                format!(
                    "{}: token {:?} at {}..{} (slice {slice:?}) carries {:?}, expected {exp:?}",
                    show(text),
                    t.kind,
                    t.start,
                    t.end,
                    t.value
                ),
            ))
        }
    }
    let known = RELEXED.with(|r| {
        let r = r.borrow();
        // Avoid allocating for the lookup of short slices: the set is keyed by owned strings.
        r.contains(&(t.kind, slice.to_owned()))
    });
    if known {
        return Ok(());
    }
    let (toks, errs) = lex(slice, loc)?;
    let ok = errs.is_empty()
        && toks.len() == 1
        && toks[0].kind == t.kind
        && toks[0].start == 0
        && toks[0].end == slice.len()
        && toks[0].value == t.value;
    if !ok {
        return Err(fail(
            "lexer::tokenize",
            "the source slice of a token does not re-lex to that token",
            format!(
                "{}: token {:?} at {}..{}; its slice {slice:?} alone lexes to {:?} with {} errors",
                show(text),
                t.kind,
                t.start,
                t.end,
                toks.iter().map(|x| (x.kind, x.start, x.end)).collect::<Vec<_>>(),
                errs.len()
            ),
        ));
    }
    RELEXED.with(|r| {
        let mut r = r.borrow_mut();
        if r.len() > 200_000 {
            r.clear();
        }
        r.insert((t.kind, slice.to_owned()));
    });
    Ok(())
}

/// (a) tiling of the text by tokens and lexical errors.
fn check_tiling(text: &str, toks: &[Tok], errs: &[(usize, usize, bool)]) -> Result<(), Fail> {
    let len = text.len();
    let ordered = |v: &[(usize, usize)]| v.windows(2).all(|w| w[0].1 <= w[1].0);
    let ts: Vec<(usize, usize)> = toks.iter().map(|t| (t.start, t.end)).collect();
    let es: Vec<(usize, usize)> = errs.iter().map(|e| (e.0, e.1)).collect();
    if !ordered(&ts) || !ordered(&es) {
        return Err(fail(
            "lexer::tokenize",
            "token or error spans are not reported in increasing order",
            format!("{}: tokens {ts:?}, errors {es:?}", show(text)),
        ));
    }
    if toks.iter().any(|t| !t.loc_ok) || errs.iter().any(|e| !e.2) {
        return Err(fail(
            "lexer::tokenize",
            "span with a foreign locator",
            format!("{}: a token or lexical-error span names another module", show(text)),
        ));
    }
    let mut all: Vec<(usize, usize, bool)> = ts.iter().map(|s| (s.0, s.1, false)).collect();
    all.extend(es.iter().map(|s| (s.0, s.1, true)));
    all.sort();
    let mut pos = 0usize;
    for (s, e, is_err) in all.iter().copied() {
        let what = if is_err { "lexical error" } else { "token" };
        if s != pos || e <= s || e > len {
            return Err(fail(
                "lexer::tokenize",
                "tokens and lexical errors do not tile the text",
                format!(
                    "{}: {what} span {s}..{e} follows position {pos} (text of {len} bytes); tokens {ts:?}, errors {es:?}",
                    show(text)
                ),
            ));
        }
        if !text.is_char_boundary(s) || !text.is_char_boundary(e) {
            return Err(fail(
                "lexer::tokenize",
                "span not on a character boundary",
                format!("{}: {what} span {s}..{e} cuts a character", show(text)),
            ));
        }
        pos = e;
    }
    if pos != len {
        return Err(fail(
            "lexer::tokenize",
            "tokens and lexical errors do not tile the text",
            format!(
                "{}: spans end at {pos}, text has {len} bytes; tokens {ts:?}, errors {es:?}",
                show(text)
            ),
        ));
    }
    Ok(())
}

/// (e) one reported span.
fn check_span(
    what: &str,
    location: &str,
    span: (usize, usize, bool),
    text: &str,
) -> Result<(), Fail> {
    let (s, e, loc_ok) = span;
    let len = text.len();
    if !loc_ok {
        return Err(fail(
            location,
            "span with a foreign locator",
            format!("{}: span {s}..{e} of {what} names another module", show(text)),
        ));
    }
    if s > e || e > len + 1 {
        return Err(fail(
            location,
            "span outside the module text",
            format!("{}: span {s}..{e} of {what}, text has {len} bytes", show(text)),
        ));
    }
    for p in [s, e] {
        if p <= len && !text.is_char_boundary(p) {
            return Err(fail(
                location,
                "span not on a character boundary",
                format!("{}: span {s}..{e} of {what} cuts a character", show(text)),
            ));
        }
    }
    Ok(())
}

fn flat(s: &Span, loc: &Locator) -> (usize, usize, bool) {
    (s.start(), s.end(), s.locator() == loc)
}

/// What the tree walk collected (inside `guard`, checked outside).
struct Walk {
    /// (kind, start, end, locator ok) of every leaf in pre-order
    leaves: Vec<(TokenKind, usize, usize, bool)>,
    /// (description, span() as reported, hull of the leaves below) where they differ
    bad_hull: Option<(String, Option<(usize, usize)>, Option<(usize, usize)>)>,
    nodes: usize,
    /// bit set of the node kinds present
    shape: u64,
}

fn walk_tree(tree: &Tree, loc: &Locator) -> Walk {
    let mut leaves = Vec::new();
    let mut stack: Vec<Option<(usize, usize)>> = Vec::new();
    let mut bad_hull = None;
    let mut nodes = 0usize;
    let mut shape = 0u64;
    for ev in tree.root().traverse() {
        match ev {
            NodeCursor::Start(n) => {
                nodes += 1;
                match n.syntax().trunk() {
                    SyntaxTrunk::Leaf(alias) => {
                        let t = n.token();
                        let sp = t.span();
                        // the alias kept in the tree must be the kind of the token it points to
                        let kind = if alias.kind() == t.kind() {
                            t.kind()
                        } else {
                            TokenKind::Space
                        };
                        leaves.push((kind, sp.start(), sp.end(), sp.locator() == loc));
                        stack.push(Some((sp.start(), sp.end())));
                    }
                    SyntaxTrunk::Tree(k) => {
                        stack.push(None);
                        shape |= 1u64 << (*k as usize).min(62);
                    }
                    SyntaxTrunk::Error => {
                        stack.push(None);
                        shape |= 1u64 << 63;
                    }
                }
            }
            NodeCursor::End(n) => {
                let hull = stack.pop().unwrap();
                let reported = n.span().map(|s| (s.start(), s.end()));
                let loc_ok = n.span().map_or(true, |s| s.locator() == loc);
                if (reported != hull || !loc_ok) && bad_hull.is_none() {
                    bad_hull = Some((format!("{:?}", n.syntax().trunk()), reported, hull));
                }
                if let (Some(parent), Some((s, e))) = (stack.last_mut(), hull) {
                    *parent = match *parent {
                        None => Some((s, e)),
                        Some((ps, _)) => Some((ps, e)),
                    };
                }
            }
        }
    }
    Walk {
        leaves,
        bad_hull,
        nodes,
        shape,
    }
}

/// In-memory loader of the single module `main.oal`.
struct MemLoader<'a> {
    text: &'a str,
    main: Locator,
}

impl Loader<anyhow::Error> for MemLoader<'_> {
    fn is_valid(&mut self, loc: &Locator) -> bool {
        *loc == self.main
    }
    fn load(&mut self, _loc: &Locator) -> anyhow::Result<String> {
        Ok(self.text.to_owned())
    }
    fn parse(&mut self, loc: Locator, input: String) -> anyhow::Result<Tree> {
        let (tree, errs) = oal_syntax::parse::<_, Core>(loc, input);
        if !errs.is_empty() {
            return Err(anyhow::anyhow!("syntax errors"));
        }
        tree.ok_or_else(|| anyhow::anyhow!("no tree"))
    }
    fn compile(&mut self, mods: &ModuleSet, loc: &Locator) -> anyhow::Result<()> {
        oal_compiler::compile::compile(mods, loc)?;
        Ok(())
    }
}

/// Spans reported by the compile pipeline of a completely parsed program.
struct Compiled {
    /// `Some(first line)` when loading / compiling failed
    error: Option<String>,
    /// (description, span or None)
    spans: Vec<(String, Option<(usize, usize, bool)>)>,
    externals: usize,
}

fn compile_spans(text: &str, loc: &Locator) -> Compiled {
    let mut loader = MemLoader {
        text,
        main: loc.clone(),
    };
    let mut spans = Vec::new();
    match oal_compiler::module::load(&mut loader, loc) {
        Err(err) => {
            let msg = err.to_string();
            if let Some(e) = err.downcast_ref::<oal_compiler::errors::Error>() {
                spans.push((
                    format!("compile error `{e}`"),
                    e.span().map(|s| flat(s, loc)),
                ));
            }
            Compiled {
                error: Some(msg.lines().next().unwrap_or("").to_owned()),
                spans,
                externals: 0,
            }
        }
        Ok(mods) => {
            let mut externals = 0;
            for node in mods.main().root().descendants() {
                if Variable::cast(node).is_none() || !node.syntax().has_core() {
                    continue;
                }
                let core = node.syntax().core_ref();
                if let Some(Definition::External(ext)) = core.definition() {
                    externals += 1;
                    let target = ext.node(&mods);
                    let use_at = node.span().map(|s| (s.start(), s.end()));
                    spans.push((
                        format!("definition of the variable at {use_at:?}"),
                        target.span().map(|s| flat(&s, loc)),
                    ));
                }
            }
            // Evaluation errors are diagnostics too (annotation YAML, literals, ...).
            if let Ok(Err(e)) = crate::explore::guard(|| oal_compiler::eval::eval(&mods)) {
                spans.push((format!("evaluation error `{e}`"), e.span().map(|s| flat(s, loc))));
            }
            Compiled {
                error: None,
                spans,
                externals,
            }
        }
    }
}

/// Errors of the statement-level productions called directly at the head of the token
/// list (what `parse_program` tries first, but with the error kept instead of swallowed):
/// (production, message, span).
fn production_errors(text: &str, loc: &Locator) -> Vec<(&'static str, String, (usize, usize, bool))> {
    let (tokens, _) = tokenize(loc.clone(), text);
    let Some(tokens) = tokens else {
        return vec![];
    };
    let mut ctx: Context<(), Gram> = Context::new(tokens);
    let head = ctx.head();
    let mut out = Vec::new();
    let prods: [(&'static str, oal_model::grammar::ParserFn<(), Gram>); 4] = [
        ("parse_import", parse_import),
        ("parse_declaration", parse_declaration),
        ("parse_resource", parse_resource),
        ("parse_expression", parse_expression),
    ];
    for (name, p) in prods {
        if let Err(e) = p(&mut ctx, head) {
            out.push((name, e.to_string(), flat(&e.span(), loc)));
        }
    }
    out
}

pub struct Obs {
    pub tag: &'static str,
    pub class: u64,
    pub tokens: usize,
    pub nodes: usize,
    pub spans_checked: usize,
}

/// All checks on one text.
pub fn check_text(text: &str) -> Result<Obs, Fail> {
    let loc = Locator::try_from(MAIN).unwrap();
    let len = text.len();
    let mut spans_checked = 0usize;

    // (a), (b)
    let (toks, lex_errs) = lex(text, &loc)?;
    check_tiling(text, &toks, &lex_errs)?;
    for t in toks.iter() {
        check_relex(t, text, &loc)?;
    }
    spans_checked += toks.len() + lex_errs.len();

    // parser
    let parsed = guard(|| {
        let (tree, errs) = oal_syntax::parse::<_, Core>(loc.clone(), text);
        let errs: Vec<(String, Option<(usize, usize, bool)>)> = errs
            .iter()
            .map(|e| match e {
                oal_syntax::errors::Error::Grammar(g) => (g.to_string(), Some(flat(&g.span(), &loc))),
                oal_syntax::errors::Error::Lexicon(l) => {
                    ("lexical error".to_owned(), Some(flat(&l.span(), &loc)))
                }
                oal_syntax::errors::Error::Domain => ("domain".to_owned(), None),
            })
            .collect();
        let walk = tree.as_ref().map(|t| walk_tree(t, &loc));
        (walk, errs)
    })
    .map_err(|p| panicked("oal_syntax::parse / tree walk", &p, text))?;
    let (walk, errs) = parsed;

    // (e) on syntax errors
    for (msg, span) in errs.iter() {
        if let Some(s) = span {
            check_span(&format!("syntax error `{msg}`"), "oal_syntax::parse error", *s, text)?;
            spans_checked += 1;
        }
    }
    // lexical errors are reported again by parse: same spans, same order
    let relexed: Vec<(usize, usize)> = errs
        .iter()
        .filter(|e| e.0 == "lexical error")
        .filter_map(|e| e.1.map(|s| (s.0, s.1)))
        .collect();
    if relexed != lex_errs.iter().map(|e| (e.0, e.1)).collect::<Vec<_>>() {
        return Err(fail(
            "oal_syntax::parse error",
            "lexical errors of parse differ from those of tokenize",
            format!("{}: parse {relexed:?}, tokenize {lex_errs:?}", show(text)),
        ));
    }
    let remaining: Vec<(usize, usize)> = errs
        .iter()
        .filter(|e| e.0 == REMAINING)
        .filter_map(|e| e.1.map(|s| (s.0, s.1)))
        .collect();
    if remaining.len() > 1 {
        return Err(fail(
            "oal_syntax::parse error",
            "more than one remaining-input error",
            format!("{}: {remaining:?}", show(text)),
        ));
    }
    let cut = remaining.first().copied();

    // (c), (d)
    let significant: Vec<&Tok> = toks.iter().filter(|t| !t.kind.is_trivia()).collect();
    if let Some((s, e)) = cut {
        if !significant.iter().any(|t| (t.start, t.end) == (s, e)) {
            return Err(fail(
                "oal_syntax::parse error",
                "remaining-input span is not the span of a token",
                format!("{}: remaining input reported at {s}..{e}", show(text)),
            ));
        }
    }
    let mut nodes = 0;
    let mut shape = 0u64;
    if let Some(w) = walk.as_ref() {
        nodes = w.nodes;
        shape = w.shape;
        let expected: Vec<(TokenKind, usize, usize)> = significant
            .iter()
            .filter(|t| cut.map_or(true, |(s, _)| t.start < s))
            .map(|t| (t.kind, t.start, t.end))
            .collect();
        let got: Vec<(TokenKind, usize, usize)> = w.leaves.iter().map(|l| (l.0, l.1, l.2)).collect();
        if w.leaves.iter().any(|l| !l.3) {
            return Err(fail(
                "syntax tree",
                "span with a foreign locator",
                format!("{}: a leaf names another module", show(text)),
            ));
        }
        if !got.windows(2).all(|w| w[0].2 <= w[1].1) {
            return Err(fail(
                "syntax tree",
                "leaves are not in strictly increasing source order",
                format!("{}: leaves {got:?}", show(text)),
            ));
        }
        if got != expected {
            let first = got
                .iter()
                .zip(expected.iter())
                .position(|(a, b)| a != b)
                .unwrap_or(got.len().min(expected.len()));
            return Err(fail(
                "syntax tree",
                "leaves are not the non-trivia tokens of the parsed prefix",
                format!(
                    "{}: {} leaves, {} tokens expected (remaining input at {cut:?}); first difference at #{first}: leaf {:?}, token {:?}",
                    show(text),
                    got.len(),
                    expected.len(),
                    got.get(first),
                    expected.get(first)
                ),
            ));
        }
        if let Some((node, reported, hull)) = w.bad_hull.as_ref() {
            return Err(fail(
                "NodeRef::span",
                "node span is not the hull of its leaves",
                format!(
                    "{}: node {node} reports {reported:?}, its leaves span {hull:?}",
                    show(text)
                ),
            ));
        }
        spans_checked += w.nodes;
    } else if errs.is_empty() {
        return Err(fail(
            "oal_syntax::parse",
            "neither a tree nor an error",
            format!("{}", show(text)),
        ));
    }

    // (e) on the errors of the productions themselves: an error points at a token or at
    // the end of input, i.e. the position just after the last token.
    let prod_errs = guard(|| production_errors(text, &loc))
        .map_err(|p| panicked("statement productions", &p, text))?;
    let eoi = toks.last().map_or(0, |t| t.end);
    for (prod, msg, span) in prod_errs.iter() {
        // No character-boundary test here: the end-of-input span starts at the end of the
        // last *token*; when the text ends with characters the lexer rejected it can fall
        // inside one of them, but `oal_syntax::parse` never reports such an error (it
        // reports "remaining input" at a token), so no diagnostic carries it.
        if !span.2 {
            return Err(fail(
                "parser production error",
                "span with a foreign locator",
                format!("{}: {prod} fails with `{msg}` in another module", show(text)),
            ));
        }
        let at_token = significant.iter().any(|t| (t.start, t.end) == (span.0, span.1));
        if !at_token && (span.0, span.1) != (eoi, eoi + 1) {
            return Err(fail(
                "parser production error",
                "error span is neither a token nor the end of input",
                format!(
                    "{}: {prod} fails with `{msg}` at {}..{}; tokens end at {eoi}",
                    show(text),
                    span.0,
                    span.1
                ),
            ));
        }
        spans_checked += 1;
    }

    // (e) on the compile pipeline, for programs that parse completely
    let mut compile_class = String::from("not compiled");
    let mut tag = if !lex_errs.is_empty() {
        "lexical-error"
    } else if cut.is_some() {
        "partial-tree"
    } else {
        "parsed"
    };
    if errs.is_empty() && walk.is_some() {
        let c = guard(|| compile_spans(text, &loc))
            .map_err(|p| panicked("module::load + compile::compile", &p, text))?;
        for (what, span) in c.spans.iter() {
            if let Some(s) = span {
                check_span(
                    what,
                    if c.error.is_some() {
                        "compile error"
                    } else {
                        "external definition"
                    },
                    *s,
                    text,
                )?;
                spans_checked += 1;
            }
        }
        match &c.error {
            Some(first_line) => {
                tag = "parsed, compile error";
                compile_class = first_line.chars().filter(|c| !c.is_ascii_digit()).collect();
            }
            None => {
                tag = "compiled";
                compile_class = format!("compiled, {} external definitions", c.externals);
            }
        }
    }

    // Class of the observation: which token kinds and node kinds occur, how it ended.
    let kinds = toks.iter().fold(0u64, |m, t| m | 1u64 << (t.kind as usize).min(63));
    let class = hash_of(&(kinds, lex_errs.len().min(2), shape, cut.is_some(), compile_class, len == 0));
    Ok(Obs {
        tag,
        class,
        tokens: toks.len(),
        nodes,
        spans_checked,
    })
}

/// The alphabet really has one spelling per token kind, and the reference splitter that
/// cuts the corpus into mutation sites agrees with the real lexer on the whole corpus.
pub fn check_alphabet() -> Result<Obs, Fail> {
    let loc = Locator::try_from(MAIN).unwrap();
    let mut kinds = HashSet::new();
    for sp in TOKENS.iter() {
        let (toks, errs) = lex(sp, &loc)?;
        if toks.len() != 1 || !errs.is_empty() || toks[0].end != sp.len() {
            return Err(fail(
                "token alphabet",
                "a spelling of the alphabet is not one token",
                format!("{sp:?} lexes to {:?}", toks.iter().map(|t| t.kind).collect::<Vec<_>>()),
            ));
        }
        kinds.insert(toks[0].kind);
    }
    if kinds.len() != TOKENS.len() {
        return Err(fail(
            "token alphabet",
            "two spellings of the alphabet have the same kind",
            format!("{} kinds for {} spellings", kinds.len(), TOKENS.len()),
        ));
    }
    let mut n = 0;
    for p in corpus().iter() {
        let (toks, errs) = lex(&p.text, &loc)?;
        let reference = ref_split(&p.text).unwrap_or_default();
        let real: Vec<(usize, usize, bool)> =
            toks.iter().map(|t| (t.start, t.end, t.kind.is_trivia())).collect();
        let model: Vec<(usize, usize, bool)> =
            reference.iter().map(|r| (r.start, r.end, r.trivia)).collect();
        if !errs.is_empty() || real != model {
            let first = real.iter().zip(model.iter()).position(|(a, b)| a != b);
            return Err(fail(
                "lexer::tokenize",
                "token boundaries differ from the reference splitter on a corpus program",
                format!(
                    "{}: {} lexical errors; first difference at #{first:?}: lexer {:?}, reference {:?}",
                    p.name,
                    errs.len(),
                    first.and_then(|i| real.get(i)),
                    first.and_then(|i| model.get(i))
                ),
            ));
        }
        n += toks.len();
    }
    Ok(Obs {
        tag: "alphabet",
        class: hash_of("alphabet"),
        tokens: n,
        nodes: 0,
        spans_checked: n,
    })
}

fn to_outcome(r: Result<Obs, Fail>, sink: Option<&mut Sink>, case: Value) -> Outcome {
    match r {
        Ok(o) => {
            if let Some(s) = sink {
                s.count("tokens", o.tokens as u64);
                s.count("tree_nodes", o.nodes as u64);
                s.count("spans_checked", o.spans_checked as u64);
            }
            Outcome::ok(o.tag, Some(o.class))
        }
        Err((sig, summary)) => Outcome::bad("violation", sig, summary, case),
    }
}

impl Engine for C11 {
    fn id(&self) -> &'static str {
        "C11"
    }
    fn engine_name(&self) -> &'static str {
        "tokspace"
    }
    fn phases(&self, tier: Tier) -> Vec<Phase> {
        let thorough = tier == Tier::Thorough;
        let mut v = vec![
            Phase::new(
                "token alphabet and reference splitter against the lexer",
                json!({"space": "alphabet"}),
            )
            .workers(1),
            Phase::new("corpus of valid programs, 0 deviations", p_corpus()),
        ];
        let full = if thorough { 4 } else { 3 };
        for k in 0..=full {
            v.push(Phase::new(
                &format!("full token alphabet, sequences of {k}"),
                p_seq("full54", k),
            ));
        }
        let reduced = if thorough { 7 } else { 5 };
        for k in full + 1..=reduced {
            v.push(Phase::new(
                &format!("reduced alphabet (18), sequences of {k}"),
                p_seq("reduced18", k),
            ));
        }
        if thorough {
            v.push(Phase::new(
                "reduced alphabet (25), sequences of 5",
                p_seq("reduced25", 5),
            ));
        }
        let (calpha, cmax) = if thorough { ("chars23", 5) } else { ("chars18", 4) };
        for n in 1..=cmax {
            v.push(Phase::new(
                &format!("character alphabet, strings of {n}"),
                p_chars(calpha, n),
            ));
        }
        let (ealpha, emax) = if thorough { ("chars23", 4) } else { ("chars18", 4) };
        for n in 0..=emax {
            v.push(Phase::new(
                &format!("strings of {n} characters inside string / comments / annotations / between tokens / at the start / at the end of the text"),
                p_embed(ealpha, n),
            ));
        }
        if !thorough {
            for n in 1..=2 {
                v.push(Phase::new(
                    &format!("strings of {n} characters of the larger alphabet (TAB, NUL, BOM, U+2028, combining mark) in the same places"),
                    p_embed("chars23", n),
                ));
            }
        }
        if thorough {
            v.push(Phase::new(
                "strings of 5 characters (quick alphabet) inside string / comments / annotations / between tokens",
                p_embed("chars18", 5),
            ));
        }
        v.push(Phase::new(
            "corpus mutants, 1 deviation (whole corpus)",
            p_mut(1, 100_000),
        ));
        if thorough {
            v.push(Phase::new(
                "corpus mutants, 2 deviations (programs of <= 12 tokens)",
                p_mut(2, 12),
            ));
        }
        v.push(Phase::new(
            "corpus and generated single-module programs with one matched pair of parentheses removed",
            p_unparen(),
        ));
        v.push(Phase::new(
            "corpus with one token of the full alphabet inserted at one site",
            p_ins(if thorough { 100_000 } else { 40 }),
        ));
        v.push(Phase::new(
            "corpus programs cut after each token (end of text, or one line break, right after it)",
            p_prefix(),
        ));
        v.push(Phase::new(
            "number literals at and around the ends of the integer types, in five places",
            p_numbers(),
        ));
        v.push(Phase::new(
            "every string of <= 5 characters over the alphabet of a token class (path segment, property name, identifier, reference)",
            p_lexemes(),
        ));
        v.push(Phase::new(
            "ordered pairs of generated expressions of <= 2 constructors side by side, unparenthesised, in six list positions",
            p_pairs(),
        ));
        v.push(Phase::new("nesting families", p_nest(thorough)));
        v
    }
    fn run_phase(&self, phase: &Phase, sink: &mut Sink) {
        if phase.param["space"] == "alphabet" {
            sink.visit(
                0,
                || json!({"check": "alphabet"}),
                |s| to_outcome(check_alphabet(), Some(s), Value::Null),
            );
            return;
        }
        let space = TextSpace::from_param(&phase.param);
        walk_texts(&space, sink, &describe_text, &|_, text, s| {
            to_outcome(check_text(text), Some(s), Value::Null)
        });
    }
    fn replay(&self, case: &Value) -> Outcome {
        if case["check"] == "alphabet" {
            return to_outcome(check_alphabet(), None, case.clone());
        }
        let text = case["text"].as_str().unwrap_or("");
        to_outcome(check_text(text), None, case.clone())
    }
    fn rule(&self) -> String {
        "texts: every sequence of <= L tokens over the full alphabet (54 spellings, one per TokenKind) and of L+1..=L' over the reduced grammar alphabet; every string of <= n characters over the character alphabet, alone and placed inside a string literal, a block comment, a line comment, a line annotation, an inline annotation and between two tokens of a valid program; the corpus (examples/*.oal, 50 small valid programs) verbatim, re-rendered and with every token-level deviation (delete, duplicate, swap, replace by each of 54 tokens) at every site; 42 nesting / chain / digit families (closed, unclosed and mismatched brackets). Per text: tokens and lexical-error spans tile the text on character boundaries; each token re-lexes alone to itself and its value is its slice minus delimiters; tree leaves == non-trivia tokens before the remaining-input token, once, in order; every node's span() == hull of its leaves; spans of syntax errors, of the errors of parse_import / parse_declaration / parse_resource / parse_expression called directly at the first token (each a token span or the end-of-input span), compile errors (single in-memory module through module::load + compile::compile) and external definitions of all variables lie in the text on character boundaries. distinct = distinct (set of token kinds, set of node kinds, lexical / remaining-input / compile outcome) observations".into()
    }
    fn crash_signature(&self, kind: &str, _case: &Value) -> String {
        format!("{kind} | lexer, parser and compile pipeline in-process | worker process died or stalled on one case")
    }
    fn assumptions(&self) -> Vec<String> {
        vec![
            "spans of imported modules are not reached: the in-memory loader serves the single module main.oal (imports fail with a located compile error, which is checked)".into(),
            "a panic of the evaluator is C01's / C04's business; only the span of an evaluation *error* is checked here".into(),
        ]
    }
}
