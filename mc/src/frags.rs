//! Kind-directed fragments F1..F10 (DESIGN.md §3.1): every member of a fragment marked
//! `well_kinded` is meant to be accepted and has a reference meaning. Fragments are
//! enumerated exhaustively one at a time with the other features at their simplest
//! value, plus the products that share mutable state in the implementation.

use crate::gen::*;

pub struct Fragment {
    pub name: &'static str,
    /// Every member is accepted by construction (a rejection is then a finding).
    pub well_kinded: bool,
    pub programs: Vec<Program>,
}

fn get(range: E) -> Stmt {
    Stmt::Res(rel(uri_lit(&[""]), vec![xfer(Method::Get, range)]))
}
fn get_at(path: &str, range: E) -> Stmt {
    Stmt::Res(rel(uri_lit(&[path]), vec![xfer(Method::Get, range)]))
}
fn num() -> E {
    E::Prim(Prim::Num)
}
fn str_() -> E {
    E::Prim(Prim::Str)
}
fn op(o: Op, v: Vec<E>) -> E {
    E::Op(o, v)
}
fn markp(n: &str, req: bool, e: E) -> E {
    E::Prop(n.into(), Some(req), Box::new(e))
}
fn app(f: &str, args: Vec<E>) -> E {
    E::App(None, f.into(), args)
}
fn app_q(q: &str, f: &str, args: Vec<E>) -> E {
    E::App(Some(q.to_owned()), f.to_owned(), args)
}
fn ann(e: E, a: &str) -> E {
    E::Ann(vec![], Box::new(e), Some(a.into()))
}
fn lann(e: E, a: &str) -> E {
    E::Ann(vec![a.into()], Box::new(e), None)
}
fn let_ann(name: &str, a: &str, body: E) -> Stmt {
    Stmt::Let {
        anns: vec![a.into()],
        name: name.into(),
        params: vec![],
        body,
    }
}
fn status(n: u64) -> E {
    E::Num(n)
}
fn text(s: &str) -> E {
    E::Str(s.into())
}

// --- F1: schema algebra ------------------------------------------------------

/// Schemas of nesting depth <= d. `objects_only` restricts to object-kinded ones.
pub fn schemas(d: usize) -> Vec<E> {
    let base = vec![
        num(),
        str_(),
        E::Prim(Prim::Bool),
        E::Prim(Prim::Int),
        E::Prim(Prim::Uri),
        obj(vec![]),
    ];
    let mut cur = base.clone();
    for _ in 0..d {
        let mut next = base.clone();
        let objs: Vec<E> = cur.iter().filter(|e| is_object(e)).cloned().collect();
        for s in cur.iter() {
            next.push(arr(s.clone()));
            next.push(obj(vec![prop("p", s.clone())]));
            next.push(obj(vec![markp("p", true, s.clone()), markp("q", false, num())]));
            next.push(obj(vec![E::Mark(Box::new(prop("p", s.clone())), true), prop("q", str_())]));
            next.push(op(Op::Any, vec![s.clone(), str_()]));
            next.push(op(Op::Any, vec![num(), s.clone(), obj(vec![])]));
            if !matches!(s, E::Prim(Prim::Uri)) {
                // `|` demands operands of one kind.
                next.push(op(Op::Sum, vec![s.clone(), s.clone()]));
            }
        }
        for (i, a) in objs.iter().enumerate() {
            for b in objs.iter().skip(i).take(3) {
                next.push(op(Op::Join, vec![a.clone(), b.clone()]));
            }
        }
        // primitive sums
        next.push(op(Op::Sum, vec![num(), str_()]));
        next.push(op(Op::Sum, vec![str_(), E::Prim(Prim::Bool), E::Prim(Prim::Int)]));
        next.dedup();
        cur = next;
    }
    cur
}

fn is_object(e: &E) -> bool {
    match e {
        E::Obj(_) => true,
        E::Op(Op::Join, _) => true,
        _ => false,
    }
}

fn schema_sites(s: &E) -> Vec<Vec<Stmt>> {
    vec![
        vec![get(content(s.clone()))],
        vec![get(s.clone())],
        vec![Stmt::Res(rel(
            uri_lit(&[""]),
            vec![E::Xfer {
                methods: vec![Method::Put],
                params: None,
                domain: Some(Box::new(content(s.clone()))),
                range: Box::new(E::Content(vec![], None)),
            }],
        ))],
        vec![let_("a", s.clone()), get(content(var("a")))],
        vec![get(content(var("a"))), let_("a", s.clone())],
        vec![let_("@r", s.clone()), get(content(var("@r")))],
        vec![
            let_("@r", s.clone()),
            get(content(obj(vec![prop("x", var("@r")), prop("y", arr(var("@r")))]))),
        ],
        vec![fun("f", &["x"], obj(vec![prop("w", var("x"))])), get(content(app("f", vec![s.clone()])))],
    ]
}

pub fn f1(depth: usize) -> Fragment {
    let mut programs = Vec::new();
    for s in schemas(depth) {
        for site in schema_sites(&s) {
            programs.push(single(site));
        }
    }
    Fragment {
        name: "F1 schema algebra",
        well_kinded: true,
        programs,
    }
}

// --- F2: contents and ranges -----------------------------------------------------

pub fn contents(full: bool) -> Vec<E> {
    let statuses: Vec<Option<E>> = vec![None, Some(status(200)), Some(status(404)), Some(E::StatusRange(4))];
    let medias: Vec<Option<E>> = vec![None, Some(text("m/a")), Some(text("m/b"))];
    let mut headers: Vec<Option<E>> = vec![None, Some(obj(vec![markp("h", true, num())]))];
    if full {
        headers.push(Some(obj(vec![prop("h", str_()), prop("k", num())])));
    }
    let bodies: Vec<Option<E>> = vec![None, Some(str_()), Some(obj(vec![prop("p", num())]))];
    let mut out = Vec::new();
    for s in statuses.iter() {
        for m in medias.iter() {
            for h in headers.iter() {
                for b in bodies.iter() {
                    let mut metas = Vec::new();
                    if let Some(s) = s {
                        metas.push((Meta::Status, s.clone()));
                    }
                    if let Some(m) = m {
                        metas.push((Meta::Media, m.clone()));
                    }
                    if let Some(h) = h {
                        metas.push((Meta::Headers, h.clone()));
                    }
                    out.push(E::Content(metas, b.clone().map(Box::new)));
                }
            }
        }
    }
    out
}

fn range_spellings(cs: &[E], all: bool) -> Vec<Vec<Stmt>> {
    let range = if cs.len() == 1 {
        cs[0].clone()
    } else {
        op(Op::Range, cs.to_vec())
    };
    let mut v = vec![vec![get(range.clone())]];
    if all {
        // let-named
        let mut st: Vec<Stmt> = cs
            .iter()
            .enumerate()
            .map(|(i, c)| let_(&format!("c{i}"), c.clone()))
            .collect();
        let named: Vec<E> = (0..cs.len()).map(|i| var(&format!("c{i}"))).collect();
        st.push(get(if named.len() == 1 {
            named[0].clone()
        } else {
            op(Op::Range, named)
        }));
        v.push(st);
        // through a function that appends the last content
        if cs.len() >= 2 {
            let (init, last) = cs.split_at(cs.len() - 1);
            let mut ops: Vec<E> = vec![var("s")];
            ops.extend(last.iter().cloned());
            let st = vec![
                fun("with", &["s"], op(Op::Range, ops)),
                get(app(
                    "with",
                    vec![if init.len() == 1 {
                        init[0].clone()
                    } else {
                        op(Op::Range, init.to_vec())
                    }],
                )),
            ];
            v.push(st);
        }
    }
    v
}

pub fn f2(n: usize, full: bool) -> Fragment {
    let cs = contents(full);
    let mut programs = Vec::new();
    for c in cs.iter() {
        for st in range_spellings(&[c.clone()], true) {
            programs.push(single(st));
        }
        // as a request
        programs.push(single(vec![Stmt::Res(rel(
            uri_lit(&[""]),
            vec![E::Xfer {
                methods: vec![Method::Put],
                params: None,
                domain: Some(Box::new(c.clone())),
                range: Box::new(E::Content(vec![], None)),
            }],
        ))]));
    }
    if n >= 2 {
        for a in cs.iter() {
            for b in cs.iter() {
                for st in range_spellings(&[a.clone(), b.clone()], true) {
                    programs.push(single(st));
                }
            }
        }
    }
    if n >= 3 {
        // Triples over the reduced content set (status x media x body), one spelling.
        let small: Vec<E> = contents(false)
            .into_iter()
            .filter(|c| matches!(c, E::Content(m, _) if !m.iter().any(|(k, _)| *k == Meta::Headers)))
            .collect();
        for a in small.iter() {
            for b in small.iter() {
                for c in small.iter() {
                    programs.push(single(vec![get(op(
                        Op::Range,
                        vec![a.clone(), b.clone(), c.clone()],
                    ))]));
                }
            }
        }
    }
    Fragment {
        name: "F2 contents and ranges",
        well_kinded: true,
        programs,
    }
}

// --- F3: transfers and relations ----------------------------------------------------

pub fn f3(full: bool) -> Fragment {
    let method_sets: Vec<Vec<Method>> = if full {
        vec![
            vec![Method::Get],
            vec![Method::Put],
            vec![Method::Get, Method::Put],
            vec![Method::Post, Method::Delete, Method::Patch],
            vec![Method::Options, Method::Head],
        ]
    } else {
        vec![vec![Method::Get], vec![Method::Put], vec![Method::Get, Method::Put]]
    };
    let params: Vec<Option<Vec<E>>> = vec![
        None,
        Some(vec![prop("q", str_())]),
        Some(vec![markp("q", true, num()), markp("r", false, str_())]),
    ];
    let domains: Vec<Option<E>> = vec![
        None,
        Some(content(str_())),
        Some(E::Content(
            vec![
                (Meta::Media, text("m/a")),
                (Meta::Headers, obj(vec![prop("h", str_()), markp("k", true, num())])),
            ],
            Some(Box::new(obj(vec![prop("p", num())]))),
        )),
        Some(str_()),
        Some(var("@r")),
        Some(E::Content(vec![(Meta::Headers, obj(vec![prop("h", str_())]))], None)),
    ];
    let ranges: Vec<E> = vec![
        E::Content(vec![], None),
        content(str_()),
        str_(),
        var("@r"),
        op(
            Op::Range,
            vec![
                E::Content(vec![(Meta::Status, status(200))], Some(Box::new(num()))),
                E::Content(vec![(Meta::Status, E::StatusRange(4))], None),
            ],
        ),
    ];
    let mut programs = Vec::new();
    let mut xfers = Vec::new();
    for ms in method_sets.iter() {
        for p in params.iter() {
            for d in domains.iter() {
                for r in ranges.iter() {
                    xfers.push(E::Xfer {
                        methods: ms.clone(),
                        params: p.clone(),
                        domain: d.clone().map(Box::new),
                        range: Box::new(r.clone()),
                    });
                }
            }
        }
    }
    let refdecl = let_("@r", obj(vec![prop("z", num())]));
    for x in xfers.iter() {
        programs.push(single(vec![
            refdecl.clone(),
            Stmt::Res(rel(uri_lit(&["a"]), vec![x.clone()])),
        ]));
        programs.push(single(vec![
            refdecl.clone(),
            let_("x", x.clone()),
            Stmt::Res(rel(uri_lit(&["a"]), vec![var("x")])),
        ]));
    }
    // Relations with 2-3 transfers on distinct methods; order of the transfers varies.
    let t = |m: Method, body: E| xfer(m, content(body));
    let trios = vec![
        vec![t(Method::Get, num()), t(Method::Put, str_())],
        vec![t(Method::Put, str_()), t(Method::Get, num())],
        vec![t(Method::Get, num()), t(Method::Put, str_()), t(Method::Delete, obj(vec![]))],
        vec![t(Method::Delete, obj(vec![])), t(Method::Get, num()), t(Method::Put, str_())],
        vec![
            E::Xfer {
                methods: vec![Method::Get, Method::Head],
                params: None,
                domain: None,
                range: Box::new(content(num())),
            },
            t(Method::Post, str_()),
        ],
    ];
    for xs in trios {
        programs.push(single(vec![Stmt::Res(rel(uri_lit(&["a"]), xs.clone()))]));
        // relation named, uri named
        programs.push(single(vec![
            let_("u", uri_lit(&["a", "b"])),
            let_("r", rel(var("u"), xs.clone())),
            Stmt::Res(var("r")),
        ]));
        // two resources
        programs.push(single(vec![
            Stmt::Res(rel(uri_lit(&["a"]), xs.clone())),
            Stmt::Res(rel(uri_lit(&["b"]), xs)),
        ]));
    }
    Fragment {
        name: "F3 transfers and relations",
        well_kinded: true,
        programs,
    }
}

// --- F4: URI templates and concat -------------------------------------------------------

fn seg_menu() -> Vec<Seg> {
    vec![
        Seg::Root,
        Seg::Lit("a".into()),
        Seg::Lit("B".into()),
        Seg::Var(Box::new(prop("p", num()))),
        Seg::Var(Box::new(prop("q", str_()))),
        Seg::Var(Box::new(ann(E::Paren(Box::new(prop("i", E::Prim(Prim::Int)))), "description: an id"))),
    ]
}

pub fn uris(max_len: usize) -> Vec<E> {
    let menu = seg_menu();
    let mut out = Vec::new();
    let mut cur: Vec<Vec<Seg>> = vec![vec![]];
    for _ in 0..max_len {
        let mut next = Vec::new();
        for p in cur.iter() {
            for s in menu.iter() {
                let mut q = p.clone();
                q.push(s.clone());
                next.push(q);
            }
        }
        for p in next.iter() {
            out.push(E::Uri(p.clone(), None));
            out.push(E::Uri(p.clone(), Some(vec![prop("s", str_()), markp("t", true, num())])));
        }
        cur = next;
    }
    out
}

pub fn f4(max_len: usize) -> Fragment {
    let mut programs = Vec::new();
    let ok = xfer(Method::Get, E::Content(vec![], None));
    let us = uris(max_len);
    for u in us.iter() {
        programs.push(single(vec![Stmt::Res(rel(u.clone(), vec![ok.clone()]))]));
        programs.push(single(vec![Stmt::Res(u.clone())]));
        // as a schema (uri-reference with a default example)
        programs.push(single(vec![get(content(obj(vec![prop("link", u.clone())])))]));
        // a relation used as a schema
        programs.push(single(vec![
            let_("r", rel(u.clone(), vec![ok.clone()])),
            get(content(obj(vec![prop("link", var("r"))]))),
            Stmt::Res(var("r")),
        ]));
    }
    // concat of 2 and 3 URIs
    let short = uris(max_len.min(2));
    for l in short.iter() {
        for r in short.iter() {
            let c = app("concat", vec![l.clone(), r.clone()]);
            programs.push(single(vec![Stmt::Res(rel(c.clone(), vec![ok.clone()]))]));
        }
    }
    let tiny = uris(1);
    for a in tiny.iter() {
        for b in tiny.iter() {
            for c in tiny.iter() {
                let l = app("concat", vec![app("concat", vec![a.clone(), b.clone()]), c.clone()]);
                let r = app("concat", vec![a.clone(), app("concat", vec![b.clone(), c.clone()])]);
                programs.push(single(vec![Stmt::Res(rel(l, vec![ok.clone()]))]));
                programs.push(single(vec![Stmt::Res(rel(r, vec![ok.clone()]))]));
            }
        }
    }
    // concat through names and a function
    programs.push(single(vec![
        let_("base", uri_lit(&["api", ""])),
        fun("under", &["u"], app("concat", vec![var("base"), var("u")])),
        Stmt::Res(rel(app("under", vec![uri_lit(&["x"])]), vec![ok.clone()])),
        Stmt::Res(rel(app("under", vec![E::Uri(vec![Seg::Lit("y".into()), Seg::Var(Box::new(prop("p", num())))], None)]), vec![ok.clone()])),
    ]));
    // uri example annotation
    programs.push(single(vec![get(content(obj(vec![
        prop("l", ann(uri_lit(&["a"]), "example: /a/1")),
        prop("m", ann(E::Prim(Prim::Uri), "example: http://x")),
        prop("n", E::Prim(Prim::Uri)),
    ])))]));
    Fragment {
        name: "F4 URI templates and concat",
        well_kinded: true,
        programs,
    }
}

// --- F5: declarations, functions, scoping ---------------------------------------------------

fn permutations<T: Clone>(v: &[T]) -> Vec<Vec<T>> {
    if v.len() <= 1 {
        return vec![v.to_vec()];
    }
    let mut out = Vec::new();
    for i in 0..v.len() {
        let mut rest = v.to_vec();
        let x = rest.remove(i);
        for mut p in permutations(&rest) {
            p.insert(0, x.clone());
            out.push(p);
        }
    }
    out
}

pub fn f5() -> Fragment {
    let mut programs = Vec::new();
    let mut extra: Vec<Program> = Vec::new();
    // a parameter in every position of a function body whose kind only an application fixes;
    // the function is applied once (before and after its declaration)
    {
        let o = obj(vec![prop("q", num())]);
        let cases: Vec<(E, E, bool)> = vec![
            // (body, argument, the application is the whole range)
            (obj(vec![prop("total", num()), var("item")]), prop("it", str_()), false),
            (obj(vec![E::Mark(Box::new(var("item")), false), prop("z", num())]), prop("it", str_()), false),
            (arr(var("item")), str_(), false),
            (op(Op::Any, vec![var("item"), num()]), str_(), false),
            (op(Op::Join, vec![var("item"), o.clone()]), obj(vec![prop("r", str_())]), false),
            (content(var("item")), num(), true),
            (E::Content(vec![(Meta::Status, var("item"))], Some(Box::new(o.clone()))), status(201), true),
            (E::Content(vec![(Meta::Headers, var("item"))], Some(Box::new(o.clone()))), obj(vec![prop("h", str_())]), true),
            (E::Content(vec![(Meta::Media, var("item"))], Some(Box::new(o.clone()))), text("text/plain"), true),
        ];
        for (body, arg, whole) in cases {
            let f = fun("page", &["item"], body);
            let use_ = if whole { app("page", vec![arg]) } else { content(app("page", vec![arg])) };
            extra.push(single(vec![f.clone(), get(use_.clone())]));
            extra.push(single(vec![get(use_), f]));
        }
        // literals that are validated where they are consumed (HTTP status), reaching that place
        // in place, through a declaration, an alias chain and a parameter
        for n in [0u64, 99, 100, 200, 599, 600, 741, 999, 65535, 65536, 65736] {
            let c = |st: E| E::Content(vec![(Meta::Status, st)], Some(Box::new(o.clone())));
            extra.push(single(vec![get(c(E::Num(n)))]));
            extra.push(single(vec![let_("s", E::Num(n)), get(c(var("s")))]));
            extra.push(single(vec![let_("s", E::Num(n)), let_("t", var("s")), get(c(var("t")))]));
            extra.push(single(vec![fun("failure", &["s"], c(var("s"))), get(app("failure", vec![E::Num(n)]))]));
            extra.push(single(vec![
                fun("failure", &["s"], c(var("s"))),
                get(op(Op::Range, vec![app("failure", vec![E::Num(n)]), c(E::Num(200))])),
            ]));
        }
        // arguments that carry an optionality mark (they are unary operations, not terminals):
        // every combination on a two-parameter function whose body uses both parameters bare
        for m1 in [None, Some(true), Some(false)] {
            for m2 in [None, Some(true), Some(false)] {
                let arg = |n: &str, m: Option<bool>| match m {
                    Some(r) => E::Mark(Box::new(var(n)), r),
                    None => var(n),
                };
                extra.push(single(vec![
                    let_("pa", prop("a", str_())),
                    let_("pb", prop("b", num())),
                    fun("pair", &["p", "q"], obj(vec![var("p"), var("q"), prop("z", E::Prim(Prim::Bool))])),
                    get(content(app("pair", vec![arg("pa", m1), arg("pb", m2)]))),
                ]));
                // the same called from a function whose parameter is named like the callee's last one
                extra.push(single(vec![
                    let_("pa", prop("a", str_())),
                    fun("pair", &["p", "q"], obj(vec![var("p"), var("q")])),
                    fun("entity", &["q"], app("pair", vec![arg("pa", m1), E::Mark(Box::new(E::Paren(Box::new(prop("meta", obj(vec![var("q")]))))), m2.unwrap_or(true))])),
                    get(content(app("entity", vec![prop("name", str_())]))),
                ]));
            }
        }
        // a parameter name written twice, applied to arguments of different kinds (which
        // parameter a use denotes is not defined, but the checker and the evaluator must agree)
        for (a1, a2) in [(obj(vec![prop("o", num())]), E::Num(404)), (E::Num(404), obj(vec![prop("o", num())])), (num(), str_())] {
            extra.push(single(vec![fun("pick", &["x", "x"], var("x")), get(content(app("pick", vec![a1.clone(), a2.clone()])))]));
            extra.push(single(vec![fun("pick", &["x", "x"], obj(vec![prop("v", var("x"))])), get(content(app("pick", vec![a1, a2])))]));
        }
        // a function whose body applies another function to an argument that *contains* its
        // parameter, applied twice with different arguments (in one resource and in two)
        {
            let boxf = fun("box", &["y"], obj(vec![prop("box", var("y"))]));
            for inner in [
                obj(vec![prop("item", var("x"))]),
                arr(var("x")),
                E::Paren(Box::new(var("x"))),
            ] {
                let wrap = fun("wrap", &["x"], app("box", vec![inner]));
                extra.push(single(vec![
                    boxf.clone(),
                    wrap.clone(),
                    get(content(app("wrap", vec![E::Prim(Prim::Int)]))),
                    get_at("second", content(app("wrap", vec![str_()]))),
                ]));
                extra.push(single(vec![
                    boxf.clone(),
                    wrap,
                    get(content(obj(vec![prop("a", app("wrap", vec![E::Prim(Prim::Int)])), prop("b", app("wrap", vec![str_()]))]))),
                ]));
            }
            // a parameter in function position
            extra.push(single(vec![
                boxf.clone(),
                fun("ap", &["g"], app("g", vec![num()])),
                get(content(obj(vec![prop("a", app("ap", vec![var("box")])), prop("b", app("ap", vec![var("box")]))]))),
            ]));
        }
        // three and four parameters of kinds that cannot stand in for each other, so that every
        // argument has to reach its own parameter
        {
            let o = obj(vec![prop("q", num())]);
            let h = obj(vec![prop("h", str_())]);
            let mk3 = fun(
                "mk",
                &["s", "h", "b"],
                E::Content(vec![(Meta::Status, var("s")), (Meta::Headers, var("h"))], Some(Box::new(var("b")))),
            );
            let use3 = app("mk", vec![status(201), h.clone(), o.clone()]);
            extra.push(single(vec![mk3.clone(), get(use3.clone())]));
            extra.push(single(vec![get(use3), mk3]));
            let mk4 = fun(
                "mk",
                &["s", "m", "h", "b"],
                E::Content(
                    vec![(Meta::Status, var("s")), (Meta::Media, var("m")), (Meta::Headers, var("h"))],
                    Some(Box::new(var("b"))),
                ),
            );
            let use4 = app("mk", vec![status(201), text("text/plain"), h.clone(), o.clone()]);
            extra.push(single(vec![mk4.clone(), get(use4.clone())]));
            extra.push(single(vec![get(use4), mk4]));
            let mk3s = fun("mk", &["a", "b", "c"], obj(vec![prop("a", var("a")), prop("b", var("b")), prop("c", var("c"))]));
            extra.push(single(vec![mk3s, get(content(app("mk", vec![num(), str_(), E::Prim(Prim::Bool)])))]));
        }
        // a function whose parameter is applied, called with two different functions (in two
        // resources and in one)
        {
            let w = fun("w", &["x"], obj(vec![prop("w", var("x"))]));
            let b = fun("b", &["x"], obj(vec![prop("b", var("x"))]));
            let apply = fun("apply", &["g", "v"], app("g", vec![var("v")]));
            extra.push(single(vec![
                w.clone(),
                b.clone(),
                apply.clone(),
                get(content(app("apply", vec![var("w"), num()]))),
                get_at("second", content(app("apply", vec![var("b"), num()]))),
            ]));
            extra.push(single(vec![
                w,
                b,
                apply,
                get(content(obj(vec![
                    prop("m", app("apply", vec![var("w"), num()])),
                    prop("n", app("apply", vec![var("b"), num()])),
                ]))),
            ]));
        }
        // a parameter in function position that has the name of a declared function (the
        // parameter wins), called with another function; also as a rec binder's namesake
        {
            let f = fun("f", &["x"], obj(vec![prop("fromGlobal", var("x"))]));
            let g = fun("g", &["x"], obj(vec![prop("fromArg", var("x"))]));
            let ap = fun("ap", &["f", "y"], app("f", vec![var("y")]));
            extra.push(single(vec![f.clone(), g.clone(), ap.clone(), get(content(app("ap", vec![var("g"), E::Prim(Prim::Int)])))]));
            extra.push(single(vec![ap.clone(), get(content(app("ap", vec![var("g"), E::Prim(Prim::Int)]))), g.clone(), f.clone()]));
            extra.push(single(vec![
                f,
                g,
                fun("ap", &["f", "y"], obj(vec![prop("called", app("f", vec![var("y")])), prop("again", app("f", vec![str_()]))])),
                get(content(app("ap", vec![var("g"), E::Prim(Prim::Int)]))),
            ]));
        }
        // a function applied from inside a rec body whose parameter is spelled like the rec
        // binder of the caller: the callee's parameter is its own
        {
            let wrap = fun("wrap", &["r"], obj(vec![prop("value", var("r"))]));
            let list = fun(
                "list",
                &["x"],
                E::Rec("r".into(), Box::new(obj(vec![prop("item", E::Paren(Box::new(app("wrap", vec![var("x")])))), prop("next", arr(var("r")))]))),
            );
            extra.push(single(vec![wrap.clone(), list.clone(), get(content(app("list", vec![num()])))]));
            extra.push(single(vec![get(content(app("list", vec![num()]))), list.clone(), wrap.clone()]));
            // ... and the callee has a rec of that name itself
            let wrap2 = fun("wrap", &["r"], obj(vec![prop("value", var("r")), prop("more", E::Rec("x".into(), Box::new(obj(vec![prop("k", arr(var("x"))), prop("v", var("r"))]))))]));
            extra.push(single(vec![wrap2, list, get(content(app("list", vec![str_()])))]));
        }
        // a parameter name written twice that is also the name of a declaration used elsewhere
        {
            let pick = fun("pick", &["x", "x"], var("x"));
            let g = let_("x", E::Prim(Prim::Bool));
            let use_ = get(content(obj(vec![prop("a", app("pick", vec![num(), num()])), prop("b", var("x"))])));
            extra.push(single(vec![g.clone(), pick.clone(), use_.clone()]));
            extra.push(single(vec![pick.clone(), use_.clone(), g.clone()]));
            extra.push(single(vec![
                g,
                pick,
                get(content(app("pick", vec![num(), num()]))),
                get_at("second", content(var("x"))),
            ]));
        }
        // the built-in function, used directly and through declarations
        extra.push(single(vec![
            let_("base", uri_lit(&["api"])),
            let_("items", app("concat", vec![var("base"), uri_lit(&["items"])])),
            Stmt::Res(rel(var("items"), vec![xfer(Method::Get, content(obj(vec![prop("self", var("items"))])))])),
            Stmt::Res(rel(app("concat", vec![var("items"), E::Uri(vec![Seg::Var(Box::new(prop("id", num())))], None)]), vec![xfer(Method::Get, E::Content(vec![], None))])),
        ]));
        // in a URI, in the parameters and as the range of a transfer
        let f = fun("at", &["item"], E::Uri(vec![Seg::Lit("a".into()), Seg::Var(Box::new(var("item")))], None));
        extra.push(single(vec![f, Stmt::Res(rel(app("at", vec![prop("id", num())]), vec![xfer(Method::Get, E::Content(vec![], None))]))]));
        let f = fun("op", &["item"], xfer(Method::Get, var("item")));
        extra.push(single(vec![f, Stmt::Res(rel(uri_lit(&["a"]), vec![app("op", vec![content(num())])]))]));
        let f = fun(
            "op",
            &["item"],
            E::Xfer { methods: vec![Method::Get], params: Some(vec![var("item")]), domain: None, range: Box::new(E::Content(vec![], None)) },
        );
        extra.push(single(vec![f, Stmt::Res(rel(uri_lit(&["a"]), vec![app("op", vec![prop("q", str_())])]))]));
    }
    let mut all_orders = |stmts: Vec<Stmt>| {
        if stmts.len() <= 4 {
            for p in permutations(&stmts) {
                programs.push(single(p));
            }
        } else {
            programs.push(single(stmts.clone()));
            let mut r = stmts;
            r.reverse();
            programs.push(single(r));
        }
    };
    // chains and use before definition
    all_orders(vec![
        let_("a", num()),
        let_("b", obj(vec![prop("p", var("a"))])),
        let_("c", arr(var("b"))),
        get(content(var("c"))),
    ]);
    // first-order functions, one and two parameters
    all_orders(vec![
        fun("f", &["x"], obj(vec![prop("p", var("x"))])),
        fun("g", &["x", "y"], op(Op::Join, vec![app("f", vec![var("x")]), obj(vec![prop("q", var("y"))])])),
        get(content(app("g", vec![num(), str_()]))),
    ]);
    // the same function applied twice to different arguments
    all_orders(vec![
        fun("f", &["x"], obj(vec![prop("p", var("x"))])),
        get(content(obj(vec![
            prop("m", app("f", vec![num()])),
            prop("n", app("f", vec![str_()])),
        ]))),
    ]);
    // higher order: a function parameter applied
    all_orders(vec![
        fun("ap", &["h", "z"], app("h", vec![var("z")])),
        fun("f", &["x"], arr(var("x"))),
        get(content(app("ap", vec![var("f"), num()]))),
    ]);
    // function alias
    all_orders(vec![
        fun("f", &["x"], arr(var("x"))),
        let_("g", var("f")),
        get(content(app("g", vec![num()]))),
    ]);
    // parameter shadows a declaration
    all_orders(vec![
        let_("x", num()),
        fun("f", &["x"], arr(var("x"))),
        get(content(obj(vec![prop("m", app("f", vec![str_()])), prop("n", var("x"))]))),
    ]);
    // lexical scoping: g's free `a` is the declaration, not f's parameter `a`
    all_orders(vec![
        let_("a", num()),
        fun("g", &["b"], obj(vec![prop("p", var("a")), prop("q", var("b"))])),
        fun("f", &["a"], app("g", vec![var("a")])),
        get(content(app("f", vec![str_()]))),
    ]);
    // a parameter used below a rec (not in the innermost evaluation scope) of a function that is
    // called from a function whose own parameter has the same name
    all_orders(vec![
        fun("inner", &["x"], E::Rec("r".into(), Box::new(obj(vec![prop("v", var("x")), prop("k", arr(var("r")))])))),
        fun("outer", &["x"], obj(vec![prop("i", app("inner", vec![num()])), prop("o", var("x"))])),
        get(content(app("outer", vec![str_()]))),
    ]);
    all_orders(vec![
        fun("inner", &["x"], obj(vec![prop("deep", E::Rec("r".into(), Box::new(obj(vec![prop("w", E::Rec("s".into(), Box::new(obj(vec![prop("v", var("x")), prop("k", arr(var("s")))]))))])))), prop("flat", var("x"))])),
        fun("middle", &["x"], obj(vec![prop("m", app("inner", vec![E::Prim(Prim::Bool)])), prop("x", var("x"))])),
        fun("outer", &["x"], obj(vec![prop("i", app("middle", vec![num()])), prop("o", var("x"))])),
        get(content(app("outer", vec![str_()]))),
    ]);
    // nested applications with the same parameter name at every level
    all_orders(vec![
        fun("f", &["x"], obj(vec![prop("p", var("x"))])),
        fun("g", &["x"], app("f", vec![arr(var("x"))])),
        fun("h", &["x"], app("g", vec![obj(vec![prop("q", var("x"))])])),
        get(content(app("h", vec![num()]))),
    ]);
    // argument evaluated in the caller's scope, body in the callee's
    all_orders(vec![
        fun("f", &["x", "y"], obj(vec![prop("p", var("x")), prop("q", var("y"))])),
        fun("g", &["y", "x"], app("f", vec![var("x"), var("y")])),
        get(content(app("g", vec![num(), str_()]))),
    ]);
    // a later argument named like an earlier parameter of the callee (arguments are
    // evaluated in the caller's scope)
    for (p1, p2) in [("x", "y"), ("y", "x")] {
        for (a1, a2) in [("x", "y"), ("y", "x"), ("x", "x"), ("y", "y")] {
            all_orders(vec![
                fun("pair", &["x", "y"], obj(vec![prop("l", var("x")), prop("r", var("y"))])),
                fun("flip", &[p1, p2], app("pair", vec![var(a1), var(a2)])),
                get(content(app("flip", vec![num(), str_()]))),
            ]);
        }
    }
    all_orders(vec![
        fun("g", &["x", "y"], E::Content(vec![(Meta::Status, var("y"))], Some(Box::new(var("x"))))),
        fun("f", &["x"], app("g", vec![obj(vec![]), var("x")])),
        get(app("f", vec![status(200)])),
    ]);
    all_orders(vec![
        fun("three", &["a", "b", "c"], obj(vec![prop("a", var("a")), prop("b", var("b")), prop("c", var("c"))])),
        fun("rot", &["c", "a", "b"], app("three", vec![var("b"), var("c"), var("a")])),
        get(content(app("rot", vec![num(), str_(), E::Prim(Prim::Bool)]))),
    ]);
    // functions returning contents, transfers, relations, uris
    all_orders(vec![
        fun("ok", &["s"], E::Content(vec![(Meta::Status, status(200))], Some(Box::new(var("s"))))),
        fun("rd", &["s"], xfer(Method::Get, app("ok", vec![var("s")]))),
        fun("at", &["u", "s"], rel(var("u"), vec![app("rd", vec![var("s")])])),
        Stmt::Res(app("at", vec![uri_lit(&["a"]), num()])),
    ]);
    // a global declaration with a rec binder named like the parameter of a function that uses
    // the declaration before its own parameter
    all_orders(vec![
        let_("list", E::Rec("x".into(), Box::new(arr(var("x"))))),
        fun("page", &["x"], obj(vec![prop("related", var("list")), prop("item", var("x"))])),
        get(content(app("page", vec![str_()]))),
    ]);
    all_orders(vec![
        let_("list", E::Rec("x".into(), Box::new(obj(vec![prop("next", var("x"))])))),
        fun("inner", &["y"], obj(vec![prop("l", var("list")), prop("y", var("y"))])),
        fun("outer", &["x"], obj(vec![prop("i", app("inner", vec![num()])), prop("x", var("x"))])),
        get(content(app("outer", vec![str_()]))),
    ]);
    // rec binder shadows a parameter and a declaration
    all_orders(vec![
        let_("x", num()),
        fun("f", &["x"], E::Rec("x".into(), Box::new(obj(vec![prop("n", arr(var("x")))])))),
        get(content(obj(vec![prop("m", app("f", vec![str_()])), prop("k", var("x"))]))),
    ]);
    programs.extend(extra);
    Fragment {
        name: "F5 declarations, functions, scoping",
        well_kinded: true,
        programs,
    }
}

// --- F6: recursion -------------------------------------------------------------------------

fn rec_bodies(holes: &[E]) -> Vec<E> {
    let mut out = Vec::new();
    for h in holes {
        out.push(obj(vec![prop("p", h.clone())]));
        out.push(arr(h.clone()));
        out.push(h.clone());
        out.push(op(Op::Any, vec![h.clone(), str_()]));
        out.push(app("w", vec![h.clone()]));
        out.push(app("i", vec![h.clone()]));
        out.push(content(h.clone()));
    }
    for h1 in holes {
        for h2 in holes {
            out.push(obj(vec![prop("p", h1.clone()), prop("q", arr(h2.clone()))]));
        }
    }
    // the right-hand side is directly a rec (its binder used or not) around the mention
    for h in holes {
        out.push(E::Rec("z".into(), Box::new(obj(vec![prop("p", h.clone()), prop("q", arr(var("z")))]))));
        out.push(E::Rec("z".into(), Box::new(obj(vec![prop("p", h.clone())]))));
    }
    // a rec binder spelled like a declaration, used before a mention of the declaration itself
    for h in holes {
        if let E::Var(None, name) = h {
            out.push(obj(vec![
                prop("x", E::Rec(name.clone(), Box::new(obj(vec![prop("k", arr(var(name)))])))),
                prop("p", arr(h.clone())),
            ]));
        }
    }
    // a nested rec before / after the mention that may close a cycle
    for h in holes {
        let r = E::Rec("y".into(), Box::new(arr(var("y"))));
        out.push(obj(vec![prop("x", r.clone()), prop("p", h.clone())]));
        out.push(obj(vec![prop("p", h.clone()), prop("x", r)]));
    }
    out
}

pub fn f6(n: usize, full: bool) -> Fragment {
    let mut programs = f6_graphs(n);
    programs.extend(f6_rec_programs());
    let _ = full;
    Fragment {
        name: "F6 recursion",
        well_kinded: false,
        programs,
    }
}

/// Every assignment of a body form to each of the n declarations.
fn f6_graphs(n: usize) -> Vec<Program> {
    let mut programs = Vec::new();
    let names = ["a", "b", "c"];
    let mut holes: Vec<E> = names[..n].iter().map(|x| var(x)).collect();
    holes.push(str_());
    let bodies = rec_bodies(&holes);
    let wrapper = fun("w", &["x"], obj(vec![prop("r", var("x"))]));
    // every assignment of a body to each of the n declarations
    let total = bodies.len().pow(n as u32);
    for i in 0..total {
        let mut k = i;
        let mut st = vec![wrapper.clone(), fun("i", &["x"], var("x"))];
        for name in names[..n].iter() {
            st.push(let_(name, bodies[k % bodies.len()].clone()));
            k /= bodies.len();
        }
        st.push(get(content(var("a"))));
        programs.push(single(st));
    }
    programs
}

/// rec expressions: nested, shadowing, in functions applied at several scope depths, closed
/// rec used from different scopes, recursion in imported modules.
pub fn f6_rec_programs() -> Vec<Program> {
    let mut programs = Vec::new();
    // rec expressions
    let recs = vec![
        E::Rec("x".into(), Box::new(obj(vec![prop("n", arr(var("x")))]))),
        E::Rec("x".into(), Box::new(obj(vec![prop("n", var("x")), prop("v", num())]))),
        E::Rec("x".into(), Box::new(arr(var("x")))),
        E::Rec(
            "x".into(),
            Box::new(obj(vec![prop(
                "n",
                E::Rec("y".into(), Box::new(obj(vec![prop("a", var("x")), prop("b", arr(var("y")))]))),
            )])),
        ),
        E::Rec(
            "x".into(),
            Box::new(obj(vec![prop(
                "n",
                E::Rec("x".into(), Box::new(obj(vec![prop("a", arr(var("x")))]))),
            )])),
        ),
        E::Rec("x".into(), Box::new(op(Op::Any, vec![num(), arr(var("x"))]))),
    ];
    for r in recs.iter() {
        programs.push(single(vec![get(content(r.clone()))]));
        programs.push(single(vec![let_("t", r.clone()), get(content(var("t"))), get_at("b", content(arr(var("t"))))]));
        // inside a function body, applied once / twice with equal / different arguments
        let body = obj(vec![prop("v", var("z")), prop("t", r.clone())]);
        for args in [vec![num()], vec![num(), num()], vec![num(), str_()]] {
            let mut st = vec![fun("f", &["z"], body.clone())];
            let props: Vec<E> = args
                .iter()
                .enumerate()
                .map(|(i, a)| prop(&format!("k{i}"), app("f", vec![a.clone()])))
                .collect();
            st.push(get(content(obj(props))));
            programs.push(single(st));
        }
    }
    // two different recs that use the same binder name: in two declarations, in one object, in
    // one declaration and in a function body
    {
        let r1 = E::Rec("x".into(), Box::new(obj(vec![prop("n", arr(var("x"))), prop("one", num())])));
        let r2 = E::Rec("x".into(), Box::new(obj(vec![prop("m", arr(var("x"))), prop("two", str_())])));
        programs.push(single(vec![let_("a", r1.clone()), let_("b", r2.clone()), get(content(obj(vec![prop("a", var("a")), prop("b", var("b"))])))]));
        programs.push(single(vec![get(content(obj(vec![prop("l", r1.clone()), prop("r", r2.clone())])))]));
        programs.push(single(vec![get(content(r1.clone())), get_at("b", content(r2.clone()))]));
        programs.push(single(vec![
            let_("a", r1.clone()),
            fun("f", &["z"], obj(vec![prop("v", var("z")), prop("t", r2.clone())])),
            get(content(obj(vec![prop("a", var("a")), prop("f", app("f", vec![num()]))]))),
        ]));
    }
    // rec whose body uses the parameter: instantiations must not be shared
    let tree = fun(
        "tree",
        &["z"],
        E::Rec("x".into(), Box::new(obj(vec![prop("v", var("z")), prop("kids", arr(var("x")))]))),
    );
    for args in [vec![num(), str_()], vec![num(), num()], vec![str_(), num(), str_()]] {
        let props: Vec<E> = args
            .iter()
            .enumerate()
            .map(|(i, a)| prop(&format!("k{i}"), app("tree", vec![a.clone()])))
            .collect();
        programs.push(single(vec![tree.clone(), get(content(obj(props)))]));
    }
    // a rec whose body uses the parameter, around an inner rec that mentions the outer binder
    // but not the parameter: the inner one belongs to its outer instantiation
    {
        let inner = E::Rec("cell".into(), Box::new(obj(vec![prop("up", var("top")), prop("next", arr(var("cell")))])));
        let chain = fun(
            "chain",
            &["v"],
            E::Rec("top".into(), Box::new(obj(vec![prop("value", var("v")), prop("tail", inner)]))),
        );
        programs.push(single(vec![
            chain.clone(),
            get(content(obj(vec![prop("m", app("chain", vec![num()])), prop("n", app("chain", vec![str_()]))]))),
        ]));
        programs.push(single(vec![
            chain.clone(),
            get(content(app("chain", vec![num()]))),
            get_at("b", content(app("chain", vec![str_()]))),
        ]));
        programs.push(single(vec![
            chain,
            get(content(obj(vec![prop("m", app("chain", vec![num()])), prop("n", app("chain", vec![num()]))]))),
        ]));
    }
    // instantiations at scope depth >= 2: a function with a rec applied several times
    // inside another function's body, with equal and different arguments
    for (a1, a2) in [(num(), str_()), (num(), num()), (str_(), num())] {
        programs.push(single(vec![
            tree.clone(),
            fun("pair", &["a", "b"], obj(vec![prop("fst", app("tree", vec![var("a")])), prop("snd", app("tree", vec![var("b")]))])),
            get(content(app("pair", vec![a1.clone(), a2.clone()]))),
        ]));
        programs.push(single(vec![
            tree.clone(),
            fun("pair", &["a", "b"], obj(vec![prop("fst", app("tree", vec![var("a")])), prop("snd", app("tree", vec![var("b")]))])),
            fun("quad", &["a", "b"], obj(vec![prop("l", app("pair", vec![var("a"), var("b")])), prop("r", app("pair", vec![var("b"), var("a")]))])),
            get(content(app("quad", vec![a1.clone(), a2.clone()]))),
        ]));
    }
    // instantiations in different resources (each resource is its own evaluation tree)
    {
        let args = [num(), str_(), arr(num()), obj(vec![prop("a", num())]), app("tree", vec![num()]), app("tree", vec![str_()])];
        for a in args.iter() {
            for b in args.iter() {
                programs.push(single(vec![
                    tree.clone(),
                    get(content(app("tree", vec![a.clone()]))),
                    get_at("b", content(app("tree", vec![b.clone()]))),
                ]));
            }
        }
        programs.push(single(vec![
            tree.clone(),
            get(content(app("tree", vec![num()]))),
            get_at("b", content(app("tree", vec![str_()]))),
            get_at("c", content(obj(vec![prop("k", app("tree", vec![num()])), prop("l", app("tree", vec![arr(str_())]))]))),
        ]));
    }
    // a closed top-level rec used from different function scopes
    programs.push(single(vec![
        let_("t", recs[0].clone()),
        fun("f", &["z"], obj(vec![prop("v", var("z")), prop("t", var("t"))])),
        get(content(obj(vec![prop("m", app("f", vec![num()])), prop("n", app("f", vec![str_()]))]))),
    ]));
    // a cycle through a function and a declaration, legally cut at the declaration, entered
    // through the function and through the declaration
    {
        let treef = fun("tree", &["x"], E::Rec("y".into(), Box::new(obj(vec![prop("node", var("node")), prop("value", var("x")), prop("next", var("y"))]))));
        let node = let_("node", app("tree", vec![E::Prim(Prim::Int)]));
        programs.push(single(vec![treef.clone(), node.clone(), get(content(app("tree", vec![str_()])))]));
        programs.push(single(vec![treef.clone(), node.clone(), get(content(var("node")))]));
        programs.push(single(vec![treef.clone(), node.clone(), get(content(var("node"))), get_at("b", content(app("tree", vec![str_()])))]));
        programs.push(single(vec![treef, node, get(content(app("tree", vec![str_()]))), get_at("b", content(var("node")))]));
    }
    // imported recursive declarations mentioned from a declaration of the importing module
    for q in [None, Some("m".to_owned())] {
        let use_ = |n: &str| match &q {
            Some(q) => qvar(q, n),
            None => var(n),
        };
        programs.push(Program {
            modules: vec![
                Module {
                    name: "main.oal".into(),
                    stmts: vec![
                        Stmt::Use("m.oal".into(), q.clone()),
                        let_("wrap", obj(vec![prop("n", use_("node")), prop("pair", use_("a"))])),
                        let_("again", arr(var("wrap"))),
                        get(content(var("again"))),
                        get_at("b", content(use_("b"))),
                    ],
                },
                Module {
                    name: "m.oal".into(),
                    stmts: vec![
                        let_("node", obj(vec![prop("value", E::Prim(Prim::Int)), prop("next", var("node"))])),
                        let_("a", obj(vec![prop("b", arr(var("b")))])),
                        let_("b", obj(vec![prop("a", var("a"))])),
                    ],
                },
            ],
        });
    }
    // recursion defined in an imported module
    for q in [None, Some("m".to_owned())] {
        let use_ = |n: &str| match &q {
            Some(q) => qvar(q, n),
            None => var(n),
        };
        programs.push(Program {
            modules: vec![
                Module {
                    name: "main.oal".into(),
                    stmts: vec![
                        Stmt::Use("m.oal".into(), q.clone()),
                        get(content(obj(vec![prop("a", use_("person")), prop("b", use_("list"))]))),
                    ],
                },
                Module {
                    name: "m.oal".into(),
                    stmts: vec![
                        let_("person", obj(vec![prop("friends", arr(var("person")))])),
                        let_("list", E::Rec("x".into(), Box::new(obj(vec![prop("next", var("x"))])))),
                    ],
                },
            ],
        });
    }
    // recursion points at the same syntactic position of two different modules
    for (q1, q2) in [(Some("m".to_owned()), Some("n".to_owned())), (None, Some("n".to_owned()))] {
        let shape = |leaf: E, name: &str| {
            vec![
                let_(name, E::Rec("x".into(), Box::new(obj(vec![prop("v", leaf.clone()), prop("kids", arr(var("x")))])))),
                let_(&format!("{name}d"), obj(vec![prop("w", leaf), prop("again", arr(var(&format!("{name}d"))))])),
            ]
        };
        let r1 = |n: &str| match &q1 { Some(q) => qvar(q, n), None => var(n) };
        let r2 = |n: &str| match &q2 { Some(q) => qvar(q, n), None => var(n) };
        programs.push(Program {
            modules: vec![
                Module {
                    name: "main.oal".into(),
                    stmts: vec![
                        Stmt::Use("m.oal".into(), q1.clone()),
                        Stmt::Use("n.oal".into(), q2.clone()),
                        get(content(obj(vec![prop("a", r1("t")), prop("b", r2("u")), prop("c", r1("td")), prop("d", r2("ud"))]))),
                    ],
                },
                Module { name: "m.oal".into(), stmts: shape(num(), "t") },
                Module { name: "n.oal".into(), stmts: shape(str_(), "u") },
            ],
        });
    }
    // cycles whose only members are @references that are not schemas to cut at: aliases of
    // each other, of themselves, through a plain declaration, and a URI built from itself
    programs.push(single(vec![let_("@page", var("@next")), let_("@next", var("@page")), get(content(var("@page")))]));
    programs.push(single(vec![let_("@a", var("@a")), get(content(var("@a")))]));
    programs.push(single(vec![let_("@a", var("b")), let_("b", var("@a")), get(content(var("b")))]));
    programs.push(single(vec![
        let_("@self", app("concat", vec![var("@self"), uri_lit(&["more"])])),
        Stmt::Res(rel(var("@self"), vec![xfer(Method::Get, E::Content(vec![], None))])),
    ]));
    programs.push(single(vec![let_("@c", content(var("@c"))), get(var("@c"))]));
    // a rec whose body is a relation that mentions the binder inside a transfer (a link to self)
    programs.push(single(vec![Stmt::Res(E::Rec(
        "self_".into(),
        Box::new(E::Paren(Box::new(rel(
            E::Uri(vec![Seg::Lit("nodes".into()), Seg::Var(Box::new(prop("id", E::Prim(Prim::Int))))], None),
            vec![xfer(Method::Get, content(obj(vec![prop("self", var("self_")), prop("children", arr(var("self_")))])))],
        )))),
    ))]));
    programs.push(single(vec![
        let_(
            "node",
            E::Rec(
                "me".into(),
                Box::new(E::Paren(Box::new(rel(
                    uri_lit(&["node"]),
                    vec![xfer(Method::Get, content(obj(vec![prop("me", var("me"))])))],
                )))),
            ),
        ),
        Stmt::Res(var("node")),
        get_at("b", content(obj(vec![prop("link", var("node"))]))),
    ]));
    // modules laid out alike (corresponding declarations sit at the same place of their trees):
    // a recursive declaration beside an imported one of the same name and shape that is not
    // recursive, and a wrapper function around an imported function of the same shape
    programs.push(Program {
        modules: vec![
            Module {
                name: "main.oal".into(),
                stmts: vec![
                    let_("c", obj(vec![prop("x", qvar("m", "b"))])),
                    let_("b", obj(vec![E::Mark(Box::new(prop("n", var("b"))), false)])),
                    Stmt::Use("m.oal".into(), Some("m".into())),
                    get(content(obj(vec![prop("c", var("c")), prop("b", var("b"))]))),
                ],
            },
            Module {
                name: "m.oal".into(),
                stmts: vec![
                    let_("c", obj(vec![prop("x", qvar("e", "b"))])),
                    let_("b", obj(vec![E::Mark(Box::new(prop("n", var("c"))), false)])),
                    Stmt::Use("e.oal".into(), Some("e".into())),
                ],
            },
            Module { name: "e.oal".into(), stmts: vec![let_("b", obj(vec![prop("v", E::Prim(Prim::Int))]))] },
        ],
    });
    programs.push(Program {
        modules: vec![
            Module {
                name: "main.oal".into(),
                stmts: vec![
                    fun("f", &["x"], obj(vec![prop("v", E::Paren(Box::new(E::App(Some("m".into()), "f".into(), vec![var("x")]))))])),
                    Stmt::Use("m.oal".into(), Some("m".into())),
                    get(content(app("f", vec![E::Prim(Prim::Int)]))),
                ],
            },
            Module {
                name: "m.oal".into(),
                stmts: vec![
                    fun("f", &["x"], obj(vec![prop("v", E::Paren(Box::new(E::App(Some("e".into()), "f".into(), vec![var("x")]))))])),
                    Stmt::Use("e.oal".into(), Some("e".into())),
                ],
            },
            Module { name: "e.oal".into(), stmts: vec![fun("f", &["x"], obj(vec![prop("w", var("x"))]))] },
        ],
    });
    programs
}

// --- F11: recursion terms --------------------------------------------------------------------

/// Every closed schema term of exactly `size` constructors over
/// leaves {num, a rec variable in scope}, unary {[T], {'a T}, rec x T, rec y T, list T, i T}
/// and binary {{'a T, 'b T}}, where `list v = rec n {'value v, 'next n}` and `i z = z`.
fn rec_terms(size: usize, scope: &[&str]) -> Vec<E> {
    let mut out = Vec::new();
    if size == 1 {
        out.push(num());
        for v in scope {
            out.push(var(v));
        }
        return out;
    }
    for t in rec_terms(size - 1, scope) {
        out.push(arr(t.clone()));
        out.push(obj(vec![prop("a", t.clone())]));
        out.push(app("list", vec![t.clone()]));
        out.push(app("i", vec![t]));
    }
    for b in ["x", "y"] {
        let mut inner: Vec<&str> = scope.to_vec();
        if !inner.contains(&b) {
            inner.push(b);
        }
        for t in rec_terms(size - 1, &inner) {
            out.push(E::Rec(b.into(), Box::new(t)));
        }
    }
    for l in 1..size.saturating_sub(1) {
        let r = size - 1 - l;
        if r == 0 {
            continue;
        }
        let rs = rec_terms(r, scope);
        for t1 in rec_terms(l, scope) {
            for t2 in rs.iter() {
                out.push(obj(vec![prop("a", t1.clone()), prop("b", t2.clone())]));
            }
        }
    }
    out
}

/// F11: every closed recursion term of up to `max` constructors, used directly in a resource
/// and through a declaration used by two resources.
pub fn f11(max: usize) -> Fragment {
    let mut programs = Vec::new();
    let list = fun(
        "list",
        &["v"],
        E::Rec("n".into(), Box::new(obj(vec![prop("value", var("v")), prop("next", var("n"))]))),
    );
    let id = fun("i", &["z"], var("z"));
    for size in 2..=max {
        for t in rec_terms(size, &[]) {
            programs.push(single(vec![list.clone(), id.clone(), get(content(t.clone()))]));
            programs.push(single(vec![
                list.clone(),
                id.clone(),
                let_("t", t),
                get(content(var("t"))),
                get_at("b", content(arr(var("t")))),
            ]));
        }
    }
    Fragment {
        name: "F11 recursion terms",
        well_kinded: false,
        programs,
    }
}

// --- F7: @references ---------------------------------------------------------------------------

pub fn f7() -> Fragment {
    let mut programs = Vec::new();
    let o = obj(vec![prop("p", num())]);
    let sets: Vec<Vec<Stmt>> = vec![
        // ref to ref
        vec![let_("@a", o.clone()), let_("@b", var("@a")), get(content(var("@b")))],
        // atomic refs are kept as components
        vec![let_("@n", num()), get(content(obj(vec![prop("x", var("@n")), prop("y", var("@n"))])))],
        vec![let_("@u", uri_lit(&["a"])), get(content(obj(vec![prop("x", var("@u"))])))],
        // shared ref
        vec![let_("@a", o.clone()), get(content(var("@a"))), get_at("b", content(arr(var("@a"))))],
        // a reference whose every use carries an annotation (inline on the term; a line
        // annotation on an alias; on an applied function); one plain use beside them
        vec![let_("@a", o.clone()), get(content(ann(var("@a"), "description: at the only use")))],
        vec![let_("@a", o.clone()), let_ann("p", "description: on the alias", var("@a")), get(content(var("p")))],
        vec![
            let_("@a", o.clone()),
            Stmt::Let { anns: vec!["title: on the function".into()], name: "f".into(), params: vec!["x".into()], body: var("@a") },
            get(content(app("f", vec![num()]))),
        ],
        vec![
            let_("@a", o.clone()),
            get(content(ann(var("@a"), "description: at one use"))),
            get_at("b", content(var("@a"))),
        ],
        vec![
            let_("@a", obj(vec![prop("kids", arr(var("@a")))])),
            get(content(ann(var("@a"), "description: recursive, only use annotated"))),
        ],
        // recursive ref
        vec![let_("@a", obj(vec![prop("kids", arr(var("@a")))])), get(content(var("@a")))],
        // mutually recursive refs
        vec![
            let_("@a", obj(vec![prop("b", var("@b"))])),
            let_("@b", obj(vec![prop("a", arr(var("@a")))])),
            get(content(var("@a"))),
        ],
        // a reference / recursive declaration used more than once where its *value* is needed
        // (headers, the URI of a relation, a relation, a concat operand), not only as a schema
        vec![
            let_("@h", obj(vec![prop("X-Page", num())])),
            get(E::Content(vec![(Meta::Headers, var("@h"))], Some(Box::new(o.clone())))),
            get_at("b", E::Content(vec![(Meta::Headers, var("@h"))], Some(Box::new(o.clone())))),
        ],
        vec![
            let_("@h", obj(vec![prop("X-Page", num())])),
            get(content(var("@h"))),
            get_at("b", E::Content(vec![(Meta::Headers, var("@h"))], Some(Box::new(o.clone())))),
            get_at("c", E::Content(vec![(Meta::Headers, var("@h"))], None)),
        ],
        vec![
            let_("@u", uri_lit(&["items"])),
            Stmt::Res(rel(var("@u"), vec![xfer(Method::Get, content(obj(vec![prop("self", var("@u"))])))])),
            Stmt::Res(rel(app("concat", vec![var("@u"), uri_lit(&["more"])]), vec![xfer(Method::Get, content(obj(vec![prop("up", var("@u"))])))])),
        ],
        vec![
            let_("@r", rel(uri_lit(&["r"]), vec![xfer(Method::Get, content(num()))])),
            get(content(obj(vec![prop("link", var("@r")), prop("again", var("@r"))]))),
            Stmt::Res(var("@r")),
        ],
        vec![
            let_("item", rel(uri_lit(&["item"]), vec![xfer(Method::Get, content(obj(vec![prop("next", var("item"))])))])),
            get(content(obj(vec![prop("first", var("item"))]))),
            Stmt::Res(var("item")),
        ],
        vec![
            let_("item", rel(uri_lit(&["item"]), vec![xfer(Method::Get, content(obj(vec![prop("next", var("item"))])))])),
            Stmt::Res(var("item")),
            get(content(obj(vec![prop("first", var("item"))]))),
        ],
        vec![
            let_("node", obj(vec![prop("v", num()), prop("kids", arr(var("node")))])),
            get(content(var("node"))),
            get_at("b", E::Content(vec![(Meta::Headers, var("node"))], Some(Box::new(o.clone())))),
        ],
        // reference names over the whole identifier alphabet ($, -, _, digits)
        vec![
            let_("@$error", obj(vec![prop("code", num())])),
            let_("@x-y_z", arr(var("@$error"))),
            let_("@9", obj(vec![prop("e", var("@$error")), prop("l", var("@x-y_z"))])),
            get(content(var("@9"))),
            get_at("b", op(Op::Range, vec![content(var("@x-y_z")), E::Content(vec![(Meta::Status, status(404))], Some(Box::new(var("@$error"))))])),
        ],
        // a reference to a reference (and a longer chain) where the value is needed
        vec![
            let_("@root", uri_lit(&["api"])),
            let_("@entry", var("@root")),
            let_("@again", var("@entry")),
            Stmt::Res(rel(var("@entry"), vec![xfer(Method::Get, content(obj(vec![prop("self", var("@again"))])))])),
            Stmt::Res(rel(app("concat", vec![var("@again"), uri_lit(&["more"])]), vec![xfer(Method::Get, E::Content(vec![], None))])),
        ],
        vec![
            let_("@tracing", obj(vec![prop("X-Trace", str_())])),
            let_("@common", var("@tracing")),
            let_("@third", var("@common")),
            get(E::Content(vec![(Meta::Headers, var("@common"))], Some(Box::new(o.clone())))),
            get_at("b", E::Content(vec![(Meta::Headers, var("@third"))], Some(Box::new(var("@common"))))),
        ],
        vec![
            let_("node", var("tree")),
            let_("tree", obj(vec![prop("children", arr(var("node")))])),
            get(E::Content(vec![(Meta::Headers, var("node"))], Some(Box::new(var("node"))))),
        ],
        // a path variable whose schema is reached through a reference, an alias, a parameter, a rec
        vec![
            let_("@orderId", E::Prim(Prim::Int)),
            Stmt::Res(rel(E::Uri(vec![Seg::Lit("orders".into()), Seg::Var(Box::new(prop("id", var("@orderId"))))], None), vec![xfer(Method::Get, E::Content(vec![], None))])),
        ],
        vec![
            let_("key", str_()),
            fun("at", &["t"], E::Uri(vec![Seg::Lit("items".into()), Seg::Var(Box::new(prop("id", var("t"))))], None)),
            Stmt::Res(rel(E::Uri(vec![Seg::Lit("a".into()), Seg::Var(Box::new(prop("k", var("key"))))], None), vec![xfer(Method::Get, E::Content(vec![], None))])),
            Stmt::Res(rel(app("at", vec![var("@n")]), vec![xfer(Method::Get, E::Content(vec![], None))])),
            let_("@n", num()),
        ],
        vec![
            Stmt::Res(rel(E::Uri(vec![Seg::Lit("r".into()), Seg::Var(Box::new(prop("id", E::Rec("x".into(), Box::new(E::Prim(Prim::Int))))))], None), vec![xfer(Method::Get, E::Content(vec![], None))])),
        ],
        // ref through a plain alias and through a function
        vec![let_("@a", o.clone()), let_("c", var("@a")), get(content(var("c")))],
        vec![let_("@a", o.clone()), fun("f", &["x"], arr(var("x"))), get(content(app("f", vec![var("@a")])))],
        // ref joined
        vec![let_("@a", o.clone()), let_("@b", op(Op::Join, vec![var("@a"), obj(vec![prop("q", str_())])])), get(content(var("@b")))],
        // ref used as headers, parameters, domain and range
        vec![
            let_("@h", obj(vec![prop("h", str_())])),
            Stmt::Res(rel(
                uri_lit(&["a"]),
                vec![E::Xfer {
                    methods: vec![Method::Put],
                    params: None,
                    domain: Some(Box::new(E::Content(vec![(Meta::Headers, var("@h"))], Some(Box::new(var("@h")))))),
                    range: Box::new(var("@h")),
                }],
            )),
        ],
        // unused ref is not emitted
        vec![let_("@a", o.clone()), let_("@unused", obj(vec![prop("z", str_())])), get(content(var("@a")))],
        // ref with its own description
        vec![let_ann("@a", "description: an a, title: A", o.clone()), get(content(arr(var("@a"))))],
        // per-use `required` / `examples` on a reference used several times
        vec![
            let_("@a", o.clone()),
            get(content(obj(vec![
                prop("first", ann(var("@a"), "required: true")),
                prop("second", var("@a")),
                prop("third", ann(var("@a"), "required: false")),
            ]))),
        ],
        vec![
            let_("@a", o.clone()),
            get(content(obj(vec![prop("plain", var("@a")), prop("marked", ann(var("@a"), "required: true"))]))),
            get_at("b", content(ann(var("@a"), "examples: {e1: u1}"))),
            get_at("c", content(var("@a"))),
        ],
        // two references first registered while evaluating the arguments of one application
        vec![
            let_("@a", o.clone()),
            let_("@b", obj(vec![prop("q", str_())])),
            let_("@c", arr(num())),
            fun("f", &["x", "y", "z"], obj(vec![prop("x", var("x")), prop("y", var("y")), prop("z", var("z"))])),
            get(content(app("f", vec![var("@c"), var("@a"), var("@b")]))),
        ],
        // ref inside rec, rec inside ref
        vec![
            let_("@a", E::Rec("x".into(), Box::new(obj(vec![prop("n", arr(var("x")))])))),
            get(content(var("@a"))),
        ],
        vec![
            let_("@a", o.clone()),
            get(content(E::Rec("x".into(), Box::new(obj(vec![prop("a", var("@a")), prop("n", arr(var("x")))]))))),
        ],
    ];
    for st in sets {
        for p in permutations(&st) {
            programs.push(single(p));
        }
    }
    // the same @name in two modules (unspecified)
    programs.push(Program {
        modules: vec![
            Module {
                name: "main.oal".into(),
                stmts: vec![
                    Stmt::Use("m.oal".into(), Some("m".into())),
                    let_("@a", obj(vec![prop("main", num())])),
                    get(content(obj(vec![prop("x", var("@a")), prop("y", qvar("m", "b"))]))),
                ],
            },
            Module {
                name: "m.oal".into(),
                stmts: vec![let_("@a", obj(vec![prop("other", str_())])), let_("b", arr(var("@a")))],
            },
        ],
    });
    Fragment {
        name: "F7 @references",
        well_kinded: true,
        programs,
    }
}

// --- F8: modules -----------------------------------------------------------------------------------

pub fn f8() -> Fragment {
    let mut programs = Vec::new();
    for q1 in [None, Some("m".to_owned())] {
        for q2 in [None, Some("n".to_owned()), Some("m".to_owned())] {
            let u1 = |x: &str| match &q1 {
                Some(q) => qvar(q, x),
                None => var(x),
            };
            let u2 = |x: &str| match &q2 {
                Some(q) => qvar(q, x),
                None => var(x),
            };
            // main imports m and n; m imports n
            for m_imports_n in [false, true] {
                for order in [false, true] {
                    let mut main = vec![
                        Stmt::Use("m.oal".into(), q1.clone()),
                        Stmt::Use("n.oal".into(), q2.clone()),
                    ];
                    if order {
                        main.reverse();
                    }
                    main.push(let_("loc", obj(vec![prop("l", u1("a")), prop("k", u2("c"))])));
                    main.push(get(content(obj(vec![
                        prop("x", u1("a")),
                        prop("y", u2("c")),
                        prop("z", var("loc")),
                        prop("w", E::App(q1.clone(), "f".into(), vec![u2("c")])),
                    ]))));
                    let mut m = vec![];
                    if m_imports_n {
                        m.push(Stmt::Use("n.oal".into(), Some("nn".into())));
                    }
                    m.push(let_(
                        "a",
                        if m_imports_n {
                            obj(vec![prop("fromn", qvar("nn", "c"))])
                        } else {
                            obj(vec![prop("own", num())])
                        },
                    ));
                    m.push(fun("f", &["x"], obj(vec![prop("arg", var("x")), prop("mine", var("a"))])));
                    let n = vec![let_("c", arr(str_())), let_("hidden", num())];
                    programs.push(Program {
                        modules: vec![
                            Module { name: "main.oal".into(), stmts: main },
                            Module { name: "m.oal".into(), stmts: m },
                            Module { name: "n.oal".into(), stmts: n },
                        ],
                    });
                }
            }
        }
    }
    // same declaration name in main and in a qualified import; a function of the import that
    // uses its own module's declaration of that name
    programs.push(Program {
        modules: vec![
            Module {
                name: "main.oal".into(),
                stmts: vec![
                    Stmt::Use("m.oal".into(), Some("m".into())),
                    let_("a", num()),
                    get(content(obj(vec![
                        prop("mine", var("a")),
                        prop("theirs", qvar("m", "a")),
                        prop("viaf", E::App(Some("m".into()), "f".into(), vec![var("a")])),
                    ]))),
                ],
            },
            Module {
                name: "m.oal".into(),
                stmts: vec![
                    let_("a", str_()),
                    fun("f", &["x"], obj(vec![prop("x", var("x")), prop("a", var("a"))])),
                ],
            },
        ],
    });
    // a function of an imported module whose parameter kinds stay open, used at one kind by a
    // sibling module and at another by main (both orders of main's imports; with and without
    // the sibling's own use)
    for order in [false, true] {
        for sibling_uses in [true, false] {
            let mut main = vec![
                Stmt::Use("a.oal".into(), Some("a".into())),
                Stmt::Use("m.oal".into(), Some("m".into())),
            ];
            if order {
                main.reverse();
            }
            main.push(get(content(obj(vec![
                prop("n", qvar("a", "nums")),
                prop("o", E::App(Some("m".into()), "pair".into(), vec![obj(vec![]), obj(vec![prop("k", str_())])])),
            ]))));
            programs.push(Program {
                modules: vec![
                    Module { name: "main.oal".into(), stmts: main },
                    Module {
                        name: "a.oal".into(),
                        stmts: vec![
                            Stmt::Use("m.oal".into(), Some("m".into())),
                            let_(
                                "nums",
                                if sibling_uses { E::App(Some("m".into()), "pair".into(), vec![num(), num()]) } else { obj(vec![prop("l", num())]) },
                            ),
                        ],
                    },
                    Module {
                        name: "m.oal".into(),
                        stmts: vec![fun("pair", &["a", "b"], obj(vec![prop("l", var("a")), prop("r", var("b"))]))],
                    },
                ],
            });
        }
    }
    // two imports under one qualifier with disjoint names: both stay reachable through it
    for order in [false, true] {
        let mut main = vec![
            Stmt::Use("a.oal".into(), Some("m".into())),
            Stmt::Use("b.oal".into(), Some("m".into())),
        ];
        if order {
            main.reverse();
        }
        main.push(get(content(obj(vec![
            prop("one", qvar("m", "one")),
            prop("two", qvar("m", "two")),
            prop("f", E::App(Some("m".into()), "wrap".into(), vec![qvar("m", "two")])),
        ]))));
        programs.push(Program {
            modules: vec![
                Module { name: "main.oal".into(), stmts: main },
                Module { name: "a.oal".into(), stmts: vec![let_("one", num()), fun("wrap", &["x"], arr(var("x")))] },
                Module { name: "b.oal".into(), stmts: vec![let_("two", str_())] },
            ],
        });
    }
    // resources of an imported module are not part of the program
    programs.push(Program {
        modules: vec![
            Module {
                name: "main.oal".into(),
                stmts: vec![Stmt::Use("m.oal".into(), None), get(content(var("a")))],
            },
            Module {
                name: "m.oal".into(),
                stmts: vec![let_("a", str_()), get_at("ignored", content(num()))],
            },
        ],
    });
    // modules in a sub-directory: imports are relative to the importing module
    programs.push(Program {
        modules: vec![
            Module {
                name: "main.oal".into(),
                stmts: vec![
                    Stmt::Use("lib/api.oal".into(), Some("api".into())),
                    Stmt::Use("types.oal".into(), Some("t".into())),
                    get(content(obj(vec![prop("mine", qvar("t", "item")), prop("theirs", qvar("api", "page"))]))),
                ],
            },
            Module { name: "types.oal".into(), stmts: vec![let_("item", num())] },
            Module {
                name: "lib/api.oal".into(),
                stmts: vec![
                    Stmt::Use("types.oal".into(), Some("t".into())),
                    Stmt::Use("../types.oal".into(), Some("up".into())),
                    let_("page", obj(vec![prop("items", arr(qvar("t", "item"))), prop("count", qvar("up", "item"))])),
                ],
            },
            Module { name: "lib/types.oal".into(), stmts: vec![let_("item", str_())] },
        ],
    });
    // the same file name in two directories: a relative spelling denotes the file next to the
    // importing module, whatever the main module imports under that spelling
    for (inner_path, inner_is_sibling) in [
        ("n.oal", true),
        ("./n.oal", true),
        ("../sub/n.oal", true),
        ("../n.oal", false),
        ("./../n.oal", false),
    ] {
        for inner_q in [Some("n".to_owned()), None] {
            for main_path in ["sub/m.oal", "./sub/m.oal"] {
                for main_n in 0..3 {
                    let mut main = vec![Stmt::Use(main_path.into(), Some("s".into()))];
                    match main_n {
                        1 => main.insert(0, Stmt::Use("n.oal".into(), Some("n".into()))),
                        2 => main.push(Stmt::Use("n.oal".into(), Some("n".into()))),
                        _ => {}
                    }
                    let mut members = vec![prop("nested", qvar("s", "y")), prop("plain", qvar("s", "v"))];
                    if main_n > 0 {
                        members.push(prop("top", qvar("n", "x")));
                    }
                    main.push(get(content(obj(members))));
                    let use_ = |x: &str| match &inner_q {
                        Some(q) => qvar(q, x),
                        None => var(x),
                    };
                    let _ = inner_is_sibling;
                    programs.push(Program {
                        modules: vec![
                            Module { name: "main.oal".into(), stmts: main },
                            Module {
                                name: "sub/m.oal".into(),
                                stmts: vec![
                                    Stmt::Use(inner_path.into(), inner_q.clone()),
                                    let_("y", obj(vec![prop("x", use_("x"))])),
                                    let_("v", use_("w")),
                                ],
                            },
                            Module { name: "n.oal".into(), stmts: vec![let_("x", num()), let_("w", E::Prim(Prim::Bool))] },
                            Module { name: "sub/n.oal".into(), stmts: vec![let_("x", str_()), let_("w", E::Prim(Prim::Int))] },
                        ],
                    });
                }
            }
        }
    }
    // two directories whose modules use the same relative spelling for different files, and a
    // module two levels down that reaches both levels above it
    programs.push(Program {
        modules: vec![
            Module {
                name: "main.oal".into(),
                stmts: vec![
                    Stmt::Use("a/api.oal".into(), Some("a".into())),
                    Stmt::Use("b/api.oal".into(), Some("b".into())),
                    Stmt::Use("a/deep/k.oal".into(), Some("k".into())),
                    get(content(obj(vec![prop("a", qvar("a", "v")), prop("b", qvar("b", "v")), prop("k", qvar("k", "v"))]))),
                ],
            },
            Module { name: "a/api.oal".into(), stmts: vec![Stmt::Use("types.oal".into(), Some("t".into())), let_("v", obj(vec![prop("t", qvar("t", "x"))]))] },
            Module { name: "b/api.oal".into(), stmts: vec![Stmt::Use("types.oal".into(), Some("t".into())), let_("v", obj(vec![prop("t", qvar("t", "x"))]))] },
            Module { name: "a/types.oal".into(), stmts: vec![let_("x", num())] },
            Module { name: "b/types.oal".into(), stmts: vec![let_("x", str_())] },
            Module { name: "types.oal".into(), stmts: vec![let_("x", E::Prim(Prim::Bool))] },
            Module {
                name: "a/deep/k.oal".into(),
                stmts: vec![
                    Stmt::Use("../types.oal".into(), Some("one".into())),
                    Stmt::Use("../../types.oal".into(), Some("two".into())),
                    Stmt::Use("../../b/types.oal".into(), Some("other".into())),
                    let_("v", obj(vec![prop("one", qvar("one", "x")), prop("two", qvar("two", "x")), prop("other", qvar("other", "x"))])),
                ],
            },
        ],
    });
    // a module reachable along two import paths (diamond) and imported under two qualifiers,
    // with uses of its declarations inside it
    programs.push(Program {
        modules: vec![
            Module {
                name: "main.oal".into(),
                stmts: vec![
                    Stmt::Use("mid.oal".into(), Some("mid".into())),
                    Stmt::Use("lib.oal".into(), Some("lib".into())),
                    Stmt::Use("lib.oal".into(), Some("again".into())),
                    get(content(obj(vec![
                        prop("a", qvar("lib", "item")),
                        prop("b", qvar("mid", "wrap")),
                        prop("c", qvar("again", "items")),
                    ]))),
                ],
            },
            Module {
                name: "mid.oal".into(),
                stmts: vec![Stmt::Use("lib.oal".into(), Some("lib".into())), let_("wrap", obj(vec![prop("w", qvar("lib", "item"))]))],
            },
            Module {
                name: "lib.oal".into(),
                stmts: vec![let_("item", obj(vec![prop("id", num())])), let_("items", arr(var("item"))), let_("pair", obj(vec![prop("l", var("item")), prop("r", var("items"))]))],
            },
        ],
    });
    // @references of a module imported with a qualifier: used through the qualifier (accepted),
    // without it and through a wrong one (no binder)
    for (q_use, _ok) in [(Some("m"), true), (None, false), (Some("zz"), false)] {
        let r = |n: &str| match q_use {
            Some(q) => qvar(q, n),
            None => var(n),
        };
        programs.push(Program {
            modules: vec![
                Module {
                    name: "main.oal".into(),
                    stmts: vec![
                        Stmt::Use("m.oal".into(), Some("m".into())),
                        get(content(obj(vec![prop("u", r("@user")), prop("p", app_q("m", "page", vec![r("@user")]))]))),
                    ],
                },
                Module {
                    name: "m.oal".into(),
                    stmts: vec![let_("@user", obj(vec![prop("name", str_())])), fun("page", &["item"], obj(vec![prop("items", arr(var("item")))]))],
                },
            ],
        });
    }
    // the built-in function used in two modules
    programs.push(Program {
        modules: vec![
            Module {
                name: "main.oal".into(),
                stmts: vec![
                    Stmt::Use("lib.oal".into(), Some("l".into())),
                    Stmt::Res(rel(app("concat", vec![qvar("l", "base"), uri_lit(&["items"])]), vec![xfer(Method::Get, content(obj(vec![prop("up", qvar("l", "more"))])))])),
                    Stmt::Res(rel(app("concat", vec![qvar("l", "more"), uri_lit(&["x"])]), vec![xfer(Method::Get, E::Content(vec![], None))])),
                ],
            },
            Module {
                name: "lib.oal".into(),
                stmts: vec![let_("base", uri_lit(&["api"])), let_("more", app("concat", vec![var("base"), uri_lit(&["more"])]))],
            },
        ],
    });
    // relative spellings of the same module
    for sp in ["m.oal", "./m.oal", "d/../m.oal"] {
        programs.push(Program {
            modules: vec![
                Module {
                    name: "main.oal".into(),
                    stmts: vec![Stmt::Use(sp.into(), Some("m".into())), get(content(qvar("m", "a")))],
                },
                Module {
                    name: "m.oal".into(),
                    stmts: vec![let_("a", obj(vec![prop("p", str_())]))],
                },
            ],
        });
    }
    Fragment {
        name: "F8 modules",
        well_kinded: true,
        programs,
    }
}

// --- F9: annotations ----------------------------------------------------------------------------------

pub fn f9() -> Fragment {
    let mut programs = Vec::new();
    let descs = ["description: d1", "title: t1", "description: d1, title: t1", "required: true", "required: false",
                 "examples: {e1: u1, e2: u2, e0: u0}", "description: \"a: b\"", "description: 'null'"];
    // on every schema form, inline and line, and through a declaration / use site / argument
    let schemas: Vec<E> = vec![
        num(), str_(), E::Prim(Prim::Bool), E::Prim(Prim::Int), E::Prim(Prim::Uri), obj(vec![prop("p", num())]),
        arr(str_()), op(Op::Any, vec![num(), str_()]), op(Op::Sum, vec![num(), str_()]),
        op(Op::Join, vec![obj(vec![]), obj(vec![prop("p", num())])]), uri_lit(&["a"]),
    ];
    for s in schemas.iter() {
        for a in descs.iter() {
            let term = if is_term(s) { s.clone() } else { E::Paren(Box::new(s.clone())) };
            programs.push(single(vec![get(content(ann(term.clone(), a)))]));
            programs.push(single(vec![get(content(lann(term.clone(), a)))]));
            programs.push(single(vec![get(content(obj(vec![prop("k", ann(term.clone(), a))])))]));
            programs.push(single(vec![let_ann("v", a, s.clone()), get(content(obj(vec![prop("k", var("v"))])))]));
            programs.push(single(vec![let_("v", s.clone()), get(content(obj(vec![prop("k", ann(var("v"), a))])))]));
            programs.push(single(vec![
                fun("f", &["x"], obj(vec![prop("k", var("x"))])),
                get(content(app("f", vec![ann(term.clone(), a)]))),
            ]));
            programs.push(single(vec![
                fun("f", &["x"], obj(vec![prop("k", ann(var("x"), a))])),
                get(content(app("f", vec![term.clone()]))),
            ]));
            // bare schema as a range / domain: its description becomes the content's
            programs.push(single(vec![get(ann(term.clone(), a))]));
        }
    }
    // primitive constraints
    let prim_anns: Vec<(E, Vec<&str>)> = vec![
        (num(), vec!["minimum: 0", "maximum: 99.5", "multipleOf: 0.5", "example: 42", "minimum: 1, maximum: 2, example: 1.5", "minimum: text", "pattern: x"]),
        (E::Prim(Prim::Int), vec!["minimum: 0", "maximum: 999", "multipleOf: 3", "example: 7", "minimum: 1.5", "example: 18446744073709551615"]),
        (str_(), vec!["pattern: \"^[a-z]+$\"", "enum: [a, b]", "enum: [a, 1, b]", "format: email", "example: sarah", "minLength: 1, maxLength: 9", "enum: [x], example: y", "minLength: -1", "minimum: 3"]),
        (E::Prim(Prim::Bool), vec!["example: true", "minimum: 0"]),
        (E::Prim(Prim::Uri), vec!["example: /x", "example: 3"]),
    ];
    for (p, anns) in prim_anns.iter() {
        for a in anns {
            programs.push(single(vec![get(content(ann(p.clone(), a)))]));
            programs.push(single(vec![let_ann("v", a, p.clone()), get(content(obj(vec![prop("k", var("v"))])))]));
            programs.push(single(vec![Stmt::Res(rel(
                E::Uri(vec![Seg::Lit("a".into()), Seg::Var(Box::new(prop("id", ann(p.clone(), a))))], None),
                vec![xfer(Method::Get, E::Content(vec![], None))],
            ))]));
        }
    }
    // properties: description / required by annotation, in objects, parameters, headers, path
    for a in ["description: dp", "required: true", "required: false", "description: dp, required: true"] {
        let p = ann(E::Paren(Box::new(prop("k", num()))), a);
        programs.push(single(vec![get(content(obj(vec![p.clone(), prop("j", str_())])))]));
        programs.push(single(vec![let_ann("pr", a, prop("k", num())), get(content(obj(vec![var("pr")])))]));
        programs.push(single(vec![Stmt::Res(rel(
            E::Uri(vec![Seg::Lit("a".into()), Seg::Var(Box::new(p.clone()))], Some(vec![p.clone()])),
            vec![E::Xfer {
                methods: vec![Method::Get],
                params: Some(vec![p.clone()]),
                domain: Some(Box::new(E::Content(vec![(Meta::Headers, obj(vec![p.clone()]))], None))),
                range: Box::new(E::Content(vec![(Meta::Headers, obj(vec![p.clone()]))], None)),
            }],
        ))]));
    }
    // property whose schema carries `required`
    programs.push(single(vec![get(content(obj(vec![
        prop("a", ann(num(), "required: true")),
        prop("b", ann(num(), "required: false")),
        markp("c", false, ann(num(), "required: true")),
        markp("d", true, ann(num(), "required: false")),
    ])))]));
    // `required` given by the schema, the mark and the property annotation, in every position
    // that reads it (object member, query, transfer parameter, request and response header)
    for sa in [None, Some("required: true"), Some("required: false")] {
        for mark in [None, Some(true), Some(false)] {
            for pa in [None, Some("required: true"), Some("required: false")] {
                for declared in [false, true] {
                    let leaf = |n: E| match sa {
                        Some(a) => ann(n, a),
                        None => n,
                    };
                    let (mut st, schema) = if declared {
                        (vec![match sa {
                            Some(a) => let_ann("tok", a, str_()),
                            None => let_("tok", str_()),
                        }], var("tok"))
                    } else {
                        (vec![], leaf(str_()))
                    };
                    let base = match mark {
                        Some(m) => markp("k", m, schema.clone()),
                        None => prop("k", schema.clone()),
                    };
                    let p = match pa {
                        Some(a) => ann(E::Paren(Box::new(base)), a),
                        None => base,
                    };
                    st.push(Stmt::Res(rel(
                        E::Uri(vec![Seg::Lit("a".into())], Some(vec![p.clone()])),
                        vec![E::Xfer {
                            methods: vec![Method::Post],
                            params: Some(vec![prop("z", num()), p.clone()]),
                            domain: Some(Box::new(E::Content(vec![(Meta::Headers, obj(vec![p.clone()]))], Some(Box::new(obj(vec![p.clone()])))))),
                            range: Box::new(E::Content(vec![(Meta::Headers, obj(vec![p.clone()]))], Some(Box::new(obj(vec![p.clone(), prop("o", num())]))))),
                        }],
                    )));
                    programs.push(single(st));
                }
            }
        }
    }
    // an alias declaration (its right-hand side is just a variable) that carries annotations
    for a in ["title: First item", "description: d1", "description: d1, title: t1", "examples: {e1: u1, e2: u2}"] {
        let item = let_("item", obj(vec![prop("p", num())]));
        programs.push(single(vec![item.clone(), let_("first", ann(var("item"), a)), get(content(var("first")))]));
        programs.push(single(vec![item.clone(), let_ann("first", a, var("item")), get(content(obj(vec![prop("f", var("first")), prop("i", var("item"))])))]));
        programs.push(single(vec![item, let_("first", ann(var("item"), a)), let_("second", var("first")), get(content(var("second")))]));
    }
    // contents: description, examples
    for a in ["description: dc", "examples: {e1: u1, e2: u2}", "description: dc, examples: {e: u}"] {
        let c = content(obj(vec![prop("p", num())]));
        programs.push(single(vec![get(ann(c.clone(), a))]));
        programs.push(single(vec![let_ann("c", a, c.clone()), get(var("c"))]));
        programs.push(single(vec![let_("c", c.clone()), get(ann(var("c"), a))]));
        programs.push(single(vec![Stmt::Res(rel(
            uri_lit(&["a"]),
            vec![E::Xfer {
                methods: vec![Method::Put],
                params: None,
                domain: Some(Box::new(ann(c.clone(), a))),
                range: Box::new(op(Op::Range, vec![
                    ann(E::Content(vec![(Meta::Status, status(200))], Some(Box::new(num()))), a),
                    ann(E::Content(vec![(Meta::Status, status(404))], None), "description: gone"),
                ])),
            }],
        ))]));
        // schema examples fall back to the content
        programs.push(single(vec![get(content(ann(E::Paren(Box::new(obj(vec![prop("p", num())]))), a)))]));
        // ... of a request too: the domain is a bare reference, a content holding it, an
        // annotated schema in place; the same schema answers in a response of the operation
        {
            let pet = let_ann("@pet", a, obj(vec![prop("p", num())]));
            let x = |m: Method, d: E, r: E| E::Xfer { methods: vec![m], params: None, domain: Some(Box::new(d)), range: Box::new(r) };
            programs.push(single(vec![
                pet.clone(),
                Stmt::Res(rel(
                    uri_lit(&["pets"]),
                    vec![
                        x(Method::Post, var("@pet"), E::Content(vec![(Meta::Status, status(201))], Some(Box::new(var("@pet"))))),
                        x(Method::Put, content(var("@pet")), E::Content(vec![], None)),
                        x(Method::Patch, ann(E::Paren(Box::new(obj(vec![prop("q", str_())]))), a), E::Content(vec![], None)),
                    ],
                )),
            ]));
        }
    }
    // transfers: description summary tags operationId
    for a in [
        "description: dx", "summary: sx", "tags: [t1, t2]", "operationId: myop",
        "description: dx, summary: sx, tags: [t1], operationId: op2", "tags: [t1, 2, t3]", "summary: 3",
    ] {
        let x = xfer(Method::Get, E::Content(vec![], None));
        programs.push(single(vec![let_ann("x", a, x.clone()), Stmt::Res(rel(uri_lit(&["a"]), vec![var("x")]))]));
        programs.push(single(vec![let_("x", x.clone()), Stmt::Res(rel(uri_lit(&["a"]), vec![ann(var("x"), a)]))]));
        programs.push(single(vec![Stmt::Res(rel(uri_lit(&["a"]), vec![ann(E::Paren(Box::new(x.clone())), a)]))]));
        let x2 = E::Xfer { methods: vec![Method::Get, Method::Put], params: None, domain: None, range: Box::new(E::Content(vec![], None)) };
        programs.push(single(vec![Stmt::Res(rel(uri_lit(&["a"]), vec![ann(E::Paren(Box::new(x2)), a)]))]));
    }
    // the same annotations on a relation: they are the relation's own and none of them is
    // handed to its operations
    for a in ["description: dx", "operationId: items", "description: dx, summary: sx, tags: [t1], operationId: op2"] {
        let ops = || {
            vec![
                xfer(Method::Get, E::Content(vec![], None)),
                ann(E::Paren(Box::new(xfer(Method::Put, content(num())))), "operationId: own"),
                xfer(Method::Delete, E::Content(vec![], None)),
            ]
        };
        programs.push(single(vec![let_ann("r", a, rel(uri_lit(&["a"]), ops())), Stmt::Res(var("r"))]));
        programs.push(single(vec![let_("r", rel(uri_lit(&["a"]), ops())), Stmt::Res(ann(var("r"), a))]));
        programs.push(single(vec![Stmt::Res(ann(E::Paren(Box::new(rel(uri_lit(&["a"]), ops()))), a))]));
    }
    // annotations do not leak through constructors
    programs.push(single(vec![get(content(ann(
        E::Paren(Box::new(obj(vec![prop("p", arr(obj(vec![prop("q", num())])))]))),
        "description: outer, title: T",
    )))]));
    programs.push(single(vec![get(ann(content(arr(num())), "description: only the content"))]));
    // merged annotations: several lines, line + inline, declaration + different key at use
    programs.push(single(vec![get(content(E::Ann(
        vec!["description: l1".into(), "title: l2".into()],
        Box::new(num()),
        Some("minimum: 1".into()),
    )))]));
    programs.push(single(vec![get(content(E::Ann(
        vec!["description: l1".into(), "description: l2".into()],
        Box::new(num()),
        Some("description: l3".into()),
    )))]));
    programs.push(single(vec![
        let_ann("v", "description: dv", num()),
        get(content(obj(vec![prop("k", ann(var("v"), "title: tu"))]))),
    ]));
    programs.push(single(vec![
        Stmt::Let { anns: vec!["description: df".into()], name: "f".into(), params: vec!["x".into()], body: arr(var("x")) },
        get(content(obj(vec![prop("k", ann(E::Paren(Box::new(app("f", vec![num()]))), "title: tu"))]))),
    ]));
    programs.push(single(vec![
        let_("v", ann(num(), "description: inner")),
        get(content(obj(vec![prop("k", ann(var("v"), "description: outer"))]))),
    ]));
    programs.push(single(vec![
        fun("f", &["x"], obj(vec![prop("k", ann(var("x"), "description: at use"))])),
        get(content(app("f", vec![ann(num(), "description: at arg, title: targ")]))),
    ]));
    // the same key at a declaration and at its use: the use site wins (scalars), sequences
    // are concatenated declaration first, maps merge
    programs.push(single(vec![
        let_ann("v", "description: at decl, title: T", num()),
        get(content(obj(vec![prop("k", ann(var("v"), "description: at use"))]))),
    ]));
    programs.push(single(vec![
        Stmt::Let { anns: vec!["description: generic, title: G".into()], name: "f".into(), params: vec!["x".into()], body: obj(vec![prop("k", var("x"))]) },
        get(content(obj(vec![prop("j", ann(E::Paren(Box::new(app("f", vec![num()]))), "description: specific"))]))),
        let_ann("@e", "description: specific component", app("f", vec![str_()])),
        get_at("b", content(var("@e"))),
    ]));
    programs.push(single(vec![
        Stmt::Let { anns: vec!["tags: [generic], summary: sg".into()], name: "rd".into(), params: vec!["s".into()], body: xfer(Method::Get, content(var("s"))) },
        let_ann("x", "tags: [specific], summary: ss", app("rd", vec![num()])),
        Stmt::Res(rel(uri_lit(&["a"]), vec![var("x")])),
        Stmt::Res(rel(uri_lit(&["b"]), vec![ann(E::Paren(Box::new(app("rd", vec![str_()]))), "tags: [inline]")])),
    ]));
    programs.push(single(vec![
        let_ann("c", "examples: {a: u1, b: u2}, description: dc", content(num())),
        get(ann(var("c"), "examples: {b: u3, c: u4}, description: du")),
    ]));
    // tags merge by concatenation, maps deep-merge
    programs.push(single(vec![
        let_("x", ann(E::Paren(Box::new(xfer(Method::Get, E::Content(vec![], None)))), "tags: [a]")),
        Stmt::Res(rel(uri_lit(&["a"]), vec![ann(var("x"), "tags: [b]")])),
    ]));
    programs.push(single(vec![
        let_("c", ann(content(num()), "examples: {a: u1}")),
        get(ann(var("c"), "examples: {b: u2}")),
    ]));
    Fragment {
        name: "F9 annotations",
        well_kinded: true,
        programs,
    }
}

// --- F10: collisions named by the property texts --------------------------------------------------------

pub fn f10() -> Fragment {
    let mut programs = Vec::new();
    let c = |media: Option<&str>, status: Option<u64>, body: E| {
        let mut m = vec![];
        if let Some(s) = status {
            m.push((Meta::Status, E::Num(s)));
        }
        if let Some(md) = media {
            m.push((Meta::Media, text(md)));
        }
        E::Content(m, Some(Box::new(body)))
    };
    // two status-less contents with different media types
    programs.push(single(vec![get(op(Op::Range, vec![c(Some("a/b"), None, str_()), c(Some("c/d"), None, num())]))]));
    programs.push(single(vec![get(op(Op::Range, vec![c(Some("a/b"), None, str_()), c(None, None, num())]))]));
    programs.push(single(vec![get(op(Op::Range, vec![c(Some("a/b"), None, str_()), c(Some("c/d"), None, num()), c(Some("e/f"), None, obj(vec![]))]))]));
    // two contents with the same status and different media types
    programs.push(single(vec![get(op(Op::Range, vec![c(Some("a/b"), Some(200), str_()), c(Some("c/d"), Some(200), num())]))]));
    programs.push(single(vec![get(op(Op::Range, vec![c(Some("a/b"), Some(200), str_()), c(None, None, num()), c(Some("c/d"), Some(200), num()), c(Some("x/y"), None, num())]))]));
    // the same path in two resources (unspecified) and near-colliding paths / operation ids
    programs.push(single(vec![get_at("a", content(str_())), Stmt::Res(rel(uri_lit(&["a"]), vec![xfer(Method::Put, content(num()))]))]));
    // ... with a variable in the path
    {
        let item = || E::Uri(vec![Seg::Lit("items".into()), Seg::Var(Box::new(prop("id", str_())))], None);
        programs.push(single(vec![
            Stmt::Res(rel(item(), vec![xfer(Method::Get, content(str_()))])),
            Stmt::Res(rel(item(), vec![xfer(Method::Put, content(num()))])),
        ]));
        programs.push(single(vec![
            let_("it", item()),
            Stmt::Res(rel(var("it"), vec![xfer(Method::Get, content(str_()))])),
            Stmt::Res(rel(var("it"), vec![xfer(Method::Delete, E::Content(vec![], None))])),
        ]));
    }
    let ok = xfer(Method::Get, E::Content(vec![], None));
    programs.push(single(vec![
        Stmt::Res(rel(E::Uri(vec![Seg::Lit("a".into()), Seg::Var(Box::new(prop("b", num())))], None), vec![ok.clone()])),
        Stmt::Res(rel(uri_lit(&["a", "b"]), vec![ok.clone()])),
    ]));
    programs.push(single(vec![
        Stmt::Res(rel(uri_lit(&["a", "b"]), vec![ok.clone()])),
        Stmt::Res(rel(uri_lit(&["a-b"]), vec![ok.clone()])),
    ]));
    programs.push(single(vec![
        Stmt::Res(rel(uri_lit(&["A"]), vec![ok.clone()])),
        Stmt::Res(rel(uri_lit(&["a"]), vec![ok.clone()])),
    ]));
    programs.push(single(vec![
        Stmt::Res(rel(uri_lit(&["root"]), vec![ok.clone()])),
        Stmt::Res(rel(uri_lit(&[""]), vec![ok.clone()])),
    ]));
    // operations of one method on long paths that share their first 64 (and 128) characters:
    // the synthesized operation ids stay distinct
    {
        let v = |n: &str| Seg::Var(Box::new(prop(n, str_())));
        let l = |n: &str| Seg::Lit(n.into());
        let base = || vec![l("organizations"), v("organization"), l("projects"), v("project"), l("environments"), v("environment"), l("deployments")];
        let ok = || xfer(Method::Get, E::Content(vec![], None));
        let mut p1 = base();
        p1.push(v("deployment"));
        let mut p2 = p1.clone();
        p2.push(l("logs"));
        let mut p3 = p2.clone();
        p3.extend([l("a-very-long-literal-segment-that-pushes-the-label-well-beyond-one-hundred-and-twenty-eight-characters"), v("line")]);
        let mut p4 = p3.clone();
        p4.push(l("raw"));
        programs.push(single(vec![
            Stmt::Res(rel(E::Uri(base(), None), vec![ok()])),
            Stmt::Res(rel(E::Uri(p1, None), vec![ok()])),
            Stmt::Res(rel(E::Uri(p2, None), vec![ok()])),
            Stmt::Res(rel(E::Uri(p3, None), vec![ok()])),
            Stmt::Res(rel(E::Uri(p4, None), vec![ok()])),
        ]));
    }
    // sums, joins and untyped alternatives of three and four operands whose kinds clash in
    // every position (first, middle, last), written in place and through parameters
    {
        let o = || obj(vec![prop("p", E::Prim(Prim::Bool))]);
        let lists: Vec<Vec<E>> = vec![
            vec![num(), str_(), obj(vec![])],
            vec![obj(vec![]), num(), str_()],
            vec![num(), obj(vec![]), str_()],
            vec![num(), str_(), obj(vec![]), o()],
            vec![num(), str_(), E::Prim(Prim::Bool), arr(num())],
            vec![num(), str_(), E::Prim(Prim::Bool)],
            vec![obj(vec![]), o(), uri_lit(&["a"])],
        ];
        for l in lists.iter() {
            for k in [Op::Sum, Op::Any, Op::Join] {
                programs.push(single(vec![get(content(op(k, l.clone())))]));
            }
        }
        programs.push(single(vec![
            fun("f", &["x", "y", "z"], obj(vec![prop("v", op(Op::Sum, vec![var("x"), var("y"), var("z")]))])),
            get(content(app("f", vec![num(), str_(), obj(vec![])]))),
        ]));
        programs.push(single(vec![
            fun("f", &["x", "y", "z"], obj(vec![prop("v", op(Op::Sum, vec![var("x"), var("y"), var("z")]))])),
            get(content(app("f", vec![num(), str_(), E::Prim(Prim::Bool)]))),
        ]));
    }
    // percent escapes in literal segments stay what they are (an escaped brace is no variable,
    // an escaped slash no separator)
    programs.push(single(vec![
        Stmt::Res(rel(uri_lit(&["docs", "placeholders", "%7Bname%7D"]), vec![xfer(Method::Get, E::Content(vec![], None))])),
        Stmt::Res(rel(uri_lit(&["a%2Fb", "caf%C3%A9"]), vec![xfer(Method::Get, E::Content(vec![], None))])),
    ]));
    programs.push(single(vec![
        Stmt::Res(rel(uri_lit(&["docs", "%7Bname%7D"]), vec![xfer(Method::Get, E::Content(vec![], None))])),
        Stmt::Res(rel(
            E::Uri(vec![Seg::Lit("docs".into()), Seg::Var(Box::new(prop("name", str_())))], None),
            vec![xfer(Method::Put, E::Content(vec![], None))],
        )),
    ]));
    // two name errors in one program: a declaration written twice and a use of an undefined
    // name (which one is reported must not depend on the order of the statements)
    programs.push(single(vec![
        let_("a", obj(vec![prop("p", var("missing"))])),
        let_("c", obj(vec![])),
        let_("c", arr(num())),
    ]));
    programs.push(single(vec![
        let_("c", obj(vec![])),
        get(content(var("missing"))),
        let_("c", arr(num())),
    ]));
    // the same tag written twice in one content (the later one is the one evaluated): valid and
    // ill-kinded values in either place
    {
        let body = obj(vec![prop("id", num())]);
        let stat = [E::Num(201), E::Str("created".into()), num()];
        for a in stat.iter() {
            for b in stat.iter() {
                programs.push(single(vec![get(E::Content(vec![(Meta::Status, a.clone()), (Meta::Status, b.clone())], Some(Box::new(body.clone()))))]));
            }
        }
        let med = [text("a/b"), E::Num(5), num()];
        for a in med.iter() {
            for b in med.iter() {
                programs.push(single(vec![get(E::Content(vec![(Meta::Media, a.clone()), (Meta::Media, b.clone())], Some(Box::new(body.clone()))))]));
            }
        }
        let hd = [obj(vec![prop("H", str_())]), E::Num(5), text("x")];
        for a in hd.iter() {
            for b in hd.iter() {
                programs.push(single(vec![get(E::Content(vec![(Meta::Headers, a.clone()), (Meta::Headers, b.clone())], Some(Box::new(body.clone()))))]));
            }
        }
        // through a parameter
        programs.push(single(vec![
            fun("reply", &["code", "b"], E::Content(vec![(Meta::Status, E::Num(200)), (Meta::Status, var("code"))], Some(Box::new(var("b"))))),
            get(app("reply", vec![obj(vec![prop("oops", E::Prim(Prim::Bool))]), arr(str_())])),
        ]));
    }
    // path segments and variable names that differ only by punctuation of the identifier / path
    // alphabet get different operation ids
    for (a, b) in [("v1.0", "v1-0"), ("a_b", "a-b"), ("a~b", "a-b"), ("x.y", "x_y")] {
        programs.push(single(vec![
            Stmt::Res(rel(uri_lit(&[a, "reports"]), vec![ok.clone()])),
            Stmt::Res(rel(uri_lit(&[b, "reports"]), vec![ok.clone()])),
        ]));
    }
    for (a, b) in [("user_id", "user-id"), ("id$", "id-"), ("k_1", "k-1")] {
        programs.push(single(vec![
            Stmt::Res(rel(E::Uri(vec![Seg::Lit("users".into()), Seg::Var(Box::new(prop(a, num()))), Seg::Lit("keys".into())], None), vec![ok.clone()])),
            Stmt::Res(rel(E::Uri(vec![Seg::Lit("users".into()), Seg::Var(Box::new(prop(b, num()))), Seg::Lit("keys".into()), Seg::Lit("all".into())], None), vec![ok.clone()])),
            Stmt::Res(rel(E::Uri(vec![Seg::Lit("people".into()), Seg::Var(Box::new(prop(b, num()))), Seg::Lit("keys".into())], None), vec![ok.clone()])),
        ]));
    }
    // templated paths that differ only by the name of a variable are different paths, each with
    // its own parameter
    for (m1, m2) in [(Method::Get, Method::Get), (Method::Get, Method::Put)] {
        programs.push(single(vec![
            Stmt::Res(rel(E::Uri(vec![Seg::Lit("users".into()), Seg::Var(Box::new(prop("id", E::Prim(Prim::Int))))], None), vec![xfer(m1, E::Content(vec![], None))])),
            Stmt::Res(rel(E::Uri(vec![Seg::Lit("users".into()), Seg::Var(Box::new(prop("login", str_())))], None), vec![xfer(m2, content(num()))])),
        ]));
    }
    // a declaration named like the built-in function: the declaration comes first in the
    // lookup order (reporting it as a duplicate of the built-in is tolerated)
    programs.push(single(vec![
        fun("concat", &["a", "b"], var("b")),
        Stmt::Res(rel(app("concat", vec![uri_lit(&["left"]), uri_lit(&["right"])]), vec![xfer(Method::Get, E::Content(vec![], None))])),
    ]));
    programs.push(single(vec![
        Stmt::Res(rel(app("concat", vec![uri_lit(&["left"]), uri_lit(&["right"])]), vec![xfer(Method::Get, E::Content(vec![], None))])),
        fun("concat", &["a", "b"], var("a")),
    ]));
    // paths that differ only by a trailing slash are different resources with different ids
    programs.push(single(vec![
        Stmt::Res(rel(uri_lit(&["a"]), vec![ok.clone()])),
        Stmt::Res(rel(uri_lit(&["a", ""]), vec![ok.clone()])),
    ]));
    programs.push(single(vec![
        Stmt::Res(rel(E::Uri(vec![Seg::Lit("a".into()), Seg::Var(Box::new(prop("id", num())))], None), vec![ok.clone()])),
        Stmt::Res(rel(E::Uri(vec![Seg::Lit("a".into()), Seg::Var(Box::new(prop("id", num()))), Seg::Root], None), vec![ok.clone()])),
        Stmt::Res(rel(uri_lit(&["a", "", "b"]), vec![ok.clone()])),
    ]));
    // several resources keep their order
    for p in permutations(&[get_at("b", content(num())), get_at("a", content(str_())), get_at("c", E::Content(vec![], None))]) {
        programs.push(single(p));
    }
    // header and property names that need YAML quoting
    for n in ["123", "null", "true", "$ref", "y", "a-b"] {
        programs.push(single(vec![get(E::Content(
            vec![(Meta::Headers, obj(vec![prop(n, str_())]))],
            Some(Box::new(obj(vec![prop(n, num()), markp("other", true, str_())]))),
        ))]));
    }
    for s in ["true", "null", "~", "1e3", "0x1", "", " x", "#x", "- a", "y", "é😉"] {
        programs.push(single(vec![get(ann(
            E::Content(vec![(Meta::Media, text(s))], Some(Box::new(ann(str_(), &format!("pattern: \"{s}\", enum: [\"{s}\"]"))))),
            &format!("description: \"{s}\""),
        ))]));
    }
    // statuses at the borders
    for s in [100u64, 599, 200] {
        programs.push(single(vec![get(E::Content(vec![(Meta::Status, E::Num(s))], None))]));
    }
    for s in [99u64, 600, 0, 65636, 18446744073709551615] {
        programs.push(single(vec![get(E::Content(vec![(Meta::Status, E::Num(s))], None))]));
    }
    for s in 1u8..=5 {
        programs.push(single(vec![get(E::Content(vec![(Meta::Status, E::StatusRange(s))], Some(Box::new(num()))))]));
    }
    // status given through a variable and a function
    programs.push(single(vec![
        let_("ok", E::Num(200)),
        let_("bad", E::StatusRange(4)),
        fun("st", &["s", "b"], E::Content(vec![(Meta::Status, var("s"))], Some(Box::new(var("b"))))),
        get(op(Op::Range, vec![app("st", vec![var("ok"), num()]), app("st", vec![var("bad"), str_()])])),
    ]));
    Fragment {
        name: "F10 collisions",
        well_kinded: false,
        programs,
    }
}

pub const NAMES: [&str; 11] = [
    "F1 schema algebra",
    "F2 contents and ranges",
    "F3 transfers and relations",
    "F4 URI templates and concat",
    "F5 declarations, functions, scoping",
    "F6 recursion",
    "F7 @references",
    "F8 modules",
    "F9 annotations",
    "F10 collisions",
    "F11 recursion terms",
];

/// Fragments whose next bound is explored by the thorough tier.
pub const HAS_NEXT_BOUND: [usize; 6] = [0, 1, 2, 3, 5, 10];

pub fn fragment(i: usize, thorough: bool) -> Fragment {
    match i {
        0 => f1(if thorough { 2 } else { 1 }),
        1 => f2(if thorough { 3 } else { 2 }, thorough),
        2 => f3(thorough),
        3 => f4(if thorough { 3 } else { 2 }),
        4 => f5(),
        5 => f6(if thorough { 3 } else { 2 }, thorough),
        6 => f7(),
        7 => f8(),
        8 => f9(),
        9 => f10(),
        _ => f11(if thorough { 5 } else { 4 }),
    }
}
