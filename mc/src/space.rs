//! Bounded-exhaustive program spaces shared by the program-level engines.
//!
//! * kind-agnostic: every expression tree with <= k constructors over the full constructor
//!   set, placed in every one-hole context; the compiler decides what is accepted;
//! * two-module variant: function bodies in an imported module, arguments in `main`;
//! * annotation matrix: every key the evaluator reads x value shape x position.

use crate::gen::*;

/// Leaves of the kind-agnostic expressions. `a` is the declaration under construction in
/// the contexts that declare one (self reference), `v` an object declared by every
/// context, `x` the parameter / rec binder of the contexts that bind one.
pub fn leaves() -> Vec<E> {
    vec![
        E::Prim(Prim::Num),
        E::Prim(Prim::Str),
        E::Prim(Prim::Uri),
        E::Str("s".into()),
        E::Num(200),
        E::StatusRange(4),
        var("v"),
        var("x"),
        var("a"),
        E::Obj(vec![]),
        E::Content(vec![], None),
        E::Uri(vec![Seg::Root], None),
        E::Uri(vec![Seg::Lit("a".into())], None),
    ]
}

fn unary(e: &E) -> Vec<E> {
    let b = || Box::new(e.clone());
    vec![
        E::Arr(b()),
        E::Prop("p".into(), None, b()),
        E::Mark(b(), true),
        E::Paren(b()),
        E::Rec("x".into(), b()),
        E::Obj(vec![e.clone()]),
        E::Content(vec![], Some(b())),
        E::Content(vec![(Meta::Status, e.clone())], None),
        E::Content(vec![(Meta::Media, e.clone())], Some(Box::new(E::Prim(Prim::Str)))),
        E::Content(vec![(Meta::Headers, e.clone())], Some(Box::new(E::Prim(Prim::Str)))),
        E::Uri(vec![Seg::Lit("a".into()), Seg::Var(b())], None),
        E::Uri(vec![Seg::Lit("a".into())], Some(vec![e.clone()])),
        E::Xfer {
            methods: vec![Method::Get],
            params: None,
            domain: None,
            range: b(),
        },
        E::Xfer {
            methods: vec![Method::Put],
            params: None,
            domain: Some(b()),
            range: Box::new(E::Content(vec![], None)),
        },
        E::Xfer {
            methods: vec![Method::Get],
            params: Some(vec![e.clone()]),
            domain: None,
            range: Box::new(E::Content(vec![], None)),
        },
        E::Rel(
            b(),
            vec![xfer(Method::Get, E::Content(vec![], None))],
        ),
        E::Rel(Box::new(uri_lit(&["b"])), vec![e.clone()]),
        E::App(None, "f".into(), vec![e.clone()]),
        E::Ann(vec![], b(), Some("description: d, required: true".into())),
    ]
}

fn binary(l: &E, r: &E) -> Vec<E> {
    vec![
        E::Op(Op::Join, vec![l.clone(), r.clone()]),
        E::Op(Op::Sum, vec![l.clone(), r.clone()]),
        E::Op(Op::Any, vec![l.clone(), r.clone()]),
        E::Op(Op::Range, vec![l.clone(), r.clone()]),
        E::Obj(vec![l.clone(), r.clone()]),
        E::App(None, "concat".into(), vec![l.clone(), r.clone()]),
        E::Rel(Box::new(l.clone()), vec![r.clone()]),
    ]
}

/// `out[k]` = all expressions with exactly `k` constructors (out[0] is empty).
pub fn agnostic_exprs(max: usize) -> Vec<Vec<E>> {
    let mut out: Vec<Vec<E>> = vec![vec![], leaves()];
    for k in 2..=max {
        let mut v = Vec::new();
        for e in out[k - 1].iter() {
            v.extend(unary(e));
        }
        for i in 1..=(k.saturating_sub(2)) {
            let j = k - 1 - i;
            if j == 0 {
                continue;
            }
            for l in out[i].iter() {
                for r in out[j].iter() {
                    v.extend(binary(l, r));
                }
            }
        }
        out.push(v);
    }
    out
}

fn res_get(range: E) -> Stmt {
    Stmt::Res(rel(uri_lit(&[""]), vec![xfer(Method::Get, range)]))
}

fn prelude() -> Vec<Stmt> {
    vec![
        let_("v", obj(vec![prop("q", E::Prim(Prim::Str))])),
        fun("f", &["y"], arr(var("y"))),
    ]
}

pub const N_CONTEXTS: usize = 28;

/// The `c`-th one-hole context around `e` (single module unless stated).
pub fn context(c: usize, e: &E) -> Program {
    let h = || e.clone();
    let mut st = prelude();
    let mut extra_module: Option<Module> = None;
    match c {
        0 => st.push(res_get(h())),
        1 => st.push(Stmt::Res(rel(
            uri_lit(&[""]),
            vec![E::Xfer {
                methods: vec![Method::Put],
                params: None,
                domain: Some(Box::new(h())),
                range: Box::new(E::Content(vec![], None)),
            }],
        ))),
        2 => st.push(Stmt::Res(h())),
        3 => st.push(Stmt::Res(rel(h(), vec![xfer(Method::Get, E::Content(vec![], None))]))),
        4 => st.push(Stmt::Res(rel(uri_lit(&[""]), vec![h()]))),
        5 => {
            st.push(let_("a", h()));
            st.push(res_get(content(var("a"))));
        }
        6 => {
            st.push(let_("a", h()));
            st.push(res_get(var("a")));
        }
        7 => {
            st.push(let_("@r", h()));
            st.push(res_get(content(var("@r"))));
        }
        8 => st.push(res_get(content(obj(vec![prop("p", h())])))),
        9 => st.push(res_get(content(arr(h())))),
        10 => st.push(res_get(content(obj(vec![h()])))),
        11 => st.push(res_get(content(E::Op(Op::Join, vec![obj(vec![]), h()])))),
        12 => st.push(res_get(content(E::Op(Op::Sum, vec![E::Prim(Prim::Str), h()])))),
        13 => st.push(res_get(content(E::Op(Op::Any, vec![E::Prim(Prim::Str), h()])))),
        14 => st.push(res_get(E::Op(Op::Range, vec![E::Content(vec![], None), h()]))),
        15 => st.push(res_get(E::Content(
            vec![(Meta::Status, h())],
            Some(Box::new(obj(vec![]))),
        ))),
        16 => st.push(res_get(E::Content(
            vec![(Meta::Media, h())],
            Some(Box::new(obj(vec![]))),
        ))),
        17 => st.push(res_get(E::Content(
            vec![(Meta::Headers, h())],
            Some(Box::new(obj(vec![]))),
        ))),
        18 => st.push(Stmt::Res(rel(
            E::Uri(vec![Seg::Lit("a".into()), Seg::Var(Box::new(h()))], None),
            vec![xfer(Method::Get, E::Content(vec![], None))],
        ))),
        19 => {
            st.push(fun("g", &["x"], h()));
            st.push(res_get(content(E::App(None, "g".into(), vec![E::Prim(Prim::Str)]))));
        }
        20 => {
            st.push(fun("g", &["x"], content(var("x"))));
            st.push(res_get(E::App(None, "g".into(), vec![h()])));
        }
        21 => {
            // function defined in an imported module, applied in main
            extra_module = Some(Module {
                name: "m.oal".into(),
                stmts: vec![
                    let_("v", obj(vec![prop("q", E::Prim(Prim::Str))])),
                    fun("f", &["y"], arr(var("y"))),
                    fun("g", &["x"], h()),
                ],
            });
            st = vec![
                Stmt::Use("m.oal".into(), None),
                res_get(content(E::App(None, "g".into(), vec![E::Prim(Prim::Str)]))),
            ];
        }
        22 => st.push(res_get(content(E::Rec("x".into(), Box::new(h()))))),
        23 => {
            st.push(let_("a", h()));
            st.push(let_("b", var("a")));
            st.push(res_get(content(var("b"))));
        }
        24 => st.push(Stmt::Res(rel(
            uri_lit(&[""]),
            vec![E::Xfer {
                methods: vec![Method::Get],
                params: Some(vec![h()]),
                domain: None,
                range: Box::new(E::Content(vec![], None)),
            }],
        ))),
        25 => {
            // value defined in an imported module, used qualified in main
            extra_module = Some(Module {
                name: "m.oal".into(),
                stmts: vec![
                    let_("v", obj(vec![prop("q", E::Prim(Prim::Str))])),
                    fun("f", &["y"], arr(var("y"))),
                    let_("a", h()),
                ],
            });
            st = vec![
                Stmt::Use("m.oal".into(), Some("m".into())),
                res_get(content(qvar("m", "a"))),
            ];
        }
        26 => {
            // a function that is declared and never applied
            st.push(fun("g", &["x"], h()));
            st.push(res_get(E::Content(vec![], None)));
        }
        27 => st.push(Stmt::Res(rel(
            // a transfer that has a domain, with the expression as its range
            uri_lit(&[""]),
            vec![E::Xfer {
                methods: vec![Method::Put],
                params: None,
                domain: Some(Box::new(E::Content(vec![], Some(Box::new(obj(vec![])))))),
                range: Box::new(h()),
            }],
        ))),
        _ => unreachable!(),
    }
    let mut modules = vec![Module {
        name: "main.oal".into(),
        stmts: st,
    }];
    modules.extend(extra_module);
    Program { modules }
}

// ---------------------------------------------------------------------------
// Two-module variant: `m.oal: let g x = BODY;`  `main.oal: use "m.oal" [as m]; SITE[g ARG]`

pub const N_SITES: usize = 12;

pub fn two_module(body: &E, arg: &E, site: usize) -> Program {
    // Sites 6..=8: qualified import of a module whose `v` is another object than main's `v`
    // (the two declarations share nothing but the name).
    // Sites 9..=11: the same with a `v` of another kind (a URI).
    let other_v = site >= 6;
    let uri_v = site >= 9;
    let (qualified, form) = if other_v { (true, (site - 6) % 3) } else { (site % 2 == 1, site / 2) };
    let q = if qualified { Some("m".to_owned()) } else { None };
    let app = E::App(q.clone(), "g".into(), vec![arg.clone()]);
    let main_stmt = match form {
        0 => res_get(content(app)),
        1 => res_get(app),
        _ => Stmt::Res(app),
    };
    Program {
        modules: vec![
            Module {
                name: "main.oal".into(),
                stmts: vec![
                    Stmt::Use("m.oal".into(), q),
                    let_("v", obj(vec![prop("q", E::Prim(Prim::Str))])),
                    main_stmt,
                ],
            },
            Module {
                name: "m.oal".into(),
                stmts: vec![
                    if uri_v {
                        let_("v", E::Uri(vec![Seg::Lit("mv".into())], None))
                    } else if other_v {
                        let_("v", obj(vec![prop("mq", E::Prim(Prim::Num)), prop("mr", E::Prim(Prim::Bool))]))
                    } else {
                        let_("v", obj(vec![prop("q", E::Prim(Prim::Str))]))
                    },
                    fun("f", &["y"], arr(var("y"))),
                    fun("g", &["x"], body.clone()),
                ],
            },
        ],
    }
}

/// Applies `f` to the (qualifier, name) of every variable and application of a term.
fn map_names(e: &E, f: &dyn Fn(Option<&str>, &str) -> (Option<String>, String)) -> E {
    use serde_json::Value;
    fn walk(v: &mut Value, f: &dyn Fn(Option<&str>, &str) -> (Option<String>, String)) {
        match v {
            Value::Object(m) => {
                for (k, x) in m.iter_mut() {
                    if (k == "Var" || k == "App") && x.as_array().is_some_and(|a| a.len() >= 2 && a[1].is_string()) {
                        let a = x.as_array_mut().unwrap();
                        let q = a[0].as_str().map(|s| s.to_owned());
                        let n = a[1].as_str().unwrap().to_owned();
                        let (nq, nn) = f(q.as_deref(), &n);
                        a[0] = nq.map(Value::String).unwrap_or(Value::Null);
                        a[1] = Value::String(nn);
                    }
                    walk(x, f);
                }
            }
            Value::Array(a) => {
                for x in a.iter_mut() {
                    walk(x, f);
                }
            }
            _ => {}
        }
    }
    let mut v = serde_json::to_value(e).expect("term to json");
    walk(&mut v, f);
    serde_json::from_value(v).expect("term from json")
}

/// Merges the modules of a program into one (imports dropped, qualifiers stripped). A name
/// that main and a module imported *with a qualifier* both declare, with different bodies,
/// keeps both declarations: the imported one is renamed (`v` of m.oal becomes `v__m`)
/// together with its uses inside that module and its qualified uses in main. Returns None
/// when such a clash comes through an unqualified import or between two imported modules.
pub fn merge_modules(p: &Program) -> Option<Program> {
    let strip = |e: &E| map_names(e, &|_, n| (None, n.to_owned()));
    let main = p.modules.first()?;
    let decls_of = |m: &Module| -> Vec<(String, Stmt)> {
        m.stmts
            .iter()
            .filter_map(|s| match s {
                Stmt::Let { anns, name, params, body } => Some((
                    name.clone(),
                    Stmt::Let { anns: anns.clone(), name: name.clone(), params: params.clone(), body: strip(body) },
                )),
                _ => None,
            })
            .collect()
    };
    let main_decls = decls_of(main);
    // (module name, qualifier) of main's imports
    let imports: Vec<(String, Option<String>)> = main
        .stmts
        .iter()
        .filter_map(|s| match s {
            Stmt::Use(path, q) => Some((path.trim_start_matches("./").to_owned(), q.clone())),
            _ => None,
        })
        .collect();
    // per imported module: the names to rename
    let mut renames: Vec<(String, Option<String>, Vec<String>)> = Vec::new();
    for m in p.modules.iter().skip(1) {
        let clashing: Vec<String> = decls_of(m)
            .into_iter()
            .filter(|(n, d)| main_decls.iter().any(|(mn, md)| mn == n && md != d))
            .map(|(n, _)| n)
            .collect();
        if clashing.is_empty() {
            continue;
        }
        match imports.iter().find(|(path, _)| *path == m.name) {
            Some((_, Some(q))) => renames.push((m.name.clone(), Some(q.clone()), clashing)),
            _ => return None,
        }
    }
    let suffix = |module: &str| format!("__{}", module.trim_end_matches(".oal").replace('/', "_"));
    let mut stmts: Vec<Stmt> = Vec::new();
    // Imported modules first, main last: order is irrelevant for declarations.
    for m in p.modules.iter().skip(1).chain(p.modules.iter().take(1)) {
        let is_main = std::ptr::eq(m, main);
        let own: Option<&(String, Option<String>, Vec<String>)> = renames.iter().find(|(name, _, _)| *name == m.name);
        let f = |q: Option<&str>, n: &str| -> (Option<String>, String) {
            if is_main {
                if let Some(q) = q {
                    if let Some((module, _, names)) = renames.iter().find(|(_, rq, _)| rq.as_deref() == Some(q)) {
                        if names.iter().any(|x| x == n) {
                            return (None, format!("{n}{}", suffix(module)));
                        }
                    }
                }
                (None, n.to_owned())
            } else {
                match own {
                    Some((module, _, names)) if q.is_none() && names.iter().any(|x| x == n) => (None, format!("{n}{}", suffix(module))),
                    _ => (None, n.to_owned()),
                }
            }
        };
        for s in m.stmts.iter() {
            match s {
                Stmt::Use(..) => {}
                Stmt::Let { anns, name, params, body } => {
                    let name = match own {
                        Some((module, _, names)) if names.contains(name) => format!("{name}{}", suffix(module)),
                        _ => name.clone(),
                    };
                    let new = Stmt::Let { anns: anns.clone(), name: name.clone(), params: params.clone(), body: map_names(body, &f) };
                    let clash = stmts.iter().find(|t| matches!(t, Stmt::Let { name: n, .. } if *n == name));
                    match clash {
                        Some(t) if *t == new => {}
                        Some(_) => return None,
                        None => stmts.push(new),
                    }
                }
                Stmt::Res(e) => stmts.push(Stmt::Res(map_names(e, &f))),
            }
        }
    }
    Some(single(stmts))
}

// ---------------------------------------------------------------------------
// Annotation matrix

pub const ANN_KEYS: [&str; 17] = [
    "description",
    "title",
    "required",
    "examples",
    "summary",
    "tags",
    "operationId",
    "minimum",
    "maximum",
    "multipleOf",
    "example",
    "pattern",
    "enum",
    "format",
    "minLength",
    "maxLength",
    "unknownKey",
];

pub const ANN_VALUES: [&str; 15] = [
    "text",
    "\"quoted: text\"",
    "42",
    "0",
    "-1",
    "18446744073709551616",
    "1.5",
    "true",
    "null",
    "[a, b]",
    "[1, [2]]",
    "{k: v}",
    "{k: {n: 1}, j: [x]}",
    "[",
    "a: b",
];

/// Target terms that read annotations.
fn ann_targets() -> Vec<(&'static str, E)> {
    vec![
        ("num", E::Prim(Prim::Num)),
        ("int", E::Prim(Prim::Int)),
        ("str", E::Prim(Prim::Str)),
        ("bool", E::Prim(Prim::Bool)),
        ("uri", E::Prim(Prim::Uri)),
        ("object", obj(vec![prop("p", E::Prim(Prim::Str))])),
        ("array", arr(E::Prim(Prim::Str))),
        ("template", E::Uri(vec![Seg::Lit("t".into())], None)),
    ]
}

pub const N_ANN_POSITIONS: usize = 9;

pub fn ann_case_count() -> usize {
    ANN_KEYS.len() * ANN_VALUES.len() * N_ANN_POSITIONS * ann_targets().len()
}

pub fn ann_case(idx: usize) -> Program {
    let targets = ann_targets();
    let mut i = idx;
    let t = i % targets.len();
    i /= targets.len();
    let pos = i % N_ANN_POSITIONS;
    i /= N_ANN_POSITIONS;
    let v = i % ANN_VALUES.len();
    i /= ANN_VALUES.len();
    let k = i % ANN_KEYS.len();
    let ann = format!("{}: {}", ANN_KEYS[k], ANN_VALUES[v]);
    let target = targets[t].1.clone();
    let inline = |e: E| E::Ann(vec![], Box::new(e), Some(ann.clone()));
    let line = |e: E| E::Ann(vec![ann.clone()], Box::new(e), None);
    let mut st = vec![];
    match pos {
        // inline annotation on the term, used as a response body
        0 => st.push(res_get(content(inline(target)))),
        // line annotation on the term
        1 => st.push(res_get(content(line(target)))),
        // line annotation on a declaration, used through a variable
        2 => {
            st.push(Stmt::Let {
                anns: vec![ann.clone()],
                name: "a".into(),
                params: vec![],
                body: target,
            });
            st.push(res_get(content(var("a"))));
        }
        // inherited through a variable use: annotation at the use site
        3 => {
            st.push(let_("a", target));
            st.push(res_get(content(inline(var("a")))));
        }
        // through an application: annotation on the application argument
        4 => {
            st.push(fun("g", &["x"], obj(vec![prop("p", var("x"))])));
            st.push(res_get(content(E::App(None, "g".into(), vec![inline(target)]))));
        }
        // on a property / on a content / on a transfer / on a declaration of a function
        5 => st.push(res_get(content(obj(vec![inline(E::Paren(Box::new(prop("p", target))))])))),
        6 => st.push(res_get(inline(content(target)))),
        7 => {
            st.push(let_(
                "a",
                inline(E::Paren(Box::new(xfer(Method::Get, content(target))))),
            ));
            st.push(Stmt::Res(rel(uri_lit(&[""]), vec![var("a")])));
        }
        _ => {
            st.push(Stmt::Let {
                anns: vec![ann.clone()],
                name: "g".into(),
                params: vec!["x".into()],
                body: obj(vec![prop("p", var("x"))]),
            });
            st.push(res_get(content(E::App(None, "g".into(), vec![target]))));
        }
    }
    single(st)
}
