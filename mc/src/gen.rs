//! Generator AST (G-AST) of the Oxlip surface language and its printer.
//!
//! The printer emits minimal concrete syntax (tokens separated by one space, line
//! annotations followed by a newline) and an **occurrence table**: the byte span of every
//! identifier occurrence (uses, declaration names, parameters, rec binders, import
//! qualifiers) in print order, which the binding, LSP and span oracles use.

use serde::{Deserialize, Serialize};

#[derive(Clone, Copy, Debug, PartialEq, Eq, Hash, Serialize, Deserialize, PartialOrd, Ord)]
pub enum Prim {
    Num,
    Str,
    Bool,
    Int,
    Uri,
}

#[derive(Clone, Copy, Debug, PartialEq, Eq, Hash, Serialize, Deserialize, PartialOrd, Ord)]
pub enum Op {
    Join,  // &
    Sum,   // |
    Any,   // ~
    Range, // ::
}

#[derive(Clone, Copy, Debug, PartialEq, Eq, Hash, Serialize, Deserialize, PartialOrd, Ord)]
pub enum Meta {
    Media,
    Headers,
    Status,
}

#[derive(Clone, Copy, Debug, PartialEq, Eq, Hash, Serialize, Deserialize, PartialOrd, Ord)]
pub enum Method {
    Get,
    Put,
    Post,
    Patch,
    Delete,
    Options,
    Head,
}

impl Method {
    pub const ALL: [Method; 7] = [
        Method::Get,
        Method::Put,
        Method::Post,
        Method::Patch,
        Method::Delete,
        Method::Options,
        Method::Head,
    ];
    pub fn name(&self) -> &'static str {
        match self {
            Method::Get => "get",
            Method::Put => "put",
            Method::Post => "post",
            Method::Patch => "patch",
            Method::Delete => "delete",
            Method::Options => "options",
            Method::Head => "head",
        }
    }
}

#[derive(Clone, Debug, PartialEq, Eq, Hash, Serialize, Deserialize)]
pub enum Seg {
    /// `/` (an empty segment)
    Root,
    /// `/name`
    Lit(String),
    /// `/{ e }`
    Var(Box<E>),
}

#[derive(Clone, Debug, PartialEq, Eq, Hash, Serialize, Deserialize)]
pub enum E {
    Prim(Prim),
    Str(String),
    Num(u64),
    /// `nXX`
    StatusRange(u8),
    Var(Option<String>, String),
    App(Option<String>, String, Vec<E>),
    Obj(Vec<E>),
    Arr(Box<E>),
    /// `'name [!|?] e`
    Prop(String, Option<bool>, Box<E>),
    /// `e!` (true) / `e?` (false)
    Mark(Box<E>, bool),
    Op(Op, Vec<E>),
    Content(Vec<(Meta, E)>, Option<Box<E>>),
    Uri(Vec<Seg>, Option<Vec<E>>),
    Xfer {
        methods: Vec<Method>,
        params: Option<Vec<E>>,
        domain: Option<Box<E>>,
        range: Box<E>,
    },
    Rel(Box<E>, Vec<E>),
    Rec(String, Box<E>),
    Paren(Box<E>),
    /// A term with line annotations before it and/or an inline annotation after it.
    Ann(Vec<String>, Box<E>, Option<String>),
}

#[derive(Clone, Debug, PartialEq, Eq, Hash, Serialize, Deserialize)]
pub enum Stmt {
    Use(String, Option<String>),
    Let {
        anns: Vec<String>,
        name: String,
        params: Vec<String>,
        body: E,
    },
    Res(E),
}

#[derive(Clone, Debug, PartialEq, Eq, Hash, Serialize, Deserialize)]
pub struct Module {
    pub name: String,
    pub stmts: Vec<Stmt>,
}

#[derive(Clone, Debug, PartialEq, Eq, Hash, Serialize, Deserialize)]
pub struct Program {
    /// modules[0] is the main module.
    pub modules: Vec<Module>,
}

// Convenience constructors -------------------------------------------------

pub fn var(n: &str) -> E {
    E::Var(None, n.to_owned())
}
pub fn qvar(q: &str, n: &str) -> E {
    E::Var(Some(q.to_owned()), n.to_owned())
}
pub fn prop(n: &str, e: E) -> E {
    E::Prop(n.to_owned(), None, Box::new(e))
}
pub fn obj(v: Vec<E>) -> E {
    E::Obj(v)
}
pub fn arr(e: E) -> E {
    E::Arr(Box::new(e))
}
pub fn content(body: E) -> E {
    E::Content(vec![], Some(Box::new(body)))
}
pub fn uri_lit(segs: &[&str]) -> E {
    E::Uri(
        segs.iter()
            .map(|s| {
                if s.is_empty() {
                    Seg::Root
                } else {
                    Seg::Lit((*s).to_owned())
                }
            })
            .collect(),
        None,
    )
}
pub fn xfer(m: Method, range: E) -> E {
    E::Xfer {
        methods: vec![m],
        params: None,
        domain: None,
        range: Box::new(range),
    }
}
pub fn rel(uri: E, xfers: Vec<E>) -> E {
    E::Rel(Box::new(uri), xfers)
}
pub fn let_(name: &str, body: E) -> Stmt {
    Stmt::Let {
        anns: vec![],
        name: name.to_owned(),
        params: vec![],
        body,
    }
}
pub fn fun(name: &str, params: &[&str], body: E) -> Stmt {
    Stmt::Let {
        anns: vec![],
        name: name.to_owned(),
        params: params.iter().map(|s| (*s).to_owned()).collect(),
        body,
    }
}
pub fn single(stmts: Vec<Stmt>) -> Program {
    Program {
        modules: vec![Module {
            name: "main.oal".into(),
            stmts,
        }],
    }
}

// Printer --------------------------------------------------------------------

#[derive(Clone, Debug, PartialEq, Eq, Serialize, Deserialize)]
pub enum OccKind {
    /// Use of a (possibly qualified) variable: span of the *name* part.
    Use,
    /// The qualifier part of a qualified use.
    UseQualifier,
    /// The function position of an application (also a use).
    DeclName,
    Param,
    RecBinder,
    ImportQualifier,
}

#[derive(Clone, Debug, PartialEq, Eq, Serialize, Deserialize)]
pub struct Occ {
    pub kind: OccKind,
    pub module: usize,
    pub start: usize,
    pub end: usize,
    pub text: String,
    /// For Use: span of the whole variable (qualifier included).
    pub whole: (usize, usize),
}

#[derive(Clone, Debug, Default)]
pub struct Printed {
    /// (module name, text) for every module, main first.
    pub texts: Vec<(String, String)>,
    /// Identifier occurrences in print order (module by module, left to right).
    pub occs: Vec<Occ>,
    /// Span of every statement: (module, start, end, statement index).
    pub stmts: Vec<(usize, usize, usize, usize)>,
    /// Span of the binding construct of every binder occurrence (index into occs):
    /// the whole declaration for DeclName, the parameter token for Param, the whole
    /// `rec x e` expression for RecBinder.
    pub constructs: Vec<(usize, usize, usize)>,
}

// Binding strengths, loosest first.
const S_REL: u8 = 0;
const S_LOOSE: u8 = 1; // rec, transfer, property (their tails are greedy)
const S_SUM: u8 = 2;
const S_ANY: u8 = 3;
const S_JOIN: u8 = 4;
const S_RANGE: u8 = 5;
const S_APP: u8 = 6;
const S_UNARY: u8 = 7;
const S_TERM: u8 = 8;

// Context minimums.
pub const C_TOP: u8 = 0;
const C_ITEM: u8 = 1;
const C_XFER_RANGE: u8 = S_RANGE;
/// Flag: a bare URI template is ambiguous here (it would merge with a following path
/// element, or its `?` would be read as the start of query parameters).
const F_URI: u8 = 0x40;
const C_ARG: u8 = F_URI | S_UNARY;
const C_MARK: u8 = F_URI | S_TERM;
const C_TERM: u8 = S_TERM;

fn strength(e: &E) -> u8 {
    match e {
        E::Rel(..) => S_REL,
        E::Rec(..) | E::Xfer { .. } | E::Prop(..) => S_LOOSE,
        E::Op(Op::Sum, _) => S_SUM,
        E::Op(Op::Any, _) => S_ANY,
        E::Op(Op::Join, _) => S_JOIN,
        E::Op(Op::Range, _) => S_RANGE,
        E::App(..) => S_APP,
        E::Mark(..) => S_UNARY,
        _ => S_TERM,
    }
}

struct P<'a> {
    out: String,
    module: usize,
    printed: &'a mut Printed,
}

impl P<'_> {
    fn tok(&mut self, s: &str) -> (usize, usize) {
        if !self.out.is_empty() && !self.out.ends_with('\n') && !self.out.ends_with(' ') {
            self.out.push(' ');
        }
        let start = self.out.len();
        self.out.push_str(s);
        (start, self.out.len())
    }

    fn occ(&mut self, kind: OccKind, s: &str) -> usize {
        let (start, end) = self.tok(s);
        self.printed.occs.push(Occ {
            kind,
            module: self.module,
            start,
            end,
            text: s.to_owned(),
            whole: (start, end),
        });
        self.printed.constructs.push((self.module, start, end));
        self.printed.occs.len() - 1
    }

    fn variable(&mut self, q: &Option<String>, n: &str) {
        match q {
            Some(q) => {
                let (qs, _) = self.tok(q);
                let qe = self.out.len();
                self.printed.occs.push(Occ {
                    kind: OccKind::UseQualifier,
                    module: self.module,
                    start: qs,
                    end: qe,
                    text: q.clone(),
                    whole: (qs, qe),
                });
                self.printed.constructs.push((self.module, qs, qe));
                // `q.name` without spaces; with blanks around the dot when asked for (the
                // lexer accepts both).
                if SPACED_DOTS.with(|c| c.get()) {
                    self.out.push_str(" . ");
                } else {
                    self.out.push('.');
                }
                let start = self.out.len();
                self.out.push_str(n);
                let end = self.out.len();
                let qi = self.printed.occs.len() - 1;
                self.printed.occs[qi].whole = (qs, end);
                self.printed.occs.push(Occ {
                    kind: OccKind::Use,
                    module: self.module,
                    start,
                    end,
                    text: n.to_owned(),
                    whole: (qs, end),
                });
                self.printed.constructs.push((self.module, qs, end));
            }
            None => {
                self.occ(OccKind::Use, n);
            }
        }
    }

    fn list(&mut self, items: &[E]) {
        for (i, it) in items.iter().enumerate() {
            if i > 0 {
                self.tok(",");
            }
            self.expr(it, C_ITEM);
        }
    }

    fn expr(&mut self, e: &E, ctx: u8) {
        let flag = ctx & F_URI;
        let ctx = ctx & !F_URI;
        let mut need_paren = strength(e) < ctx;
        if let E::Uri(..) = e {
            if flag != 0 {
                need_paren = true;
            }
        }
        if need_paren {
            self.tok("(");
            self.expr(e, C_TOP);
            self.tok(")");
            return;
        }
        match e {
            E::Prim(p) => {
                self.tok(match p {
                    Prim::Num => "num",
                    Prim::Str => "str",
                    Prim::Bool => "bool",
                    Prim::Int => "int",
                    Prim::Uri => "uri",
                });
            }
            E::Str(s) => {
                self.tok(&format!("\"{s}\""));
            }
            E::Num(n) => {
                self.tok(&n.to_string());
            }
            E::StatusRange(n) => {
                self.tok(&format!("{n}XX"));
            }
            E::Var(q, n) => self.variable(q, n),
            E::App(q, f, args) => {
                self.variable(q, f);
                for a in args {
                    self.expr(a, C_ARG);
                }
            }
            E::Obj(items) => {
                self.tok("{");
                self.list(items);
                self.tok("}");
            }
            E::Arr(inner) => {
                self.tok("[");
                self.expr(inner, C_TOP);
                self.tok("]");
            }
            E::Prop(n, mark, v) => {
                self.tok(&format!("'{n}"));
                match mark {
                    Some(true) => {
                        self.tok("!");
                    }
                    Some(false) => {
                        self.tok("?");
                    }
                    None => {}
                }
                // The right-hand side is a full expression, but a relation would swallow
                // the commas of an enclosing list.
                self.expr(v, C_ITEM);
            }
            E::Mark(inner, req) => {
                self.expr(inner, C_MARK);
                self.tok(if *req { "!" } else { "?" });
            }
            E::Op(op, operands) => {
                let (sym, ctx) = match op {
                    Op::Sum => ("|", S_ANY),
                    Op::Any => ("~", S_JOIN),
                    Op::Join => ("&", S_RANGE),
                    Op::Range => ("::", S_APP),
                };
                for (i, o) in operands.iter().enumerate() {
                    if i > 0 {
                        self.tok(sym);
                    }
                    self.expr(o, ctx);
                }
            }
            E::Content(metas, body) => {
                self.tok("<");
                let mut first = true;
                for (m, v) in metas {
                    if !first {
                        self.tok(",");
                    }
                    first = false;
                    self.tok(match m {
                        Meta::Media => "media",
                        Meta::Headers => "headers",
                        Meta::Status => "status",
                    });
                    self.tok("=");
                    self.expr(v, C_ITEM);
                }
                if let Some(b) = body {
                    if !first {
                        self.tok(",");
                    }
                    self.expr(b, C_ITEM);
                }
                self.tok(">");
            }
            E::Uri(segs, params) => {
                let mut first = true;
                for s in segs {
                    // Segments are glued together, except after a bare `/` (a second `/`
                    // would start a line comment).
                    let glue = !first && !self.out.ends_with('/');
                    let head = match s {
                        Seg::Root | Seg::Var(_) => "/".to_owned(),
                        Seg::Lit(l) => format!("/{l}"),
                    };
                    if glue {
                        self.out.push_str(&head);
                    } else {
                        self.tok(&head);
                    }
                    if let Seg::Var(v) = s {
                        self.out.push('{');
                        self.out.push(' ');
                        self.expr(v, C_TOP);
                        self.tok("}");
                    }
                    first = false;
                }
                if let Some(ps) = params {
                    self.out.push('?');
                    self.out.push('{');
                    self.out.push(' ');
                    self.list(ps);
                    self.tok("}");
                }
            }
            E::Xfer {
                methods,
                params,
                domain,
                range,
            } => {
                for (i, m) in methods.iter().enumerate() {
                    if i > 0 {
                        self.tok(",");
                    }
                    self.tok(m.name());
                }
                if let Some(ps) = params {
                    self.tok("{");
                    self.list(ps);
                    self.tok("}");
                }
                if let Some(d) = domain {
                    self.tok(":");
                    self.expr(d, C_TERM);
                }
                self.tok("->");
                self.expr(range, C_XFER_RANGE);
            }
            E::Rel(uri, xfers) => {
                self.expr(uri, C_TERM);
                self.tok("on");
                self.list(xfers);
            }
            E::Rec(x, body) => {
                let start = self.tok("rec").0;
                let oi = self.occ(OccKind::RecBinder, x);
                self.expr(body, C_ITEM);
                let end = self.out.len();
                self.printed.constructs[oi] = (self.module, start, end);
            }
            E::Paren(inner) => {
                self.tok("(");
                self.expr(inner, C_TOP);
                self.tok(")");
            }
            E::Ann(pre, inner, post) => {
                for a in pre {
                    self.line_annotation(a);
                }
                if matches!(**inner, E::Ann(..)) {
                    // Only one inline annotation per term: nest through parentheses.
                    self.tok("(");
                    self.expr(inner, C_TOP);
                    self.tok(")");
                } else {
                    self.expr(inner, C_TERM | flag);
                }
                if let Some(a) = post {
                    self.tok(&format!("`{a}`"));
                }
            }
        }
    }

    fn line_annotation(&mut self, a: &str) {
        if !self.out.is_empty() && !self.out.ends_with('\n') {
            self.out.push('\n');
        }
        self.out.push_str("# ");
        self.out.push_str(a);
        self.out.push('\n');
    }
}

/// Strength of an expression when it sits in a term position (used by rewrites).
pub fn is_term(e: &E) -> bool {
    strength(e) == S_TERM
}

thread_local! {
    /// Print qualified names as `q . name` (set by callers that want non-identifier positions
    /// inside a variable).
    pub static SPACED_DOTS: std::cell::Cell<bool> = const { std::cell::Cell::new(false) };
}

/// `print` with blanks around the dot of every qualified name.
pub fn print_spaced_dots(p: &Program) -> Printed {
    SPACED_DOTS.with(|c| c.set(true));
    let r = print(p);
    SPACED_DOTS.with(|c| c.set(false));
    r
}

pub fn print(p: &Program) -> Printed {
    let mut printed = Printed::default();
    for (mi, m) in p.modules.iter().enumerate() {
        let mut pr = P {
            out: String::new(),
            module: mi,
            printed: &mut printed,
        };
        for (si, s) in m.stmts.iter().enumerate() {
            if !pr.out.is_empty() && !pr.out.ends_with('\n') {
                pr.out.push('\n');
            }
            let start = pr.out.len();
            match s {
                Stmt::Use(path, q) => {
                    pr.tok("use");
                    pr.tok(&format!("\"{path}\""));
                    if let Some(q) = q {
                        pr.tok("as");
                        pr.occ(OccKind::ImportQualifier, q);
                    }
                    pr.tok(";");
                }
                Stmt::Let {
                    anns,
                    name,
                    params,
                    body,
                } => {
                    // The binding construct includes the annotation lines of the declaration.
                    for a in anns {
                        pr.line_annotation(a);
                    }
                    pr.tok("let");
                    let oi = pr.occ(OccKind::DeclName, name);
                    for x in params {
                        pr.occ(OccKind::Param, x);
                    }
                    pr.tok("=");
                    pr.expr(body, C_TOP);
                    pr.tok(";");
                    let end = pr.out.len();
                    pr.printed.constructs[oi] = (mi, start, end);
                }
                Stmt::Res(e) => {
                    pr.tok("res");
                    pr.expr(e, C_TOP);
                    pr.tok(";");
                }
            }
            let end = pr.out.len();
            pr.printed.stmts.push((mi, start, end, si));
        }
        pr.out.push('\n');
        let text = pr.out;
        printed.texts.push((m.name.clone(), text));
    }
    printed
}

pub fn print_expr(e: &E) -> String {
    let mut printed = Printed::default();
    let mut pr = P {
        out: String::new(),
        module: 0,
        printed: &mut printed,
    };
    pr.expr(e, C_TOP);
    pr.out
}

/// Number of constructors of an expression (size measure of the enumerators).
pub fn size(e: &E) -> usize {
    1 + match e {
        E::Prim(_) | E::Str(_) | E::Num(_) | E::StatusRange(_) | E::Var(..) => 0,
        E::App(_, _, a) => a.iter().map(size).sum(),
        E::Obj(v) => v.iter().map(size).sum(),
        E::Arr(i) | E::Paren(i) | E::Mark(i, _) | E::Prop(_, _, i) | E::Rec(_, i) => size(i),
        E::Op(_, v) => v.iter().map(size).sum(),
        E::Content(m, b) => {
            m.iter().map(|(_, e)| size(e)).sum::<usize>() + b.as_ref().map_or(0, |b| size(b))
        }
        E::Uri(s, p) => {
            s.iter()
                .map(|s| if let Seg::Var(v) = s { size(v) } else { 0 })
                .sum::<usize>()
                + p.as_ref().map_or(0, |p| p.iter().map(size).sum())
        }
        E::Xfer {
            params,
            domain,
            range,
            ..
        } => {
            params.as_ref().map_or(0, |p| p.iter().map(size).sum())
                + domain.as_ref().map_or(0, |d| size(d))
                + size(range)
        }
        E::Rel(u, x) => size(u) + x.iter().map(size).sum::<usize>(),
        E::Ann(_, i, _) => size(i),
    }
}
