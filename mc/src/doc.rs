//! Abstract OpenAPI document: the common currency of the reference evaluator and of the
//! extractor that reads the YAML emitted by the real compiler, and their comparison.
//!
//! Comparison is structural and exact (nothing extra, nothing missing, nothing elsewhere)
//! with one freedom: *implicit* components (`hash-…` on the implementation side, `#n` on
//! the reference side) are compared by unfolding (bisimulation with a visited-pair set),
//! so that only their generated names are free. `@` components must match by name.

use serde_yaml::Value as Y;
use std::collections::{BTreeMap, BTreeSet, HashSet};

#[derive(Clone, Debug, PartialEq)]
pub enum S {
    /// `$ref` to `components.schemas.<name>`
    Ref(String),
    Node(Box<SchemaNode>),
}

#[derive(Clone, Debug, PartialEq, Default)]
pub struct SchemaNode {
    pub kind: SK,
    pub desc: Option<String>,
    pub title: Option<String>,
    /// Keys of the YAML schema object that the model does not know (must be empty).
    pub extra: Vec<String>,
}

#[derive(Clone, Debug, PartialEq, Default)]
pub enum SK {
    #[default]
    Unknown,
    Num {
        minimum: Option<f64>,
        maximum: Option<f64>,
        multiple_of: Option<f64>,
        example: Option<f64>,
    },
    Int {
        minimum: Option<i64>,
        maximum: Option<i64>,
        multiple_of: Option<i64>,
        example: Option<i64>,
    },
    Str {
        pattern: Option<String>,
        enumeration: Vec<String>,
        format: Option<String>,
        example: Option<String>,
        min_length: Option<u64>,
        max_length: Option<u64>,
    },
    Bool,
    Array(S),
    Object {
        props: Vec<(String, S)>,
        required: Vec<String>,
    },
    AllOf(Vec<S>),
    OneOf(Vec<S>),
    AnyOf(Vec<S>),
}

#[derive(Clone, Debug, PartialEq)]
pub struct Param {
    pub name: String,
    pub loc: String, // path | query | header
    pub required: bool,
    pub desc: Option<String>,
    pub schema: S,
}

#[derive(Clone, Debug, PartialEq)]
pub struct Header {
    pub required: bool,
    pub desc: Option<String>,
    pub schema: S,
}

#[derive(Clone, Debug, PartialEq)]
pub struct Media {
    pub schema: Option<S>,
    pub examples: Vec<(String, String)>,
}

#[derive(Clone, Debug, PartialEq, Default)]
pub struct Response {
    pub desc: String,
    pub headers: Vec<(String, Header)>,
    pub content: Vec<(String, Media)>,
}

#[derive(Clone, Debug, PartialEq, Default)]
pub struct Body {
    pub desc: Option<String>,
    pub content: Vec<(String, Media)>,
}

#[derive(Clone, Debug, PartialEq, Default)]
pub struct Operation {
    pub id: Option<String>,
    pub summary: Option<String>,
    pub desc: Option<String>,
    pub tags: Vec<String>,
    pub params: Vec<Param>,
    pub body: Option<Body>,
    /// key = "default" | "200" | "4XX"
    pub responses: Vec<(String, Response)>,
}

#[derive(Clone, Debug, PartialEq, Default)]
pub struct PathItem {
    pub params: Vec<Param>,
    /// method name -> operation
    pub ops: BTreeMap<String, Operation>,
}

#[derive(Clone, Debug, PartialEq, Default)]
pub struct Doc {
    pub paths: Vec<(String, PathItem)>,
    pub components: BTreeMap<String, S>,
    /// Unknown keys met during extraction ("path: key").
    pub extra: Vec<String>,
}

pub const METHODS: [&str; 8] = [
    "get", "put", "post", "delete", "options", "head", "patch", "trace",
];

// ---------------------------------------------------------------------------
// Extraction from the emitted YAML

fn ystr(v: Option<&Y>) -> Option<String> {
    v.and_then(|v| v.as_str()).map(|s| s.to_owned())
}

fn key_str(k: &Y) -> String {
    match k {
        Y::String(s) => s.clone(),
        Y::Number(n) => n.to_string(),
        Y::Bool(b) => b.to_string(),
        Y::Null => "null".into(),
        other => format!("{other:?}"),
    }
}

fn known(m: &serde_yaml::Mapping, allowed: &[&str], at: &str, extra: &mut Vec<String>) {
    for (k, _) in m.iter() {
        let k = key_str(k);
        if !allowed.contains(&k.as_str()) {
            extra.push(format!("{at}: {k}"));
        }
    }
}

pub fn extract_schema(v: &Y, extra: &mut Vec<String>) -> S {
    let Some(m) = v.as_mapping() else {
        extra.push("schema is not a mapping".into());
        return S::Node(Box::default());
    };
    if let Some(r) = m.get("$ref").and_then(|r| r.as_str()) {
        known(m, &["$ref"], "schema", extra);
        let name = r
            .strip_prefix("#/components/schemas/")
            .map(|s| s.to_owned())
            .unwrap_or_else(|| format!("<foreign ref {r}>"));
        return S::Ref(name);
    }
    let mut node = SchemaNode {
        desc: ystr(m.get("description")),
        title: ystr(m.get("title")),
        ..Default::default()
    };
    let mut local = Vec::new();
    let f64_of = |k: &str| m.get(k).and_then(|v| v.as_f64());
    let i64_of = |k: &str| m.get(k).and_then(|v| v.as_i64());
    let list = |k: &str, extra: &mut Vec<String>| -> Vec<S> {
        m.get(k)
            .and_then(|v| v.as_sequence())
            .map(|s| s.iter().map(|x| extract_schema(x, extra)).collect())
            .unwrap_or_default()
    };
    let common = ["description", "title"];
    if m.contains_key("allOf") {
        node.kind = SK::AllOf(list("allOf", extra));
        known(m, &[&common[..], &["allOf"]].concat(), "schema", &mut local);
    } else if m.contains_key("oneOf") {
        node.kind = SK::OneOf(list("oneOf", extra));
        known(m, &[&common[..], &["oneOf"]].concat(), "schema", &mut local);
    } else if m.contains_key("anyOf") {
        node.kind = SK::AnyOf(list("anyOf", extra));
        known(m, &[&common[..], &["anyOf"]].concat(), "schema", &mut local);
    } else {
        match m.get("type").and_then(|t| t.as_str()) {
            Some("number") => {
                node.kind = SK::Num {
                    minimum: f64_of("minimum"),
                    maximum: f64_of("maximum"),
                    multiple_of: f64_of("multipleOf"),
                    example: f64_of("example"),
                };
                known(
                    m,
                    &[&common[..], &["type", "minimum", "maximum", "multipleOf", "example"]]
                        .concat(),
                    "schema",
                    &mut local,
                );
            }
            Some("integer") => {
                node.kind = SK::Int {
                    minimum: i64_of("minimum"),
                    maximum: i64_of("maximum"),
                    multiple_of: i64_of("multipleOf"),
                    example: i64_of("example"),
                };
                known(
                    m,
                    &[&common[..], &["type", "minimum", "maximum", "multipleOf", "example"]]
                        .concat(),
                    "schema",
                    &mut local,
                );
            }
            Some("string") => {
                node.kind = SK::Str {
                    pattern: ystr(m.get("pattern")),
                    enumeration: m
                        .get("enum")
                        .and_then(|v| v.as_sequence())
                        .map(|s| {
                            s.iter()
                                .map(|x| x.as_str().map(|s| s.to_owned()).unwrap_or_else(|| format!("<non-string {x:?}>")))
                                .collect()
                        })
                        .unwrap_or_default(),
                    format: ystr(m.get("format")),
                    example: m.get("example").map(|x| {
                        x.as_str()
                            .map(|s| s.to_owned())
                            .unwrap_or_else(|| format!("<non-string {x:?}>"))
                    }),
                    min_length: m.get("minLength").and_then(|v| v.as_u64()),
                    max_length: m.get("maxLength").and_then(|v| v.as_u64()),
                };
                known(
                    m,
                    &[
                        &common[..],
                        &["type", "pattern", "enum", "format", "example", "minLength", "maxLength"],
                    ]
                    .concat(),
                    "schema",
                    &mut local,
                );
            }
            Some("boolean") => {
                node.kind = SK::Bool;
                known(m, &[&common[..], &["type"]].concat(), "schema", &mut local);
            }
            Some("array") => {
                node.kind = match m.get("items") {
                    Some(i) => SK::Array(extract_schema(i, extra)),
                    None => {
                        local.push("schema: array without items".into());
                        SK::Unknown
                    }
                };
                known(m, &[&common[..], &["type", "items"]].concat(), "schema", &mut local);
            }
            Some("object") => {
                let props = m
                    .get("properties")
                    .and_then(|p| p.as_mapping())
                    .map(|p| {
                        p.iter()
                            .map(|(k, v)| (key_str(k), extract_schema(v, extra)))
                            .collect()
                    })
                    .unwrap_or_default();
                let required = m
                    .get("required")
                    .and_then(|r| r.as_sequence())
                    .map(|r| r.iter().map(key_str).collect())
                    .unwrap_or_default();
                node.kind = SK::Object { props, required };
                known(
                    m,
                    &[&common[..], &["type", "properties", "required"]].concat(),
                    "schema",
                    &mut local,
                );
            }
            other => {
                local.push(format!("schema: unknown type {other:?}"));
            }
        }
    }
    node.extra = local;
    S::Node(Box::new(node))
}

fn extract_examples(v: Option<&Y>, extra: &mut Vec<String>) -> Vec<(String, String)> {
    let mut out = Vec::new();
    if let Some(m) = v.and_then(|v| v.as_mapping()) {
        for (k, e) in m.iter() {
            let url = e.get("externalValue").and_then(|u| u.as_str());
            if let Some(em) = e.as_mapping() {
                known(em, &["externalValue"], "example", extra);
            }
            out.push((key_str(k), url.unwrap_or("<missing externalValue>").to_owned()));
        }
    }
    out
}

fn extract_content(v: Option<&Y>, extra: &mut Vec<String>) -> Vec<(String, Media)> {
    let mut out = Vec::new();
    if let Some(m) = v.and_then(|v| v.as_mapping()) {
        for (k, mt) in m.iter() {
            if let Some(mm) = mt.as_mapping() {
                known(mm, &["schema", "examples"], "media type", extra);
            }
            out.push((
                key_str(k),
                Media {
                    schema: mt.get("schema").map(|s| extract_schema(s, extra)),
                    examples: extract_examples(mt.get("examples"), extra),
                },
            ));
        }
    }
    out
}

fn extract_params(v: Option<&Y>, extra: &mut Vec<String>) -> Vec<Param> {
    let mut out = Vec::new();
    if let Some(seq) = v.and_then(|v| v.as_sequence()) {
        for p in seq {
            if let Some(pm) = p.as_mapping() {
                known(
                    pm,
                    &["in", "name", "description", "required", "schema", "style"],
                    "parameter",
                    extra,
                );
            }
            let loc = ystr(p.get("in")).unwrap_or_default();
            // Serialisation noise: the default style of the location.
            match (loc.as_str(), p.get("style").and_then(|s| s.as_str())) {
                ("path", Some("simple")) | ("header", Some("simple")) | ("query", Some("form")) | (_, None) => {}
                (l, s) => extra.push(format!("parameter in {l}: style {s:?}")),
            }
            out.push(Param {
                name: ystr(p.get("name")).unwrap_or_default(),
                loc,
                required: p.get("required").and_then(|r| r.as_bool()).unwrap_or(false),
                desc: ystr(p.get("description")),
                schema: p
                    .get("schema")
                    .map(|s| extract_schema(s, extra))
                    .unwrap_or(S::Node(Box::default())),
            });
        }
    }
    out
}

fn extract_operation(v: &Y, extra: &mut Vec<String>) -> Operation {
    if let Some(m) = v.as_mapping() {
        known(
            m,
            &[
                "tags",
                "summary",
                "description",
                "operationId",
                "parameters",
                "requestBody",
                "responses",
            ],
            "operation",
            extra,
        );
    }
    let body = v.get("requestBody").map(|b| {
        if let Some(bm) = b.as_mapping() {
            known(bm, &["description", "content", "required"], "requestBody", extra);
        }
        if b.get("required").and_then(|r| r.as_bool()) == Some(true) {
            extra.push("requestBody: required true".into());
        }
        Body {
            desc: ystr(b.get("description")),
            content: extract_content(b.get("content"), extra),
        }
    });
    let mut responses = Vec::new();
    if let Some(rm) = v.get("responses").and_then(|r| r.as_mapping()) {
        for (k, r) in rm.iter() {
            if let Some(m) = r.as_mapping() {
                known(m, &["description", "headers", "content"], "response", extra);
            }
            let mut headers = Vec::new();
            if let Some(hm) = r.get("headers").and_then(|h| h.as_mapping()) {
                for (hk, h) in hm.iter() {
                    if let Some(m) = h.as_mapping() {
                        known(m, &["description", "style", "required", "schema"], "header", extra);
                    }
                    if let Some(st) = h.get("style").and_then(|s| s.as_str()) {
                        if st != "simple" {
                            extra.push(format!("header style {st}"));
                        }
                    }
                    headers.push((
                        key_str(hk),
                        Header {
                            required: h.get("required").and_then(|r| r.as_bool()).unwrap_or(false),
                            desc: ystr(h.get("description")),
                            schema: h
                                .get("schema")
                                .map(|s| extract_schema(s, extra))
                                .unwrap_or(S::Node(Box::default())),
                        },
                    ));
                }
            }
            responses.push((
                key_str(k),
                Response {
                    desc: ystr(r.get("description")).unwrap_or_else(|| "<missing>".into()),
                    headers,
                    content: extract_content(r.get("content"), extra),
                },
            ));
        }
    }
    Operation {
        id: ystr(v.get("operationId")),
        summary: ystr(v.get("summary")),
        desc: ystr(v.get("description")),
        tags: v
            .get("tags")
            .and_then(|t| t.as_sequence())
            .map(|t| t.iter().map(key_str).collect())
            .unwrap_or_default(),
        params: extract_params(v.get("parameters"), extra),
        body,
        responses,
    }
}

/// Extracts the paths and schema components of an emitted document.
pub fn extract(yaml: &Y) -> Doc {
    let mut doc = Doc::default();
    let mut extra = Vec::new();
    if let Some(pm) = yaml.get("paths").and_then(|p| p.as_mapping()) {
        for (k, item) in pm.iter() {
            let mut pi = PathItem::default();
            if let Some(m) = item.as_mapping() {
                let mut allowed: Vec<&str> = METHODS.to_vec();
                allowed.push("parameters");
                known(m, &allowed, "path item", &mut extra);
            }
            pi.params = extract_params(item.get("parameters"), &mut extra);
            for meth in METHODS {
                if let Some(op) = item.get(meth) {
                    pi.ops.insert(meth.to_owned(), extract_operation(op, &mut extra));
                }
            }
            doc.paths.push((key_str(k), pi));
        }
    }
    if let Some(cm) = yaml
        .get("components")
        .and_then(|c| c.get("schemas"))
        .and_then(|s| s.as_mapping())
    {
        for (k, s) in cm.iter() {
            doc.components.insert(key_str(k), extract_schema(s, &mut extra));
        }
    }
    doc.extra = extra;
    doc
}

// ---------------------------------------------------------------------------
// Comparison

pub fn is_implicit(name: &str) -> bool {
    name.starts_with("hash-") || name.starts_with('#')
}

pub struct Cmp<'a> {
    pub imp: &'a Doc,
    pub reff: &'a Doc,
    visited: HashSet<(usize, usize)>,
    /// implicit components of the implementation reached from the roots
    pub reached: BTreeSet<String>,
}

type R = Result<(), String>;

fn ne<T: std::fmt::Debug + PartialEq>(at: &str, what: &str, a: &T, b: &T) -> R {
    if a == b {
        Ok(())
    } else {
        Err(format!("{at}: {what}: emitted {a:?}, reference {b:?}"))
    }
}

impl<'a> Cmp<'a> {
    pub fn new(imp: &'a Doc, reff: &'a Doc) -> Self {
        Cmp {
            imp,
            reff,
            visited: HashSet::new(),
            reached: BTreeSet::new(),
        }
    }

    /// Follows implicit references; returns the resolved schema or an error for a dangling
    /// or unguarded (ref -> ref -> … -> itself) chain.
    fn deref(&mut self, s: &'a S, doc: &'a Doc, imp_side: bool, at: &str) -> Result<&'a S, String> {
        let mut cur = s;
        let mut hops = 0;
        while let S::Ref(n) = cur {
            if !is_implicit(n) {
                break;
            }
            if imp_side {
                self.reached.insert(n.clone());
            }
            cur = doc
                .components
                .get(n)
                .ok_or_else(|| format!("{at}: dangling reference to {n}"))?;
            hops += 1;
            if hops > doc.components.len() + 1 {
                return Err(format!("{at}: unguarded reference cycle through {n}"));
            }
        }
        Ok(cur)
    }

    pub fn schema(&mut self, a: &'a S, b: &'a S, at: &str) -> R {
        let a = self.deref(a, self.imp, true, at)?;
        let b = self.deref(b, self.reff, false, at)?;
        let key = (a as *const S as usize, b as *const S as usize);
        if !self.visited.insert(key) {
            return Ok(());
        }
        match (a, b) {
            (S::Ref(x), S::Ref(y)) => ne(at, "$ref", x, y),
            (S::Ref(x), S::Node(_)) => Err(format!(
                "{at}: emitted a $ref to {x} where the reference has an inline schema"
            )),
            (S::Node(_), S::Ref(y)) => Err(format!(
                "{at}: emitted an inline schema where the reference has a $ref to {y}"
            )),
            (S::Node(x), S::Node(y)) => {
                if !x.extra.is_empty() {
                    return Err(format!("{at}: unexpected schema keys {:?}", x.extra));
                }
                ne(at, "description", &x.desc, &y.desc)?;
                ne(at, "title", &x.title, &y.title)?;
                match (&x.kind, &y.kind) {
                    (SK::Array(i), SK::Array(j)) => self.schema(i, j, &format!("{at}/items")),
                    (
                        SK::Object {
                            props: p,
                            required: r,
                        },
                        SK::Object {
                            props: q,
                            required: s,
                        },
                    ) => {
                        let mut p: Vec<&(String, S)> = p.iter().collect();
                        let mut q: Vec<&(String, S)> = q.iter().collect();
                        p.sort_by(|a, b| a.0.cmp(&b.0));
                        q.sort_by(|a, b| a.0.cmp(&b.0));
                        ne(
                            at,
                            "property names",
                            &p.iter().map(|x| &x.0).collect::<Vec<_>>(),
                            &q.iter().map(|x| &x.0).collect::<Vec<_>>(),
                        )?;
                        let (mut r, mut s) = (r.clone(), s.clone());
                        r.sort();
                        s.sort();
                        ne(at, "required", &r, &s)?;
                        for ((n, i), (_, j)) in p.iter().zip(q.iter()) {
                            self.schema(i, j, &format!("{at}/{n}"))?;
                        }
                        Ok(())
                    }
                    (SK::AllOf(i), SK::AllOf(j))
                    | (SK::OneOf(i), SK::OneOf(j))
                    | (SK::AnyOf(i), SK::AnyOf(j)) => {
                        ne(at, "number of alternatives", &i.len(), &j.len())?;
                        for (n, (i, j)) in i.iter().zip(j.iter()).enumerate() {
                            self.schema(i, j, &format!("{at}/{n}"))?;
                        }
                        Ok(())
                    }
                    (k, l) if std::mem::discriminant(k) == std::mem::discriminant(l) => {
                        ne(at, "schema", k, l)
                    }
                    (k, l) => Err(format!("{at}: schema kind: emitted {k:?}, reference {l:?}")),
                }
            }
        }
    }

    fn params(&mut self, a: &'a [Param], b: &'a [Param], at: &str) -> R {
        ne(
            at,
            "parameters (in, name, required, description)",
            &a.iter()
                .map(|p| (&p.loc, &p.name, p.required, &p.desc))
                .collect::<Vec<_>>(),
            &b.iter()
                .map(|p| (&p.loc, &p.name, p.required, &p.desc))
                .collect::<Vec<_>>(),
        )?;
        for (p, q) in a.iter().zip(b.iter()) {
            self.schema(&p.schema, &q.schema, &format!("{at}/param {}", p.name))?;
        }
        Ok(())
    }

    fn content(&mut self, a: &'a [(String, Media)], b: &'a [(String, Media)], at: &str) -> R {
        // Maps are compared without regard to key order (YAML mappings are unordered).
        let mut a: Vec<&'a (String, Media)> = a.iter().collect();
        let mut b: Vec<&'a (String, Media)> = b.iter().collect();
        a.sort_by(|x, y| x.0.cmp(&y.0));
        b.sort_by(|x, y| x.0.cmp(&y.0));
        ne(
            at,
            "media types",
            &a.iter().map(|m| &m.0).collect::<Vec<_>>(),
            &b.iter().map(|m| &m.0).collect::<Vec<_>>(),
        )?;
        for ((n, m), (_, k)) in a.iter().map(|x| (&x.0, &x.1)).zip(b.iter().map(|x| (&x.0, &x.1))) {
            let at = format!("{at}/{n}");
            let (mut ex, mut ey) = (m.examples.clone(), k.examples.clone());
            ex.sort();
            ey.sort();
            ne(&at, "examples", &ex, &ey)?;
            match (&m.schema, &k.schema) {
                (Some(x), Some(y)) => self.schema(x, y, &at)?,
                (None, None) => {}
                (x, y) => {
                    return Err(format!(
                        "{at}: schema presence: emitted {}, reference {}",
                        x.is_some(),
                        y.is_some()
                    ))
                }
            }
        }
        Ok(())
    }

    pub fn docs(&mut self) -> R {
        let (imp, reff) = (self.imp, self.reff);
        if !imp.extra.is_empty() {
            return Err(format!("unexpected keys in the emitted document: {:?}", imp.extra));
        }
        let mut ipaths: Vec<&'a (String, PathItem)> = imp.paths.iter().collect();
        let mut rpaths: Vec<&'a (String, PathItem)> = reff.paths.iter().collect();
        ipaths.sort_by(|x, y| x.0.cmp(&y.0));
        rpaths.sort_by(|x, y| x.0.cmp(&y.0));
        ne(
            "paths",
            "path keys",
            &ipaths.iter().map(|p| &p.0).collect::<Vec<_>>(),
            &rpaths.iter().map(|p| &p.0).collect::<Vec<_>>(),
        )?;
        for ((k, a), (_, b)) in ipaths.iter().map(|x| (&x.0, &x.1)).zip(rpaths.iter().map(|x| (&x.0, &x.1))) {
            self.params(&a.params, &b.params, k)?;
            ne(
                k,
                "methods",
                &a.ops.keys().collect::<Vec<_>>(),
                &b.ops.keys().collect::<Vec<_>>(),
            )?;
            for (m, x) in a.ops.iter() {
                let y = &b.ops[m];
                let at = format!("{m} {k}");
                ne(&at, "operationId", &x.id, &y.id)?;
                ne(&at, "summary", &x.summary, &y.summary)?;
                ne(&at, "description", &x.desc, &y.desc)?;
                ne(&at, "tags", &x.tags, &y.tags)?;
                self.params(&x.params, &y.params, &at)?;
                match (&x.body, &y.body) {
                    (Some(p), Some(q)) => {
                        ne(&at, "requestBody description", &p.desc, &q.desc)?;
                        self.content(&p.content, &q.content, &format!("{at} requestBody"))?;
                    }
                    (None, None) => {}
                    (p, q) => {
                        return Err(format!(
                            "{at}: requestBody presence: emitted {}, reference {}",
                            p.is_some(),
                            q.is_some()
                        ))
                    }
                }
                let mut xr: Vec<&'a (String, Response)> = x.responses.iter().collect();
                let mut yr: Vec<&'a (String, Response)> = y.responses.iter().collect();
                xr.sort_by(|p, q| p.0.cmp(&q.0));
                yr.sort_by(|p, q| p.0.cmp(&q.0));
                ne(
                    &at,
                    "response keys",
                    &xr.iter().map(|r| &r.0).collect::<Vec<_>>(),
                    &yr.iter().map(|r| &r.0).collect::<Vec<_>>(),
                )?;
                for ((rk, p), (_, q)) in xr.iter().map(|x| (&x.0, &x.1)).zip(yr.iter().map(|x| (&x.0, &x.1))) {
                    let at = format!("{at} response {rk}");
                    ne(&at, "description", &p.desc, &q.desc)?;
                    {
                        let mut hp: Vec<_> = p.headers.iter().map(|h| (&h.0, h.1.required, &h.1.desc)).collect();
                        let mut hq: Vec<_> = q.headers.iter().map(|h| (&h.0, h.1.required, &h.1.desc)).collect();
                        hp.sort();
                        hq.sort();
                        ne(&at, "headers (name, required, description)", &hp, &hq)?;
                    }
                    let mut ph: Vec<&'a (String, Header)> = p.headers.iter().collect();
                    let mut qh: Vec<&'a (String, Header)> = q.headers.iter().collect();
                    ph.sort_by(|a, b| a.0.cmp(&b.0));
                    qh.sort_by(|a, b| a.0.cmp(&b.0));
                    for ((hn, h), (_, g)) in ph.iter().map(|x| (&x.0, &x.1)).zip(qh.iter().map(|x| (&x.0, &x.1))) {
                        self.schema(&h.schema, &g.schema, &format!("{at} header {hn}"))?;
                    }
                    self.content(&p.content, &q.content, &at)?;
                }
            }
        }
        // Named components: same names, same bodies.
        let named = |d: &'a Doc| -> Vec<&'a String> {
            d.components.keys().filter(|k| !is_implicit(k)).collect()
        };
        ne("components", "@ component names", &named(imp), &named(reff))?;
        for n in named(imp) {
            let (a, b) = (&imp.components[n], &reff.components[n]);
            // A named component that is itself a bare $ref to another named one is legal.
            self.schema(a, b, &format!("components/{n}"))?;
        }
        // Nothing extra: every implicit component of the implementation is reachable.
        // (Reachability through implicit components themselves is closed by `deref`
        // being called during the unfolding.)
        for n in imp.components.keys().filter(|k| is_implicit(k)) {
            if !self.reached.contains(n) {
                return Err(format!("components/{n}: implicit component that nothing refers to"));
            }
        }
        Ok(())
    }
}

pub fn compare(imp: &Doc, reff: &Doc) -> Result<(), String> {
    Cmp::new(imp, reff).docs()
}

/// Number of implicit components that are duplicates up to unfolding is information only.
pub fn implicit_count(d: &Doc) -> usize {
    d.components.keys().filter(|k| is_implicit(k)).count()
}
