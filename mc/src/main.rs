mod explore;
mod props;
mod doc;
mod frags;
mod gen;
mod kinds;
mod lspdrv;
mod lspsweep;
mod pipeline;
mod refsem;
mod rewrite;
mod space;
mod textmodel;
mod tokspace;
mod validate;

use explore::{check_main, replay_main, worker_main, Engine, Tier};

fn engine(id: &str) -> Option<&'static dyn Engine> {
    props::all().into_iter().find(|e| e.id() == id)
}

fn usage() -> i32 {
    eprintln!("usage: oalmc check <Cnn> <quick|thorough> | oalmc replay <file> | oalmc list");
    2
}

fn main() {
    let args: Vec<String> = std::env::args().skip(1).collect();
    let code = match args.first().map(String::as_str) {
        Some("check") if args.len() >= 3 => match (engine(&args[1]), Tier::parse(&args[2])) {
            (Some(e), Some(t)) => check_main(e, t),
            _ => usage(),
        },
        Some("worker") if args.len() >= 9 => match engine(&args[1]) {
            Some(e) => worker_main(e, &args[2..]),
            None => usage(),
        },
        Some("replay") if args.len() >= 2 => {
            let body: Option<serde_json::Value> = std::fs::read_to_string(&args[1])
                .ok()
                .and_then(|s| serde_json::from_str(&s).ok());
            match body
                .as_ref()
                .and_then(|b| b["property"].as_str())
                .and_then(engine)
            {
                Some(e) => replay_main(e, &args[1]),
                None => {
                    eprintln!("oalmc: cannot read replay file or unknown property");
                    2
                }
            }
        }
        Some("list") => {
            for e in props::all() {
                println!("{} {}", e.id(), e.engine_name());
            }
            0
        }
        _ => usage(),
    };
    std::process::exit(code);
}
