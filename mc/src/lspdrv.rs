//! Synchronous JSON-RPC-over-stdio driver for the real `oal-lsp` binary.
//!
//! No async runtime: one child process, one thread that reads framed messages from the
//! child's stdout into a channel, one thread that keeps the tail of its stderr, and a
//! blocking `request` that waits on the channel with a timeout.
//!
//! Facts about the server that callers rely on (see `oal-client/src/bin/oal-lsp.rs`):
//!
//! * `initialize` must announce `capabilities.general.positionEncodings = ["utf-16"]` and
//!   the workspace folders; a folder is only accepted when it holds an `oal.toml`
//!   (`[api] main = "main.oal"`, `target = ...`). [`TempWorkspace`] creates such a folder.
//! * The server is single threaded and handles messages in order. It refreshes (re-evaluates
//!   the folders) and publishes diagnostics **before** it answers any request, so a request
//!   is a synchronisation point: when `request` returns, `last_diagnostics` holds everything
//!   the server had to say about the notifications sent before it.
//! * The same refresh also runs after 1 s without any message (idle timer). A caller that
//!   wants to be sure that the timer did not interleave checks `elapsed()` / `max_gap()`
//!   and re-runs a session that took longer than ~0.8 s.
//! * Any error returned by a handler (and any panic) terminates the server process; the
//!   driver reports that as `LspError::ServerDied` with the exit status, and
//!   `death_cause()` extracts a stable cause class from the captured stderr.
//!
//! * A request whose method the server does not know is dropped without any response
//!   (`request` then ends with `Timeout`); the server never sends error responses.
//!
//! Requests can be pipelined: `send_request` returns the id at once and `wait_response`
//! collects the answer later (answers arrive in order; those of other ids are kept).

#![allow(dead_code)]

use serde_json::{json, Value};
use std::collections::{BTreeMap, VecDeque};
use std::io::{BufRead, BufReader, Write};
use std::path::{Path, PathBuf};
use std::process::{Child, ChildStdin, Command, ExitStatus, Stdio};
use std::sync::atomic::{AtomicU64, Ordering};
use std::sync::mpsc::{self, Receiver, RecvTimeoutError};
use std::sync::{Arc, Mutex};
use std::time::{Duration, Instant};

/// Default location of the server binary (built by `/verif/check`).
pub const DEFAULT_OAL_LSP: &str = "/verif/.build/repo/debug/oal-lsp";

/// Path of the server binary: `$OAL_LSP` or the default.
pub fn server_path() -> PathBuf {
    std::env::var_os("OAL_LSP")
        .map(PathBuf::from)
        .unwrap_or_else(|| PathBuf::from(DEFAULT_OAL_LSP))
}

/// How the server process ended.
#[derive(Clone, Copy, Debug, PartialEq, Eq, Hash)]
pub struct ExitInfo {
    pub code: Option<i32>,
    pub signal: Option<i32>,
}

impl ExitInfo {
    fn of(st: ExitStatus) -> ExitInfo {
        use std::os::unix::process::ExitStatusExt;
        ExitInfo {
            code: st.code(),
            signal: st.signal(),
        }
    }
}

impl std::fmt::Display for ExitInfo {
    fn fmt(&self, f: &mut std::fmt::Formatter<'_>) -> std::fmt::Result {
        match (self.code, self.signal) {
            (Some(c), _) => write!(f, "exit code {c}"),
            (None, Some(s)) => write!(f, "signal {s}"),
            (None, None) => write!(f, "unknown exit status"),
        }
    }
}

#[derive(Clone, Debug, PartialEq, Eq)]
pub enum LspError {
    /// The server process ended (stdout reached end of file, or a write failed) before
    /// the awaited response arrived.
    ServerDied(ExitInfo),
    /// No response within the timeout; the server process is still running.
    Timeout,
    /// Malformed frame or JSON, an `error` response, or a failure to spawn.
    Protocol(String),
}

impl std::fmt::Display for LspError {
    fn fmt(&self, f: &mut std::fmt::Formatter<'_>) -> std::fmt::Result {
        match self {
            LspError::ServerDied(e) => write!(f, "server died ({e})"),
            LspError::Timeout => write!(f, "timeout"),
            LspError::Protocol(s) => write!(f, "protocol error: {s}"),
        }
    }
}

impl std::error::Error for LspError {}

pub type Result<T> = std::result::Result<T, LspError>;

/// One content change of a `textDocument/didChange` notification.
#[derive(Clone, Debug, PartialEq, Eq)]
pub enum Change {
    /// Replaces the whole document.
    Full(String),
    /// Replaces the UTF-16 range `(start line, start character, end line, end character)`.
    Range((u32, u32, u32, u32), String),
}

impl Change {
    fn to_json(&self) -> Value {
        match self {
            Change::Full(t) => json!({ "text": t }),
            Change::Range((sl, sc, el, ec), t) => json!({
                "range": {"start": {"line": sl, "character": sc}, "end": {"line": el, "character": ec}},
                "text": t,
            }),
        }
    }
}

enum Incoming {
    Message(Value),
    Malformed(String),
    Eof,
}

/// Reads one `Content-Length` framed message. `Ok(None)` = clean end of file.
fn read_frame(rd: &mut impl BufRead) -> std::result::Result<Option<Value>, String> {
    let mut len: Option<usize> = None;
    loop {
        let mut line = String::new();
        match rd.read_line(&mut line) {
            Ok(0) => return Ok(None),
            Ok(_) => {}
            Err(e) => return Err(format!("read error: {e}")),
        }
        let l = line.trim_end_matches(['\r', '\n']);
        if l.is_empty() {
            break;
        }
        if let Some((k, v)) = l.split_once(':') {
            if k.eq_ignore_ascii_case("content-length") {
                len = v.trim().parse().ok();
            }
        }
    }
    let n = len.ok_or_else(|| "frame without Content-Length".to_owned())?;
    let mut buf = vec![0u8; n];
    match rd.read_exact(&mut buf) {
        Ok(()) => {}
        Err(e) if e.kind() == std::io::ErrorKind::UnexpectedEof => return Ok(None),
        Err(e) => return Err(format!("read error: {e}")),
    }
    serde_json::from_slice(&buf)
        .map(Some)
        .map_err(|e| format!("malformed JSON body: {e}"))
}

/// A running `oal-lsp` process that has been initialized on one workspace folder.
pub struct LspServer {
    child: Child,
    stdin: Option<ChildStdin>,
    rx: Receiver<Incoming>,
    stderr_tail: Arc<Mutex<VecDeque<String>>>,
    stderr_thread: Option<std::thread::JoinHandle<()>>,
    folder: PathBuf,
    next_id: i64,
    versions: BTreeMap<String, i64>,
    /// Responses that arrived while another id was awaited.
    stash: BTreeMap<i64, Value>,
    /// Methods of the requests sent, by id (for reports).
    methods: BTreeMap<i64, String>,
    exit: Option<ExitInfo>,
    eof: bool,
    started: Instant,
    last_send: Instant,
    max_gap: Duration,
    /// Timeout of `request` / `wait_response` (default 5 s).
    pub timeout: Duration,
    /// Last `textDocument/publishDiagnostics` seen per URI: the `diagnostics` array.
    pub last_diagnostics: BTreeMap<String, Value>,
    /// Number of `publishDiagnostics` notifications seen.
    pub publications: u64,
    /// The `result` of `initialize` (server capabilities).
    pub capabilities: Value,
}

impl LspServer {
    /// Spawns the server (`$OAL_LSP`), and performs `initialize` / `initialized` with
    /// `folder` as the only workspace folder.
    pub fn start(folder: &Path) -> Result<LspServer> {
        Self::start_with(&server_path(), folder)
    }

    pub fn start_with(binary: &Path, folder: &Path) -> Result<LspServer> {
        // The server canonicalizes the path of oal.toml; URIs must be built from the same path.
        let folder = folder
            .canonicalize()
            .map_err(|e| LspError::Protocol(format!("workspace folder {folder:?}: {e}")))?;
        let mut child = Command::new(binary)
            .env_remove("RUST_BACKTRACE")
            .stdin(Stdio::piped())
            .stdout(Stdio::piped())
            .stderr(Stdio::piped())
            .spawn()
            .map_err(|e| LspError::Protocol(format!("cannot spawn {binary:?}: {e}")))?;
        let stdin = child.stdin.take();
        let stdout = child.stdout.take().unwrap();
        let stderr = child.stderr.take().unwrap();
        let (tx, rx) = mpsc::channel();
        std::thread::spawn(move || {
            let mut rd = BufReader::new(stdout);
            loop {
                let item = match read_frame(&mut rd) {
                    Ok(Some(v)) => Incoming::Message(v),
                    Ok(None) => Incoming::Eof,
                    Err(e) => Incoming::Malformed(e),
                };
                let last = !matches!(item, Incoming::Message(_));
                if tx.send(item).is_err() || last {
                    return;
                }
            }
        });
        let stderr_tail = Arc::new(Mutex::new(VecDeque::new()));
        let stderr_thread = {
            let tail = stderr_tail.clone();
            std::thread::spawn(move || {
                let rd = BufReader::new(stderr);
                for line in rd.split(b'\n') {
                    let Ok(line) = line else { break };
                    let line = String::from_utf8_lossy(&line).into_owned();
                    let mut t = tail.lock().unwrap();
                    if t.len() >= 40 {
                        t.pop_front();
                    }
                    t.push_back(line);
                }
            })
        };
        let now = Instant::now();
        let mut srv = LspServer {
            child,
            stdin,
            rx,
            stderr_tail,
            stderr_thread: Some(stderr_thread),
            folder,
            next_id: 0,
            versions: BTreeMap::new(),
            stash: BTreeMap::new(),
            methods: BTreeMap::new(),
            exit: None,
            eof: false,
            started: now,
            last_send: now,
            max_gap: Duration::ZERO,
            timeout: Duration::from_secs(5),
            last_diagnostics: BTreeMap::new(),
            publications: 0,
            capabilities: Value::Null,
        };
        let folder_uri = srv.folder_uri();
        let init = srv.request(
            "initialize",
            json!({
                "processId": null,
                "rootUri": null,
                "capabilities": {"general": {"positionEncodings": ["utf-16"]}},
                "workspaceFolders": [{"uri": folder_uri, "name": "w"}],
            }),
        )?;
        srv.capabilities = init;
        srv.notify("initialized", json!({}))?;
        // The session clock starts once the server is ready.
        srv.started = Instant::now();
        srv.last_send = srv.started;
        srv.max_gap = Duration::ZERO;
        Ok(srv)
    }

    // ----- addressing ------------------------------------------------------------------

    pub fn folder(&self) -> &Path {
        &self.folder
    }

    /// `file://<folder>` without a trailing slash.
    pub fn folder_uri(&self) -> String {
        // percent-encoded the way the `url` crate (hence the server) writes it
        url::Url::from_directory_path(&self.folder)
            .map(|u| u.to_string().trim_end_matches('/').to_owned())
            .unwrap_or_else(|_| format!("file://{}", self.folder.display()))
    }

    /// URI of a file of the workspace folder (relative name, `/`-separated).
    pub fn uri(&self, file: &str) -> String {
        format!("{}/{}", self.folder_uri(), file)
    }

    /// Inverse of `uri` for URIs inside the folder; other URIs are returned unchanged.
    pub fn relative<'a>(&self, uri: &'a str) -> &'a str {
        uri.strip_prefix(self.folder_uri().as_str())
            .and_then(|r| r.strip_prefix('/'))
            .unwrap_or(uri)
    }

    /// Name of the file of a URI relative to the workspace folder, with leading `../` for
    /// files outside the folder (the inverse of `uri` up to normalisation of dot segments).
    pub fn relative_path(&self, uri: &str) -> String {
        let inside = self.relative(uri);
        if inside != uri {
            return inside.to_owned();
        }
        let Some(path) = uri.strip_prefix("file://") else { return uri.to_owned() };
        let folder = self.folder_uri().strip_prefix("file://").unwrap_or_default().to_owned();
        let f: Vec<&str> = folder.split('/').filter(|s| !s.is_empty()).collect();
        let t: Vec<&str> = path.split('/').filter(|s| !s.is_empty()).collect();
        let mut common = 0;
        while common < f.len() && common + 1 < t.len() && f[common] == t[common] {
            common += 1;
        }
        let mut out = String::new();
        for _ in common..f.len() {
            out.push_str("../");
        }
        out.push_str(&t[common..].join("/"));
        out
    }

    // ----- timing ----------------------------------------------------------------------

    /// Wall time since the end of the initialize handshake.
    pub fn elapsed(&self) -> Duration {
        self.started.elapsed()
    }

    /// Longest pause so far between two consecutive client messages (including the time
    /// since the last one). The idle refresh can only have run if this reaches 1 s.
    pub fn max_gap(&self) -> Duration {
        self.max_gap.max(self.last_send.elapsed())
    }

    /// Sleeps (used to let the 1 s idle refresh of the server run).
    pub fn idle(&mut self, d: Duration) {
        std::thread::sleep(d);
    }

    // ----- raw messages ----------------------------------------------------------------

    fn send(&mut self, msg: &Value) -> Result<()> {
        let now = Instant::now();
        self.max_gap = self.max_gap.max(now - self.last_send);
        self.last_send = now;
        let body = serde_json::to_vec(msg).unwrap();
        let mut frame = format!("Content-Length: {}\r\n\r\n", body.len()).into_bytes();
        frame.extend_from_slice(&body);
        let res = match self.stdin.as_mut() {
            Some(w) => w.write_all(&frame).and_then(|_| w.flush()),
            None => Err(std::io::ErrorKind::BrokenPipe.into()),
        };
        match res {
            Ok(()) => Ok(()),
            Err(_) => {
                // EPIPE: the server closed its stdin, i.e. it is exiting or gone.
                self.stdin = None;
                Err(self.died())
            }
        }
    }

    /// Sends a notification. A failure means the server is gone (`ServerDied`).
    pub fn notify(&mut self, method: &str, params: Value) -> Result<()> {
        self.send(&json!({"jsonrpc": "2.0", "method": method, "params": params}))
    }

    /// Sends a request without waiting for its response; returns its id.
    pub fn send_request(&mut self, method: &str, params: Value) -> Result<i64> {
        self.next_id += 1;
        let id = self.next_id;
        self.methods.insert(id, method.to_owned());
        self.send(&json!({"jsonrpc": "2.0", "id": id, "method": method, "params": params}))?;
        Ok(id)
    }

    /// Method of a request that was sent with the given id.
    pub fn method_of(&self, id: i64) -> Option<&str> {
        self.methods.get(&id).map(String::as_str)
    }

    /// Reads messages until the response with the given id arrives (or the timeout
    /// expires, or the server ends). Diagnostics seen on the way are recorded. Returns the
    /// `result` member; an `error` response is a `Protocol` error.
    pub fn wait_response(&mut self, id: i64) -> Result<Value> {
        let deadline = Instant::now() + self.timeout;
        loop {
            if let Some(resp) = self.stash.remove(&id) {
                return match resp.get("error") {
                    Some(e) if !e.is_null() => Err(LspError::Protocol(format!("error response: {e}"))),
                    _ => Ok(resp.get("result").cloned().unwrap_or(Value::Null)),
                };
            }
            if self.eof {
                return Err(self.died());
            }
            let left = deadline.saturating_duration_since(Instant::now());
            match self.rx.recv_timeout(left) {
                Ok(Incoming::Message(m)) => self.dispatch(m),
                Ok(Incoming::Malformed(e)) => {
                    self.eof = true;
                    return Err(LspError::Protocol(e));
                }
                Ok(Incoming::Eof) | Err(RecvTimeoutError::Disconnected) => {
                    self.eof = true;
                    return Err(self.died());
                }
                Err(RecvTimeoutError::Timeout) => {
                    return match self.child.try_wait() {
                        Ok(Some(st)) => {
                            self.exit = Some(ExitInfo::of(st));
                            Err(LspError::ServerDied(self.exit.unwrap()))
                        }
                        _ => Err(LspError::Timeout),
                    };
                }
            }
        }
    }

    /// Sends a request and waits for its response.
    pub fn request(&mut self, method: &str, params: Value) -> Result<Value> {
        let id = self.send_request(method, params)?;
        self.wait_response(id)
    }

    /// Processes the messages that are already in the channel, without blocking.
    pub fn drain(&mut self) {
        while let Ok(item) = self.rx.try_recv() {
            match item {
                Incoming::Message(m) => self.dispatch(m),
                _ => self.eof = true,
            }
        }
    }

    fn dispatch(&mut self, m: Value) {
        let method = m.get("method").and_then(Value::as_str).map(str::to_owned);
        let id = m.get("id").cloned().filter(|v| !v.is_null());
        match (method, id) {
            (Some(method), None) => {
                if method == "textDocument/publishDiagnostics" {
                    let p = &m["params"];
                    if let Some(uri) = p["uri"].as_str() {
                        self.publications += 1;
                        self.last_diagnostics
                            .insert(uri.to_owned(), p["diagnostics"].clone());
                    }
                }
            }
            (Some(_), Some(id)) => {
                // A request of the server to the client: none is supported.
                let _ = self.send(&json!({"jsonrpc": "2.0", "id": id,
                    "error": {"code": -32601, "message": "method not found"}}));
            }
            (None, Some(id)) => {
                if let Some(i) = id.as_i64() {
                    self.stash.insert(i, m);
                }
            }
            (None, None) => {}
        }
    }

    /// The server is gone or going: collect its exit status (bounded wait).
    fn died(&mut self) -> LspError {
        if let Some(e) = self.exit {
            return LspError::ServerDied(e);
        }
        let t0 = Instant::now();
        loop {
            match self.child.try_wait() {
                Ok(Some(st)) => {
                    self.exit = Some(ExitInfo::of(st));
                    return LspError::ServerDied(self.exit.unwrap());
                }
                Ok(None) if t0.elapsed() < Duration::from_secs(2) => {
                    std::thread::sleep(Duration::from_millis(2));
                }
                _ => {
                    // Closed its pipes but does not exit: treat as dead, reap it.
                    let _ = self.child.kill();
                    let info = self
                        .child
                        .wait()
                        .map(ExitInfo::of)
                        .unwrap_or(ExitInfo { code: None, signal: None });
                    self.exit = Some(info);
                    return LspError::ServerDied(info);
                }
            }
        }
    }

    // ----- document synchronisation ----------------------------------------------------

    fn next_version(&mut self, file: &str) -> i64 {
        let v = self.versions.entry(file.to_owned()).or_insert(0);
        *v += 1;
        *v
    }

    /// `textDocument/didOpen`.
    pub fn open(&mut self, file: &str, text: &str) -> Result<()> {
        // Versions are numbered per open session of a document, as editors do: a document
        // that is closed and opened again starts at 1 again.
        self.versions.insert(file.to_owned(), 0);
        let version = self.next_version(file);
        let uri = self.uri(file);
        self.notify(
            "textDocument/didOpen",
            json!({"textDocument": {"uri": uri, "languageId": "oal", "version": version, "text": text}}),
        )
    }

    /// `textDocument/didChange` with a batch of content changes (applied in order; the
    /// positions of each change refer to the text produced by the previous one).
    pub fn change(&mut self, file: &str, changes: &[Change]) -> Result<()> {
        let version = self.next_version(file);
        let uri = self.uri(file);
        let changes: Vec<Value> = changes.iter().map(Change::to_json).collect();
        self.notify(
            "textDocument/didChange",
            json!({"textDocument": {"uri": uri, "version": version}, "contentChanges": changes}),
        )
    }

    /// `textDocument/didChange` replacing the whole text.
    pub fn change_full(&mut self, file: &str, text: &str) -> Result<()> {
        self.change(file, &[Change::Full(text.to_owned())])
    }

    /// `textDocument/didChange` replacing one UTF-16 range `(sl, sc, el, ec)`.
    pub fn change_range(&mut self, file: &str, range: (u32, u32, u32, u32), text: &str) -> Result<()> {
        self.change(file, &[Change::Range(range, text.to_owned())])
    }

    /// `textDocument/didClose`.
    pub fn close(&mut self, file: &str) -> Result<()> {
        let uri = self.uri(file);
        self.notify("textDocument/didClose", json!({"textDocument": {"uri": uri}}))
    }

    // ----- language features -----------------------------------------------------------

    /// Parameters of a position request (`extra` members are merged in).
    pub fn position_params(&self, file: &str, line: u32, character: u32, extra: Value) -> Value {
        let mut p = json!({
            "textDocument": {"uri": self.uri(file)},
            "position": {"line": line, "character": character},
        });
        if let (Some(o), Some(e)) = (p.as_object_mut(), extra.as_object()) {
            for (k, v) in e {
                o.insert(k.clone(), v.clone());
            }
        }
        p
    }

    pub fn definition(&mut self, file: &str, line: u32, character: u32) -> Result<Value> {
        let p = self.position_params(file, line, character, Value::Null);
        self.request("textDocument/definition", p)
    }

    /// References, declaration included.
    pub fn references(&mut self, file: &str, line: u32, character: u32) -> Result<Value> {
        let p = self.position_params(
            file,
            line,
            character,
            json!({"context": {"includeDeclaration": true}}),
        );
        self.request("textDocument/references", p)
    }

    pub fn prepare_rename(&mut self, file: &str, line: u32, character: u32) -> Result<Value> {
        let p = self.position_params(file, line, character, Value::Null);
        self.request("textDocument/prepareRename", p)
    }

    pub fn rename(&mut self, file: &str, line: u32, character: u32, new_name: &str) -> Result<Value> {
        let p = self.position_params(file, line, character, json!({"newName": new_name}));
        self.request("textDocument/rename", p)
    }

    /// A cheap request used only as a synchronisation point (the answer is discarded):
    /// on return every notification sent so far has been processed and the resulting
    /// diagnostics are in `last_diagnostics`. Asks for the definition at 0:0 of `main.oal`,
    /// the main module of a [`TempWorkspace`].
    pub fn sync(&mut self) -> Result<()> {
        self.sync_on("main.oal")
    }

    /// Same, on a file of the caller's choice (it must exist on disk or be open: a request
    /// on an unreadable file terminates the server).
    pub fn sync_on(&mut self, file: &str) -> Result<()> {
        self.definition(file, 0, 0).map(|_| ())
    }

    /// Diagnostics last published for a file of the folder (`None` = never published).
    pub fn diagnostics_of(&self, file: &str) -> Option<&Value> {
        self.last_diagnostics.get(&self.uri(file))
    }

    // ----- liveness --------------------------------------------------------------------

    /// True while the server process is running.
    pub fn is_alive(&mut self) -> bool {
        if self.exit.is_some() {
            return false;
        }
        match self.child.try_wait() {
            Ok(Some(st)) => {
                self.exit = Some(ExitInfo::of(st));
                false
            }
            Ok(None) => true,
            Err(_) => false,
        }
    }

    /// Exit status if the process has ended.
    pub fn exit_info(&mut self) -> Option<ExitInfo> {
        self.is_alive();
        self.exit
    }

    /// The last lines the server wrote to stderr (log and panic messages).
    pub fn stderr_tail(&self) -> Vec<String> {
        self.stderr_tail.lock().unwrap().iter().cloned().collect()
    }

    /// A stable description of why the server ended, taken from its stderr: the panic
    /// site and message (`panic <file> "<message>"`, no line numbers), or the error the
    /// main loop returned (`error "<first words>"`), or the bare exit status.
    pub fn death_cause(&mut self) -> String {
        let exit = self.exit_info();
        if exit.is_some() {
            // The process is gone, so its stderr is at end of file: wait for the last lines.
            if let Some(h) = self.stderr_thread.take() {
                let _ = h.join();
            }
        }
        let tail = self.stderr_tail();
        for (i, l) in tail.iter().enumerate() {
            if let Some(p) = l.find("panicked at ") {
                let site = l[p + "panicked at ".len()..].trim_end_matches(':');
                // "<file>:<line>:<col>" -> "<file>"
                let file = site.split(':').next().unwrap_or(site);
                let file = match file.find("/oal-") {
                    Some(k) => &file[k + 1..],
                    None => match file.find("/registry/src/") {
                        Some(k) => {
                            let rest = &file[k + "/registry/src/".len()..];
                            rest.split_once('/').map(|(_, r)| r).unwrap_or(rest)
                        }
                        None => file,
                    },
                };
                let msg: String = tail
                    .get(i + 1)
                    .map(|m| m.chars().take_while(|c| *c != ':').take(60).collect())
                    .unwrap_or_default();
                return format!("panic {file} \"{msg}\"");
            }
        }
        for l in tail.iter() {
            if let Some(rest) = l.strip_prefix("Error: ") {
                let msg: String = rest.chars().take_while(|c| *c != ':').take(60).collect();
                return format!("error \"{msg}\"");
            }
        }
        match exit {
            Some(e) => format!("{e}"),
            None => "still running".into(),
        }
    }

    /// Kills the server and reaps it. Idempotent; never leaves a zombie.
    pub fn shutdown(&mut self) -> Option<ExitInfo> {
        self.stdin = None;
        // `kill` is a no-op for a process that was already reaped; `wait` then returns
        // the status it ended with.
        let _ = self.child.kill();
        if let Ok(st) = self.child.wait() {
            if self.exit.is_none() {
                self.exit = Some(ExitInfo::of(st));
            }
        }
        self.exit
    }
}

impl Drop for LspServer {
    fn drop(&mut self) {
        self.stdin = None;
        let _ = self.child.kill();
        let _ = self.child.wait();
    }
}

// ---------------------------------------------------------------------------
// Temporary workspace folders

static WS_COUNTER: AtomicU64 = AtomicU64::new(0);
const WS_PARENT: &str = "/var/tmp";
const WS_PREFIX: &str = "oalmc-ws-";

/// Content of the `oal.toml` written into every temporary workspace.
pub const OAL_TOML: &str = "[api]\nmain = \"main.oal\"\ntarget = \"openapi.yaml\"\n";

/// A workspace folder `/var/tmp/oalmc-ws-<pid>-<n>` holding `oal.toml` and the given
/// files; removed when dropped. The first folder created by a process also removes the
/// folders left behind by processes that no longer exist (workers killed by a watchdog).
pub struct TempWorkspace {
    path: PathBuf,
}

impl TempWorkspace {
    /// `files`: (relative name, content).
    pub fn new(files: &[(&str, &str)]) -> std::io::Result<TempWorkspace> {
        let n = WS_COUNTER.fetch_add(1, Ordering::SeqCst);
        if n == 0 {
            sweep_stale_workspaces();
        }
        // a blank and a non-ASCII letter in the name: every path and URI of the session needs
        // percent-encoding and decoding
        let path = PathBuf::from(format!("{WS_PARENT}/{WS_PREFIX}{}-{n} \u{e9}", std::process::id()));
        let _ = std::fs::remove_dir_all(&path);
        std::fs::create_dir_all(&path)?;
        let ws = TempWorkspace { path };
        std::fs::write(ws.path.join("oal.toml"), OAL_TOML)?;
        for (name, content) in files {
            ws.write(name, content)?;
        }
        Ok(ws)
    }

    pub fn path(&self) -> &Path {
        &self.path
    }

    /// Writes (or overwrites) a file of the folder.
    pub fn write(&self, name: &str, content: &str) -> std::io::Result<()> {
        let p = self.path.join(name);
        if let Some(dir) = p.parent() {
            std::fs::create_dir_all(dir)?;
        }
        std::fs::write(p, content)
    }
}

impl Drop for TempWorkspace {
    fn drop(&mut self) {
        let _ = std::fs::remove_dir_all(&self.path);
    }
}

/// Removes `/var/tmp/oalmc-ws-<pid>-*` whose process is gone.
pub fn sweep_stale_workspaces() {
    let Ok(rd) = std::fs::read_dir(WS_PARENT) else { return };
    for e in rd.flatten() {
        let name = e.file_name();
        let Some(name) = name.to_str() else { continue };
        let Some(rest) = name.strip_prefix(WS_PREFIX) else { continue };
        let Some((pid, _)) = rest.split_once('-') else { continue };
        let Ok(pid) = pid.parse::<u32>() else { continue };
        if pid != std::process::id() && !Path::new(&format!("/proc/{pid}")).exists() {
            let _ = std::fs::remove_dir_all(e.path());
        }
    }
}
