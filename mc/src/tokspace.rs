//! Shared enumerators of the `tokspace` engines (C04, C11, C12).
//!
//! Everything here is deterministic and index-addressable: a *text space* has a length
//! and a function from an index to a text, simplest texts first, so that worker `s` of
//! `W` can jump straight to the indices `i % W == s` and a crashed case can be re-rendered
//! from its index alone.
//!
//! Spaces
//!  * `seq`    all sequences of exactly `len` symbols over a token alphabet joined by one
//!             space (full alphabet: one spelling per `TokenKind`, 54 symbols; reduced
//!             grammar alphabets of 18 and 25 symbols),
//!  * `chars`  all strings of exactly `len` characters over the character alphabet,
//!  * `embed`  the same strings placed inside a string literal, a block comment, a line
//!             comment, a line annotation, an inline annotation and between two tokens of
//!             a valid program,
//!  * `corpus` the corpus of valid programs verbatim and re-rendered token by token,
//!  * `mut`    all token-level mutants of the corpus with exactly 1 or 2 deviations
//!             (delete, duplicate, swap neighbours, replace by each alphabet token, at
//!             every site),
//!  * `nest`   the parametric nesting families at the depths of the tier.

use crate::explore::{Outcome, Sink};
use serde_json::{json, Value};
use std::sync::OnceLock;

// ---------------------------------------------------------------------------
// Alphabets

/// One spelling per `TokenKind`, in the order of the enum.
pub const TOKENS: [&str; 54] = [
    " ", "// c\n", "/* c */", "num", "str", "uri", "bool", "int", "/", "/a", "get", "put", "post",
    "patch", "delete", "options", "head", "media", "headers", "status", "let", "res", "use", "as",
    "on", "rec", "a", "@r", "1", "\"s\"", "2XX", "'p", "{", "}", "(", ")", "[", "]", "<", ">", ";",
    ".", ",", "!", "?", "&", "~", "|", "=", ":", "::", "->", "# k: v\n", "`k: v`",
];

/// Reduced grammar alphabet (quick): the 16 symbols of the design plus `>` (without it no
/// content can be closed) and `/` (the only URI and hence the only way to a resource).
pub const REDUCED18: [&str; 18] = [
    "let", "res", "a", "=", ";", "(", ")", "{", "}", "'p", "num", ",", "|", "->", "get", "<", ">",
    "/",
];

/// Reduced grammar alphabet (thorough).
pub const REDUCED25: [&str; 25] = [
    "let", "res", "a", "=", ";", "(", ")", "{", "}", "'p", "num", ",", "|", "->", "get", "<", ">",
    "[", "]", "/", "on", "rec", "::", "use", "\"s\"",
];

/// Character alphabet (quick): lexer corners — unterminated string / comment / annotation,
/// `1X`, `2XXX`, `/é`, `->`, CR/LF, multi-byte characters of 2, 3 and 4 bytes.
pub const CHARS18: [char; 18] = [
    'a', '1', '"', '\'', '/', '*', '@', '#', '`', '-', '>', 'X', '\n', '\r', ' ', 'é', '€', '😉',
];

/// Character alphabet (thorough): plus TAB, NUL, BOM, LINE SEPARATOR, a combining mark.
pub const CHARS23: [char; 23] = [
    'a', '1', '"', '\'', '/', '*', '@', '#', '`', '-', '>', 'X', '\n', '\r', ' ', 'é', '€', '😉',
    '\t', '\0', '\u{FEFF}', '\u{2028}', '\u{0301}',
];

fn token_alphabet(name: &str) -> &'static [&'static str] {
    match name {
        "full54" => &TOKENS,
        "reduced18" => &REDUCED18,
        "reduced25" => &REDUCED25,
        _ => panic!("unknown token alphabet {name}"),
    }
}

fn char_alphabet(name: &str) -> &'static [char] {
    match name {
        "chars18" => &CHARS18,
        "chars23" => &CHARS23,
        _ => panic!("unknown character alphabet {name}"),
    }
}

fn pow(base: usize, exp: usize) -> u64 {
    (base as u64).checked_pow(exp as u32).expect("space too large")
}

/// The `idx`-th sequence of `len` symbols (lexicographic, most significant first).
fn digits(base: usize, len: usize, mut idx: u64) -> Vec<usize> {
    let mut d = vec![0usize; len];
    for k in (0..len).rev() {
        d[k] = (idx % base as u64) as usize;
        idx /= base as u64;
    }
    d
}

pub fn seq_text(alphabet: &[&str], len: usize, idx: u64) -> String {
    let mut s = String::new();
    for (k, d) in digits(alphabet.len(), len, idx).into_iter().enumerate() {
        if k > 0 {
            s.push(' ');
        }
        s.push_str(alphabet[d]);
    }
    s
}

pub fn chars_text(alphabet: &[char], len: usize, idx: u64) -> String {
    digits(alphabet.len(), len, idx)
        .into_iter()
        .map(|d| alphabet[d])
        .collect()
}

// ---------------------------------------------------------------------------
// Embedding contexts (C11)

/// (name, text before the hole, text after the hole)
pub const EMBED_CONTEXTS: [(&str, &str, &str); 8] = [
    ("string literal", "let a = \"", "\";\nlet b = a;"),
    ("block comment", "let a = num; /*", "*/ let b = a;"),
    ("line comment", "let a = num; //", "\nlet b = a;"),
    ("line annotation", "#", "\nlet a = num;\nres / on get -> <a>;"),
    ("inline annotation", "let a = num `", "`;\nres / on get -> <a>;"),
    ("between two tokens", "let a =", "num;"),
    ("start of the text", "", "let a = num;\nlet b = a;"),
    ("end of the text", "let a = num;\nlet b = a;", ""),
];

// ---------------------------------------------------------------------------
// Reference splitter (independent of the subject's lexer; used to cut the corpus into
// tokens for the mutants, and compared with the real lexer by C11)

#[derive(Clone, Copy, Debug, PartialEq, Eq)]
pub struct Piece {
    pub start: usize,
    pub end: usize,
    pub trivia: bool,
}

fn is_ident_char(c: u8) -> bool {
    c.is_ascii_alphanumeric() || c == b'$' || c == b'_' || c == b'-'
}

fn is_seg_char(c: u8) -> bool {
    c.is_ascii_alphanumeric() || matches!(c, b'%' | b'~' | b'_' | b'.' | b'-')
}

/// Splits a *lexically valid ASCII-punctuated* program into token pieces with the
/// maximal-munch rules of the language. Returns `None` on anything it does not know
/// (unterminated literal, stray character): the corpus must not contain such texts.
pub fn ref_split(text: &str) -> Option<Vec<Piece>> {
    let b = text.as_bytes();
    let n = b.len();
    let mut i = 0;
    let mut out = Vec::new();
    while i < n {
        let c = b[i];
        let start = i;
        let mut trivia = false;
        if matches!(c, b' ' | b'\t' | b'\r' | b'\n') {
            while i < n && matches!(b[i], b' ' | b'\t' | b'\r' | b'\n') {
                i += 1;
            }
            trivia = true;
        } else if c == b'/' && i + 1 < n && b[i + 1] == b'/' {
            while i < n && b[i] != b'\n' && b[i] != b'\r' {
                i += 1;
            }
            while i < n && (b[i] == b'\n' || b[i] == b'\r') {
                i += 1;
            }
            trivia = true;
        } else if c == b'/' && i + 1 < n && b[i + 1] == b'*' {
            let close = text[i + 2..].find("*/")?;
            i = i + 2 + close + 2;
            trivia = true;
        } else if c == b'#' {
            while i < n && b[i] != b'\n' && b[i] != b'\r' {
                i += 1;
            }
            while i < n && (b[i] == b'\n' || b[i] == b'\r') {
                i += 1;
            }
        } else if c == b'"' || c == b'`' {
            let close = text[i + 1..].find(c as char)?;
            i = i + 1 + close + 1;
        } else if c == b'/' {
            i += 1;
            while i < n && is_seg_char(b[i]) {
                i += 1;
            }
        } else if c == b'\'' {
            i += 1;
            let s = i;
            while i < n && (is_ident_char(b[i]) || b[i] == b'@') {
                i += 1;
            }
            if i == s {
                return None;
            }
        } else if c == b'@' {
            i += 1;
            let s = i;
            while i < n && is_ident_char(b[i]) {
                i += 1;
            }
            if i == s {
                return None;
            }
        } else if c.is_ascii_digit() {
            if (b'1'..=b'5').contains(&c) && i + 2 < n && b[i + 1] == b'X' && b[i + 2] == b'X' {
                i += 3;
            } else {
                while i < n && b[i].is_ascii_digit() {
                    i += 1;
                }
            }
        } else if c.is_ascii_alphabetic() || c == b'_' {
            while i < n && is_ident_char(b[i]) {
                i += 1;
            }
        } else if c == b':' && i + 1 < n && b[i + 1] == b':' {
            i += 2;
        } else if c == b'-' && i + 1 < n && b[i + 1] == b'>' {
            i += 2;
        } else if b"{}()[]<>;.,!?&~|=:".contains(&c) {
            i += 1;
        } else {
            return None;
        }
        out.push(Piece {
            start,
            end: i,
            trivia,
        });
    }
    Some(out)
}

// ---------------------------------------------------------------------------
// Corpus

/// Small valid programs, together covering every production of the grammar.
pub const SMALL_PROGRAMS: [&str; 50] = [
    "let a = num;",
    "res /;",
    "let a = str; let b = a;",
    "let a = bool; let b = int; let c = uri;",
    "let a = \"s\";",
    "let a = 404;",
    "let a = 4XX;",
    "let @r = {};",
    "let a = [str];",
    "let a = (num);",
    "let a = 'q str;",
    "let a = 'q! str; let b = 'r? num;",
    "let a = { 'p num, 'q! str, 'r? bool };",
    "let a = /;",
    "let a = /a/b;",
    "let a = /x/{ 'y str }/z?{ 'q str, 'n num };",
    "let a = num | str;",
    "let a = {} & { 'p num };",
    "let a = {} ~ uri ~ bool;",
    "let a = <>;",
    "let a = <{}>;",
    "let a = <status=204>;",
    "let a = <media=\"application/json\", status=200, headers={ 'h str }, {}>;",
    "let a = <status=4XX, {}> :: <status=200, {}> :: <>;",
    "let a = <media=\"a/b\", str> :: <media=\"c/d\", num>;",
    "let a = get -> {};",
    "let a = get, put { 'q str } : {} -> <{}> :: <{}>;",
    "let a = /p on put : <{}> -> <{}>;",
    "let a = ('p str) !; let b = { ('q num) ? };",
    "let a = rec x { 'n num, 'c [x] };",
    "let f x y = x | y; let a = f num str;",
    "let @r = {}; res / on get -> <@r>;",
    "res / on get -> <>;",
    "res / on get -> <>, put : {} -> <>;",
    "res /a on delete -> <>; res /b on post : {} -> <status=201, {}>;",
    "res / on patch, options, head -> <>;",
    "res /?{ 'q! str } on get -> <>;",
    "use \"m.oal\"; res /;",
    "use \"m.oal\" as m; let a = m.b;",
    "let a = num; use \"m.oal\"; res /;",
    "res /; use \"m.oal\" as m; let a = m.b;",
    "# description: \"d\"\nlet a = num;",
    "let a = num `title: \"t\"`;",
    "let a = {\n  # description: \"d\"\n  'p! num `minimum: 0`\n};",
    "// c\nlet a = num; /* c */",
    "let r = / on get -> <>; res r;",
    "let f x = x; let a = f\n# description: \"d\"\n[num];",
    "let g x y = x; res / on get -> <g\n  # title: \"t\"\n  { 'p num }\n  # title: \"u\"\n  str>;",
    "let g x = x; let f y = g y; res / on get -> <f str>;",
    "let a = { 'b b }; let b = { 'a a }; let h = 'Location uri; res / on get : a -> <status=3XX, headers={ h }>;",
];

pub const EXAMPLE_MAIN: &str = include_str!("/repo/examples/main.oal");
pub const EXAMPLE_MODULE: &str = include_str!("/repo/examples/module.oal");

#[derive(Clone, Debug)]
pub struct Prog {
    pub name: String,
    pub text: String,
    /// Trivia before the first token.
    pub prefix: String,
    /// (token text, separator after it — at least one blank unless it is the last token)
    pub toks: Vec<(String, String)>,
}

impl Prog {
    fn new(name: &str, text: &str) -> Prog {
        let pieces = ref_split(text).unwrap_or_else(|| panic!("corpus program {name} not splittable"));
        let mut prefix = String::new();
        let mut toks: Vec<(String, String)> = Vec::new();
        for p in pieces {
            let s = &text[p.start..p.end];
            if p.trivia {
                match toks.last_mut() {
                    Some(t) => t.1.push_str(s),
                    None => prefix.push_str(s),
                }
            } else {
                toks.push((s.to_owned(), String::new()));
            }
        }
        let n = toks.len();
        for (i, t) in toks.iter_mut().enumerate() {
            if t.1.is_empty() && i + 1 < n {
                t.1.push(' ');
            }
        }
        Prog {
            name: name.to_owned(),
            text: text.to_owned(),
            prefix,
            toks,
        }
    }
}

pub fn render(prefix: &str, toks: &[(String, String)]) -> String {
    let mut s = String::with_capacity(prefix.len() + toks.iter().map(|t| t.0.len() + t.1.len()).sum::<usize>());
    s.push_str(prefix);
    for (t, sep) in toks {
        s.push_str(t);
        s.push_str(sep);
    }
    s
}

/// The corpus, smallest programs first (by number of tokens, then by text).
pub fn corpus() -> &'static Vec<Prog> {
    static C: OnceLock<Vec<Prog>> = OnceLock::new();
    C.get_or_init(|| {
        let mut v: Vec<Prog> = SMALL_PROGRAMS
            .iter()
            .enumerate()
            .map(|(i, t)| Prog::new(&format!("small-{i:02}"), t))
            .collect();
        v.push(Prog::new("examples/module.oal", EXAMPLE_MODULE));
        v.push(Prog::new("examples/main.oal", EXAMPLE_MAIN));
        v.sort_by(|a, b| (a.toks.len(), &a.text).cmp(&(b.toks.len(), &b.text)));
        v
    })
}

// ---------------------------------------------------------------------------
// Token-level deviations

#[derive(Clone, Copy, Debug, PartialEq, Eq)]
pub enum Dev {
    Delete(usize),
    Duplicate(usize),
    Swap(usize),
    Replace(usize, usize),
}

/// Number of single deviations of a list of `t` tokens.
pub fn n_dev(t: usize) -> u64 {
    if t == 0 {
        0
    } else {
        (t + t + (t - 1) + TOKENS.len() * t) as u64
    }
}

/// The `k`-th single deviation of a list of `t` tokens: deletions, duplications, swaps,
/// then replacements (site-major).
pub fn dev_at(t: usize, k: u64) -> Dev {
    let k = k as usize;
    if k < t {
        Dev::Delete(k)
    } else if k < 2 * t {
        Dev::Duplicate(k - t)
    } else if k < 3 * t - 1 {
        Dev::Swap(k - 2 * t)
    } else {
        let r = k - (3 * t - 1);
        Dev::Replace(r / TOKENS.len(), r % TOKENS.len())
    }
}

pub fn apply_dev(toks: &mut Vec<(String, String)>, d: Dev) {
    match d {
        Dev::Delete(i) => {
            toks.remove(i);
        }
        Dev::Duplicate(i) => {
            let t = toks[i].0.clone();
            toks.insert(i, (t, " ".to_owned()));
        }
        Dev::Swap(i) => {
            let (a, b) = toks.split_at_mut(i + 1);
            std::mem::swap(&mut a[i].0, &mut b[0].0);
        }
        Dev::Replace(i, t) => {
            toks[i].0 = TOKENS[t].to_owned();
        }
    }
}

fn len_after(t: usize, d: Dev) -> usize {
    match d {
        Dev::Delete(_) => t - 1,
        Dev::Duplicate(_) => t + 1,
        _ => t,
    }
}

/// Number of two-deviation mutants of a list of `t` tokens (second deviation applied to
/// the result of the first).
fn n_dev2(t: usize) -> u64 {
    if t == 0 {
        return 0;
    }
    let t64 = t as u64;
    t64 * n_dev(t - 1) + t64 * n_dev(t + 1) + (n_dev(t) - 2 * t64) * n_dev(t)
}

fn dev2_at(t: usize, mut k: u64) -> (Dev, Dev) {
    let t64 = t as u64;
    // deletions
    let b = n_dev(t - 1);
    if b > 0 && k < t64 * b {
        let d1 = Dev::Delete((k / b) as usize);
        return (d1, dev_at(t - 1, k % b));
    }
    k -= t64 * b;
    // duplications
    let b = n_dev(t + 1);
    if k < t64 * b {
        let d1 = Dev::Duplicate((k / b) as usize);
        return (d1, dev_at(t + 1, k % b));
    }
    k -= t64 * b;
    // swaps and replacements
    let b = n_dev(t);
    let d1 = dev_at(t, 2 * t64 + k / b);
    debug_assert_eq!(len_after(t, d1), t);
    (d1, dev_at(t, k % b))
}

// ---------------------------------------------------------------------------
// Nesting families

#[derive(Clone, Copy, Debug, PartialEq, Eq)]
pub enum FamilyKind {
    /// Bracket-like nesting, depth 1..=200.
    Nest,
    /// Flat chains, length 1..=10 000.
    Chain,
    /// Number literals of 1..=40 digits.
    Digits,
}

#[derive(Clone, Copy, Debug)]
pub struct Family {
    pub name: &'static str,
    pub kind: FamilyKind,
}

pub const FAMILIES: [Family; 42] = [
    Family { name: "paren-a", kind: FamilyKind::Nest },
    Family { name: "paren-num", kind: FamilyKind::Nest },
    Family { name: "array-num", kind: FamilyKind::Nest },
    Family { name: "array-a", kind: FamilyKind::Nest },
    Family { name: "object-num", kind: FamilyKind::Nest },
    Family { name: "object-a", kind: FamilyKind::Nest },
    Family { name: "content-empty", kind: FamilyKind::Nest },
    Family { name: "content-num", kind: FamilyKind::Nest },
    Family { name: "content-headers", kind: FamilyKind::Nest },
    Family { name: "urivar", kind: FamilyKind::Nest },
    Family { name: "prop-num", kind: FamilyKind::Nest },
    Family { name: "prop-a", kind: FamilyKind::Nest },
    Family { name: "rec", kind: FamilyKind::Nest },
    Family { name: "nested-app", kind: FamilyKind::Nest },
    Family { name: "content-status", kind: FamilyKind::Nest },
    Family { name: "content-status-media", kind: FamilyKind::Nest },
    Family { name: "content-headers-media", kind: FamilyKind::Nest },
    Family { name: "ann-array", kind: FamilyKind::Nest },
    Family { name: "ann-paren", kind: FamilyKind::Nest },
    Family { name: "ann-object", kind: FamilyKind::Nest },
    Family { name: "open-paren", kind: FamilyKind::Nest },
    Family { name: "open-array", kind: FamilyKind::Nest },
    Family { name: "open-object", kind: FamilyKind::Nest },
    Family { name: "open-content", kind: FamilyKind::Nest },
    Family { name: "open-headers", kind: FamilyKind::Nest },
    Family { name: "open-urivar", kind: FamilyKind::Nest },
    Family { name: "open-app", kind: FamilyKind::Nest },
    Family { name: "open-mixed", kind: FamilyKind::Nest },
    Family { name: "mismatch", kind: FamilyKind::Nest },
    Family { name: "app", kind: FamilyKind::Chain },
    Family { name: "app-num", kind: FamilyKind::Chain },
    Family { name: "sum-a", kind: FamilyKind::Chain },
    Family { name: "sum-num", kind: FamilyKind::Chain },
    Family { name: "join-a", kind: FamilyKind::Chain },
    Family { name: "range-a", kind: FamilyKind::Chain },
    Family { name: "range-content", kind: FamilyKind::Chain },
    Family { name: "any-a", kind: FamilyKind::Chain },
    Family { name: "xfer-list", kind: FamilyKind::Chain },
    // (depths 1..=200 and 1..=40, no chains of thousands: every error costs the language server a scan of
    // the text, so thousands of them are a matter of minutes, not of correctness)
    Family { name: "lexical-errors", kind: FamilyKind::Nest },
    Family { name: "lexical-error-run", kind: FamilyKind::Digits },
    Family { name: "digits", kind: FamilyKind::Digits },
    Family { name: "status-digits", kind: FamilyKind::Digits },
];

pub fn family(name: &str) -> Option<&'static Family> {
    FAMILIES.iter().find(|f| f.name == name)
}

fn rep(s: &str, n: usize) -> String {
    s.repeat(n)
}

fn chain(first: &str, op: &str, item: &str, n: usize) -> String {
    let mut s = String::with_capacity(first.len() + n * (op.len() + item.len() + 2));
    s.push_str(first);
    for _ in 0..n {
        s.push_str(op);
        s.push_str(item);
    }
    s
}

/// The member of a family at depth / length `d >= 1`.
pub fn family_text(name: &str, d: usize) -> String {
    let body = match name {
        "paren-a" => format!("{}a{}", rep("(", d), rep(")", d)),
        "paren-num" => format!("{}num{}", rep("(", d), rep(")", d)),
        "array-num" => format!("{}num{}", rep("[", d), rep("]", d)),
        "array-a" => format!("{}a{}", rep("[", d), rep("]", d)),
        "object-num" => format!("{}num{}", rep("{'p ", d), rep("}", d)),
        "object-a" => format!("{}a{}", rep("{'p ", d), rep("}", d)),
        "content-empty" => format!("{}{}", rep("<", d), rep(">", d)),
        "content-num" => format!("{}num{}", rep("<", d), rep(">", d)),
        "content-headers" => format!("{}str{}", rep("<headers={'h ", d), rep("}>", d)),
        "urivar" => format!("{}num{}", rep("/{'p ", d), rep("}", d)),
        "prop-num" => format!("{}num", rep("'p ", d)),
        "prop-a" => format!("{}a", rep("'p ", d)),
        "rec" => format!("{}x", rep("rec x ", d)),
        "nested-app" => format!("{}a{}", rep("f (", d), rep(")", d)),
        // body-less contents nested in attribute values, with and without a later attribute
        // (the content production is tried twice: with a body, then without)
        "content-status" => format!("{}200{}", rep("<status=", d), rep(">", d)),
        "content-status-media" => format!("{}200{}", rep("<status=", d), rep(", media=/a/b>", d)),
        "content-headers-media" => format!("{}str{}", rep("<headers={'h ", d), rep("}, media=\"a/b\">", d)),
        // every level starts with a line annotation (annotations sit in front of terms)
        "ann-array" => format!("{}num{}", rep("[ # d: x\n ", d), rep("]", d)),
        "ann-paren" => format!("{}num{}", rep("( # d: x\n ", d), rep(")", d)),
        "ann-object" => format!("{}num{}", rep("{ # d: x\n 'p ", d), rep("}", d)),
        // brackets opened and never (or wrongly) closed: the parse fails at every level
        "open-paren" => format!("{}a", rep("(", d)),
        "open-array" => format!("{}num", rep("[", d)),
        "open-object" => format!("{}num", rep("{'p ", d)),
        "open-content" => format!("{}num", rep("<", d)),
        "open-headers" => format!("{}str", rep("<headers={'h ", d)),
        "open-urivar" => format!("{}num", rep("/{'p ", d)),
        "open-app" => format!("{}a", rep("f (", d)),
        "open-mixed" => format!("{}num", rep("([{'p <", d)),
        "mismatch" => format!("{}num{}", rep("[", d), rep(")", d)),
        "app" => chain("f", " ", "a", d),
        "app-num" => chain("f", " ", "num", d),
        "sum-a" => chain("a", " | ", "a", d),
        "sum-num" => chain("num", " | ", "num", d),
        "join-a" => chain("a", " & ", "a", d),
        "range-a" => chain("a", " :: ", "a", d),
        "range-content" => chain("<>", " :: ", "<>", d),
        "any-a" => chain("a", " ~ ", "a", d),
        "xfer-list" => chain("/ on get -> <>", ", ", "put -> <>", d),
        // d characters outside the alphabet, apart and in one run, with valid text after them
        "lexical-errors" => format!("{} ~ b", chain("a", " \u{a7} ", "a", d)),
        "lexical-error-run" => format!("a {} ~ b", rep("\u{a7}", d)),
        "digits" => rep("9", d),
        "status-digits" => format!("<status={}>", rep("9", d)),
        _ => panic!("unknown family {name}"),
    };
    format!("let a = {body};")
}

pub const QUICK_DEPTHS: [usize; 7] = [1, 2, 3, 5, 10, 50, 200];
pub const QUICK_CHAIN: [usize; 9] = [1, 2, 3, 5, 10, 50, 200, 1000, 10_000];
pub const LONG_CHAIN: [usize; 5] = [500, 1000, 2000, 5000, 10_000];

/// The depths explored for a family in a tier.
pub fn family_depths(f: &Family, thorough: bool) -> Vec<usize> {
    match (f.kind, thorough) {
        (FamilyKind::Digits, _) => (1..=40).collect(),
        (FamilyKind::Nest, false) => QUICK_DEPTHS.to_vec(),
        (FamilyKind::Nest, true) => (1..=200).collect(),
        (FamilyKind::Chain, false) => QUICK_CHAIN.to_vec(),
        (FamilyKind::Chain, true) => (1..=200).chain(LONG_CHAIN).collect(),
    }
}

/// All (family, depth) pairs of a tier, smallest depth first.
fn nest_cases(thorough: bool) -> Vec<(&'static str, usize)> {
    let mut v: Vec<(usize, usize, &'static str)> = Vec::new();
    for (fi, f) in FAMILIES.iter().enumerate() {
        for d in family_depths(f, thorough) {
            v.push((d, fi, f.name));
        }
    }
    v.sort();
    v.into_iter().map(|(d, _, n)| (n, d)).collect()
}

// ---------------------------------------------------------------------------
// Text spaces

pub enum TextSpace {
    Seq {
        alphabet: &'static [&'static str],
        len: usize,
    },
    Chars {
        alphabet: &'static [char],
        len: usize,
    },
    Embed {
        alphabet: &'static [char],
        len: usize,
    },
    Corpus,
    Mut {
        dev: usize,
        /// programs of the corpus taking part, with the first global index of each
        progs: Vec<(&'static Prog, u64)>,
        total: u64,
    },
    Nest {
        cases: Vec<(&'static str, usize)>,
    },
    /// Every corpus program and every generated single-module program (kind-agnostic
    /// expressions of <= 2 constructors x 28 contexts, fragments) with one matched pair of
    /// parentheses removed.
    Unparen {
        texts: std::sync::Arc<Vec<(String, String)>>,
    },
    /// Programs whose only import names something unusual (a directory, the module itself, an
    /// absolute path, a URL, an empty or odd string).
    Imports,
    /// Every corpus program with one token of the full alphabet inserted at one site.
    Ins {
        progs: Vec<(&'static Prog, u64)>,
        total: u64,
    },
    /// Every corpus program cut after each of its tokens (the text ends right after the
    /// token, or after one more line break): what an editor holds while the program is typed.
    Prefix {
        progs: Vec<(&'static Prog, u64)>,
        total: u64,
    },
    /// Number literals at and around the powers of two where an integer type ends, in the
    /// places where the language reads a number.
    Numbers,
    /// Every ordered pair of generated expressions of <= 2 constructors written side by side,
    /// unparenthesised, in each place where the grammar takes a list.
    Pairs {
        exprs: std::sync::Arc<Vec<String>>,
    },
    /// Programs whose diagnostics quote long non-ASCII source text.
    Messages,
    /// Every string of <= 5 characters over the alphabet of a token class, as a token of that
    /// class.
    Lexemes,
}

pub fn p_lexemes() -> Value {
    json!({"space": "lexemes"})
}

/// Alphabets of the token classes that have one of their own, each with its prefix and a
/// context: path segments, property names, identifiers, references.
pub const LEXEME_CLASSES: [(&str, &str, &str, &[char]); 4] = [
    ("path segment", "let a = /", ";\n", &['a', '1', 'c', 'F', '%', '~', '.', '-', '_']),
    ("property name", "let a = '", " str;\n", &['a', '1', '$', '@', '_', '-']),
    ("identifier", "let a", " = num;\n", &['a', '1', '$', '_', '-', 'X']),
    ("reference", "let @", " = {};\n", &['a', '1', '$', '_', '-']),
];
pub const LEXEME_MAX: usize = 5;

fn lexeme_count(k: usize) -> u64 {
    (1..=LEXEME_MAX).map(|l| pow(LEXEME_CLASSES[k].3.len(), l)).sum()
}

pub fn p_messages() -> Value {
    json!({"space": "messages"})
}

/// Programs whose diagnostics quote source text: an annotation that repeats a YAML key made
/// of d two-byte (or four-byte) characters, at both byte alignments, so that messages of every
/// length around the usual cut-off lengths (80, 100, 120, 128, 255, 256 bytes) are produced
/// with a multi-byte character on every byte position.
fn message_texts() -> Vec<(String, String)> {
    let mut out = Vec::new();
    for (ch, name) in [("\u{e9}", "two-byte"), ("\u{1F609}", "four-byte")] {
        for lead in ["", "k", "kk", "kkk"] {
            for d in (1..=140).filter(|d| *d <= 70 || d % 5 == 0) {
                let key = format!("{lead}{}", ch.repeat(d));
                out.push((
                    format!("# {key}: 1, {key}: 2\nlet a = num;\nres / on get -> <a>;\n"),
                    format!("annotation repeating a key of {lead:?} + {d} {name} characters"),
                ));
            }
        }
    }
    out
}

pub fn p_pairs() -> Value {
    json!({"space": "pairs"})
}

pub const PAIR_CONTEXTS: [(&str, &str, &str, &str); 6] = [
    ("object members", "let a = { ", ", ", " };"),
    ("operations of a relation", "res / on ", ", ", ";"),
    ("parameters of a transfer", "let a = get { ", ", ", " } -> <>;"),
    ("headers of a content", "let a = <headers={ ", ", ", " }, {}>;"),
    ("arguments of an application", "let a = f ", " ", ";"),
    ("operands of a range", "let a = get -> ", " :: ", ";"),
];

fn pair_exprs() -> Vec<String> {
    let all = crate::space::agnostic_exprs(2);
    let mut v = Vec::new();
    for sz in [1usize, 2] {
        for e in all[sz].iter() {
            let t = crate::gen::print_expr(e);
            if !v.contains(&t) {
                v.push(t);
            }
        }
    }
    v
}

pub fn p_prefix() -> Value {
    json!({"space": "prefix"})
}
pub fn p_numbers() -> Value {
    json!({"space": "numbers"})
}

fn number_texts() -> Vec<(String, String)> {
    let mut lits: Vec<String> = vec!["0".into(), "00".into(), "007".into(), "-1".into(), "1e3".into(), "1.5".into(), "0x10".into(), "1_000".into()];
    for bits in [8u32, 16, 31, 32, 53, 63, 64, 127, 128] {
        let edge: u128 = if bits == 128 { u128::MAX } else { 1u128 << bits };
        for d in -5i32..=5 {
            if bits == 128 {
                if d <= 0 {
                    lits.push((edge - (-d) as u128).to_string());
                } else {
                    // 2^128 - 1 + d, written out
                    lits.push(format!("34028236692093846346337460743176821145{}", 5 + d));
                }
            } else if d < 0 {
                lits.push((edge - (-d) as u128).to_string());
            } else {
                lits.push((edge + d as u128).to_string());
            }
        }
    }
    for p in [19usize, 20, 38, 39, 40] {
        lits.push(format!("1{}", "0".repeat(p)));
    }
    let mut out = Vec::new();
    for l in lits {
        out.push((format!("let a = {l};\nres / on get -> <a>;\n"), format!("{l} as the value of a declaration")));
        out.push((format!("res / on get -> <status={l}, {{}}>;\n"), format!("{l} as a status")));
        out.push((format!("let f x = <status=x, {{}}>;\nres / on get -> f {l};\n"), format!("{l} as an argument")));
        out.push((format!("res / on get -> <{{ 'n int `minimum: {l}` }}>;\n"), format!("{l} in an annotation")));
        out.push((format!("res / on get -> <> :: {l};"), format!("{l} as the last token of the text")));
    }
    out
}

/// Phase parameter of a sequence space.
pub fn p_seq(alphabet: &str, len: usize) -> Value {
    json!({"space": "seq", "alphabet": alphabet, "len": len})
}
pub fn p_chars(alphabet: &str, len: usize) -> Value {
    json!({"space": "chars", "alphabet": alphabet, "len": len})
}
pub fn p_embed(alphabet: &str, len: usize) -> Value {
    json!({"space": "embed", "alphabet": alphabet, "len": len})
}
pub fn p_corpus() -> Value {
    json!({"space": "corpus"})
}
/// Mutants with exactly `dev` deviations of the corpus programs of at most `max_tokens` tokens.
pub fn p_mut(dev: usize, max_tokens: usize) -> Value {
    json!({"space": "mut", "deviations": dev, "max_tokens": max_tokens})
}
pub fn p_imports() -> Value {
    json!({"space": "imports"})
}

pub const IMPORT_PATHS: [&str; 28] = [
    ".", "..", "/", "./", "../", "sub/", "sub", "", " ", "main.oal", "./main.oal", "../main.oal", "a b.oal", "%2e", "%00.oal",
    "file:///", "file:///etc/hostname", "http://localhost/x.oal", "\\\\", "nul", "main.oal/", "x.oal#frag?q=1",
    // the module itself under another spelling of its URL
    "main.oal?v=2", "main.oal#top", "?", "#", "./main.oal?", "MAIN.OAL",
];

fn import_texts() -> Vec<(String, String)> {
    let mut out = Vec::new();
    for p in IMPORT_PATHS {
        out.push((format!("use \"{p}\";\nres / on get -> <>;\n"), format!("import of {p:?}")));
        out.push((format!("use \"{p}\" as m;\nres / on get -> <m.a>;\n"), format!("qualified import of {p:?}")));
        out.push((format!("res / on get -> <>;\nuse \"{p}\";"), format!("import of {p:?} after a resource")));
    }
    out
}

pub fn p_unparen() -> Value {
    json!({"space": "unparen"})
}

/// Matched pairs of parentheses of a text, outside strings, comments and annotations.
fn paren_pairs(text: &str) -> Vec<(usize, usize)> {
    let b = text.as_bytes();
    let mut i = 0;
    let mut stack = Vec::new();
    let mut out = Vec::new();
    while i < b.len() {
        match b[i] {
            b'"' => {
                i += 1;
                while i < b.len() && b[i] != b'"' {
                    i += 1;
                }
            }
            b'`' => {
                i += 1;
                while i < b.len() && b[i] != b'`' {
                    i += 1;
                }
            }
            b'#' => {
                while i < b.len() && b[i] != b'\n' {
                    i += 1;
                }
            }
            b'/' if i + 1 < b.len() && b[i + 1] == b'/' => {
                while i < b.len() && b[i] != b'\n' {
                    i += 1;
                }
            }
            b'/' if i + 1 < b.len() && b[i + 1] == b'*' => {
                i += 2;
                while i + 1 < b.len() && !(b[i] == b'*' && b[i + 1] == b'/') {
                    i += 1;
                }
                i += 1;
            }
            b'(' => stack.push(i),
            b')' => {
                if let Some(o) = stack.pop() {
                    out.push((o, i));
                }
            }
            _ => {}
        }
        i += 1;
    }
    out.sort();
    out
}

fn unparen_texts() -> Vec<(String, String)> {
    let mut sources: Vec<(String, String)> = Vec::new();
    for p in corpus().iter() {
        sources.push((p.name.clone(), p.text.clone()));
    }
    let all = crate::space::agnostic_exprs(2);
    for sz in [1usize, 2] {
        for (ei, e) in all[sz].iter().enumerate() {
            for c in 0..crate::space::N_CONTEXTS {
                let t = crate::gen::print(&crate::space::context(c, e)).texts[0].1.clone();
                sources.push((format!("expression {sz}/{ei} in context {c}"), t));
            }
        }
    }
    for f in 0..crate::frags::NAMES.len() {
        for (i, p) in crate::frags::fragment(f, false).programs.iter().enumerate() {
            if p.modules.len() == 1 {
                sources.push((format!("{} #{i}", crate::frags::NAMES[f]), crate::gen::print(p).texts[0].1.clone()));
            }
        }
    }
    let mut out = Vec::new();
    let mut seen = std::collections::HashSet::new();
    for (name, t) in sources {
        for (k, (o, c)) in paren_pairs(&t).into_iter().enumerate() {
            let mut v = String::with_capacity(t.len());
            v.push_str(&t[..o]);
            v.push(' ');
            v.push_str(&t[o + 1..c]);
            v.push(' ');
            v.push_str(&t[c + 1..]);
            if seen.insert(v.clone()) {
                out.push((v, format!("{name} without its pair of parentheses #{k}")));
            }
        }
    }
    out
}

pub fn p_ins(max_tokens: usize) -> Value {
    json!({"space": "ins", "max_tokens": max_tokens})
}
pub fn p_nest(thorough: bool) -> Value {
    json!({"space": "nest", "depths": if thorough { "all 1..=200, chains 1..=200 and 500..10000, digits 1..=40" } else { "1,2,3,5,10,50,200; chains also 1000,10000; digits 1..=40" }, "thorough": thorough})
}

impl TextSpace {
    pub fn from_param(p: &Value) -> TextSpace {
        let len = p["len"].as_u64().unwrap_or(0) as usize;
        match p["space"].as_str().unwrap_or("") {
            "seq" => TextSpace::Seq {
                alphabet: token_alphabet(p["alphabet"].as_str().unwrap()),
                len,
            },
            "chars" => TextSpace::Chars {
                alphabet: char_alphabet(p["alphabet"].as_str().unwrap()),
                len,
            },
            "embed" => TextSpace::Embed {
                alphabet: char_alphabet(p["alphabet"].as_str().unwrap()),
                len,
            },
            "corpus" => TextSpace::Corpus,
            "mut" => {
                let dev = p["deviations"].as_u64().unwrap() as usize;
                let max = p["max_tokens"].as_u64().unwrap() as usize;
                let mut progs = Vec::new();
                let mut total = 0u64;
                for pr in corpus().iter().filter(|pr| pr.toks.len() <= max) {
                    progs.push((pr, total));
                    total += match dev {
                        1 => n_dev(pr.toks.len()),
                        2 => n_dev2(pr.toks.len()),
                        _ => panic!("deviations must be 1 or 2"),
                    };
                }
                TextSpace::Mut { dev, progs, total }
            }
            "imports" => TextSpace::Imports,
            "unparen" => TextSpace::Unparen { texts: std::sync::Arc::new(unparen_texts()) },
            "ins" => {
                let max = p["max_tokens"].as_u64().unwrap() as usize;
                let mut progs = Vec::new();
                let mut total = 0u64;
                for pr in corpus().iter().filter(|pr| pr.toks.len() <= max) {
                    progs.push((pr, total));
                    total += ((pr.toks.len() + 1) * TOKENS.len()) as u64;
                }
                TextSpace::Ins { progs, total }
            }
            "prefix" => {
                let mut progs = Vec::new();
                let mut total = 0u64;
                for pr in corpus().iter() {
                    progs.push((pr, total));
                    total += 2 * (pr.toks.len() as u64 + 1);
                }
                TextSpace::Prefix { progs, total }
            }
            "numbers" => TextSpace::Numbers,
            "messages" => TextSpace::Messages,
            "lexemes" => TextSpace::Lexemes,
            "pairs" => TextSpace::Pairs { exprs: std::sync::Arc::new(pair_exprs()) },
            "nest" => TextSpace::Nest {
                cases: nest_cases(p["thorough"].as_bool().unwrap_or(false)),
            },
            s => panic!("unknown space {s}"),
        }
    }

    pub fn len(&self) -> u64 {
        match self {
            TextSpace::Seq { alphabet, len } => pow(alphabet.len(), *len),
            TextSpace::Chars { alphabet, len } => pow(alphabet.len(), *len),
            TextSpace::Embed { alphabet, len } => {
                pow(alphabet.len(), *len) * EMBED_CONTEXTS.len() as u64
            }
            TextSpace::Corpus => 2 * corpus().len() as u64,
            TextSpace::Mut { total, .. } => *total,
            TextSpace::Nest { cases } => cases.len() as u64,
            TextSpace::Ins { total, .. } => *total,
            TextSpace::Unparen { texts } => texts.len() as u64,
            TextSpace::Imports => import_texts().len() as u64,
            TextSpace::Prefix { total, .. } => *total,
            TextSpace::Numbers => number_texts().len() as u64,
            TextSpace::Pairs { exprs } => (exprs.len() * exprs.len() * PAIR_CONTEXTS.len()) as u64,
            TextSpace::Messages => message_texts().len() as u64,
            TextSpace::Lexemes => (0..LEXEME_CLASSES.len()).map(lexeme_count).sum(),
        }
    }

    /// The text of case `idx` and a short note on how it was made.
    pub fn text(&self, idx: u64) -> (String, String) {
        match self {
            TextSpace::Seq { alphabet, len } => (seq_text(alphabet, *len, idx), String::new()),
            TextSpace::Chars { alphabet, len } => (chars_text(alphabet, *len, idx), String::new()),
            TextSpace::Embed { alphabet, len } => {
                let n = pow(alphabet.len(), *len);
                let (name, pre, post) = EMBED_CONTEXTS[(idx / n) as usize];
                let inner = chars_text(alphabet, *len, idx % n);
                (format!("{pre}{inner}{post}"), format!("in {name}"))
            }
            TextSpace::Corpus => {
                let p = &corpus()[(idx / 2) as usize];
                if idx % 2 == 0 {
                    (p.text.clone(), format!("{} verbatim", p.name))
                } else {
                    (
                        render(&p.prefix, &p.toks),
                        format!("{} re-rendered token by token", p.name),
                    )
                }
            }
            TextSpace::Mut { dev, progs, .. } => {
                let k = progs.partition_point(|(_, base)| *base <= idx) - 1;
                let (p, base) = progs[k];
                let local = idx - base;
                let mut toks = p.toks.clone();
                let note = if *dev == 1 {
                    let d = dev_at(toks.len(), local);
                    apply_dev(&mut toks, d);
                    format!("{} with {d:?}", p.name)
                } else {
                    let (d1, d2) = dev2_at(toks.len(), local);
                    apply_dev(&mut toks, d1);
                    apply_dev(&mut toks, d2);
                    format!("{} with {d1:?} then {d2:?}", p.name)
                };
                (render(&p.prefix, &toks), note)
            }
            TextSpace::Nest { cases } => {
                let (name, d) = cases[idx as usize];
                (family_text(name, d), format!("family {name} at {d}"))
            }
            TextSpace::Unparen { texts } => texts[idx as usize].clone(),
            TextSpace::Imports => import_texts()[idx as usize].clone(),
            TextSpace::Numbers => number_texts()[idx as usize].clone(),
            TextSpace::Messages => message_texts()[idx as usize].clone(),
            TextSpace::Lexemes => {
                let mut rest = idx;
                let mut k = 0;
                while rest >= lexeme_count(k) {
                    rest -= lexeme_count(k);
                    k += 1;
                }
                let (name, pre, post, alpha) = LEXEME_CLASSES[k];
                let mut len = 1;
                while rest >= pow(alpha.len(), len) {
                    rest -= pow(alpha.len(), len);
                    len += 1;
                }
                (format!("{pre}{}{post}", chars_text(alpha, len, rest)), format!("{name} of {len} characters"))
            }
            TextSpace::Pairs { exprs } => {
                let n = exprs.len() as u64;
                let (c, rest) = ((idx / (n * n)) as usize, idx % (n * n));
                let (a, b) = (&exprs[(rest / n) as usize], &exprs[(rest % n) as usize]);
                let (name, pre, sep, post) = PAIR_CONTEXTS[c];
                (format!("{pre}{a}{sep}{b}{post}"), format!("two expressions as {name}"))
            }
            TextSpace::Prefix { progs, .. } => {
                let k = progs.partition_point(|(_, base)| *base <= idx) - 1;
                let (p, base) = progs[k];
                let local = (idx - base) as usize;
                let (cut, nl) = (local / 2, local % 2 == 1);
                let mut toks: Vec<(String, String)> = p.toks[..cut].to_vec();
                if let Some(last) = toks.last_mut() {
                    last.1 = String::new();
                }
                let mut t = render(&p.prefix, &toks);
                if cut == 0 {
                    t = String::new();
                }
                if nl {
                    t.push('\n');
                }
                (t, format!("{} cut after {cut} tokens{}", p.name, if nl { " and a line break" } else { "" }))
            }
            TextSpace::Ins { progs, .. } => {
                let k = progs.partition_point(|(_, base)| *base <= idx) - 1;
                let (p, base) = progs[k];
                let local = (idx - base) as usize;
                let (site, tok) = (local / TOKENS.len(), local % TOKENS.len());
                let mut toks = p.toks.clone();
                toks.insert(site, (TOKENS[tok].to_owned(), " ".to_owned()));
                // the token now before the inserted one needs a separator too
                if site > 0 && toks[site - 1].1.is_empty() {
                    toks[site - 1].1 = " ".to_owned();
                }
                (render(&p.prefix, &toks), format!("{} with {:?} inserted before token {site}", p.name, TOKENS[tok]))
            }
        }
    }
}

/// Walks the cases of a text space that belong to this worker.
pub fn walk_texts(
    space: &TextSpace,
    sink: &mut Sink,
    describe: &dyn Fn(&str, &str) -> Value,
    run: &dyn Fn(u64, &str, &mut Sink) -> Outcome,
) {
    let total = space.len();
    let n = sink.nshards.max(1);
    let mut idx = match sink.single() {
        Some(i) => i,
        None => {
            // first index >= `from` that belongs to this shard
            let from = sink.from;
            let r = from % n;
            if r <= sink.shard {
                from - r + sink.shard
            } else {
                from - r + n + sink.shard
            }
        }
    };
    while idx < total {
        if sink.expired() {
            break;
        }
        let (text, note) = space.text(idx);
        sink.visit(idx, || describe(&text, &note), |s| run(idx, &text, s));
        if sink.single().is_some() {
            break;
        }
        idx += n;
    }
}

pub fn describe_text(text: &str, note: &str) -> Value {
    if note.is_empty() {
        json!({ "text": text })
    } else {
        json!({"text": text, "made": note})
    }
}

// ---------------------------------------------------------------------------
// Small helpers shared by the engines

/// A printable, bounded rendering of a text for summaries.
pub fn show(text: &str) -> String {
    if text.len() <= 160 {
        format!("{text:?}")
    } else {
        let mut cut = 160;
        while !text.is_char_boundary(cut) {
            cut -= 1;
        }
        format!("{:?}… ({} bytes)", &text[..cut], text.len())
    }
}

/// Crate-relative source file of a panic location (`<path>:<line>[:<col>]`): no line
/// numbers, no build-specific directory prefix.
pub fn stable_file(location: &str) -> String {
    // cut ":line" / ":line:col"
    let mut file = location.trim_end_matches(':');
    for _ in 0..2 {
        if let Some((f, n)) = file.rsplit_once(':') {
            if !n.is_empty() && n.bytes().all(|b| b.is_ascii_digit()) {
                file = f;
            }
        }
    }
    if let Some(k) = file.rfind("/oal-") {
        return file[k + 1..].to_owned();
    }
    if let Some(k) = file.find("/registry/src/") {
        let rest = &file[k + "/registry/src/".len()..];
        return rest.split_once('/').map(|(_, r)| r).unwrap_or(rest).to_owned();
    }
    if let Some(rest) = file.strip_prefix("/rustc/") {
        return rest.split_once('/').map(|(_, r)| r).unwrap_or(rest).to_owned();
    }
    file.to_owned()
}

/// Head of a panic message: the text before the first `:` and, when the message goes on
/// with the debug form of a value, the name of its variant — `not a relation: VariadicOp`.
pub fn stable_message(message: &str) -> String {
    let line = message.lines().next().unwrap_or("");
    let (head, rest) = match line.split_once(':') {
        Some((h, r)) => (h, r.trim_start()),
        None => (line, ""),
    };
    let mut out: String = head.chars().take(60).collect();
    let ident: String = rest
        .chars()
        .take_while(|c| c.is_ascii_alphanumeric() || *c == '_')
        .take(40)
        .collect();
    let after = rest[ident.len()..].trim_start();
    if !ident.is_empty()
        && ident.chars().next().map_or(false, |c| c.is_ascii_uppercase())
        && (after.is_empty() || after.starts_with('(') || after.starts_with('{'))
    {
        out.push_str(": ");
        out.push_str(&ident);
    }
    out
}

/// Stable name of a panic site for signatures: `<crate-relative file> "<message head>"`.
pub fn stable_site(location: &str, message: &str) -> String {
    format!("{} \"{}\"", stable_file(location), stable_message(message))
}

/// The panic reported on the stderr of a child process (`panicked at <file>:<l>:<c>:`
/// followed by the message on the next line), as a stable site.
pub fn stderr_panic_site<S: AsRef<str>>(lines: &[S]) -> Option<String> {
    for (i, l) in lines.iter().enumerate() {
        let l = l.as_ref();
        if let Some(k) = l.find("panicked at ") {
            let loc = l[k + "panicked at ".len()..].trim();
            let msg = lines.get(i + 1).map(|m| m.as_ref()).unwrap_or("");
            return Some(stable_site(loc, msg));
        }
    }
    None
}
