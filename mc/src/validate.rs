//! Independent structural validator of an emitted OpenAPI 3 document (C03): works on the
//! raw YAML value, knows nothing about how the document was produced.

use serde_yaml::Value as Y;
use std::collections::BTreeMap;

#[derive(Debug, Clone, PartialEq)]
pub struct Problem {
    /// Stable class of the problem (signature material).
    pub class: String,
    pub detail: String,
}

fn key_str(k: &Y) -> String {
    match k {
        Y::String(s) => s.clone(),
        Y::Number(n) => n.to_string(),
        Y::Bool(b) => b.to_string(),
        Y::Null => "null".into(),
        other => format!("{other:?}"),
    }
}

/// Keys whose value is a map from *names* to objects: the keys of that map are data
/// (a property or header may be called `$ref`), not keywords.
const NAME_MAPS: [&str; 16] = [
    "properties", "headers", "schemas", "responses", "parameters", "examples", "content",
    "paths", "securitySchemes", "requestBodies", "links", "callbacks", "variables", "mapping",
    "encoding", "patternProperties",
];

fn walk_refs(v: &Y, at: &str, names: bool, out: &mut Vec<(String, String)>) {
    match v {
        Y::Mapping(m) => {
            for (k, x) in m.iter() {
                let k = key_str(k);
                if names {
                    walk_refs(x, &format!("{at}/{k}"), false, out);
                } else if k == "$ref" {
                    if let Some(r) = x.as_str() {
                        out.push((at.to_owned(), r.to_owned()));
                    } else {
                        out.push((at.to_owned(), format!("<non-string {x:?}>")));
                    }
                } else {
                    // `parameters` is a name map under components but a list elsewhere;
                    // lists are handled by the Sequence arm.
                    walk_refs(x, &format!("{at}/{k}"), NAME_MAPS.contains(&k.as_str()), out);
                }
            }
        }
        Y::Sequence(s) => {
            for (i, x) in s.iter().enumerate() {
                walk_refs(x, &format!("{at}/{i}"), false, out);
            }
        }
        _ => {}
    }
}

/// Structural rules of schema objects (a mapping with a string `type`, not a name map):
/// an array has `items`; `required` lists distinct names of its own `properties`.
fn walk_schemas(v: &Y, at: &str, names: bool, out: &mut Vec<Problem>) {
    match v {
        Y::Mapping(m) => {
            if !names {
                if let Some(t) = m.get("type").and_then(|t| t.as_str()) {
                    if t == "array" && m.get("items").is_none() {
                        out.push(Problem { class: "array schema without items".into(), detail: at.to_owned() });
                    }
                    if let Some(req) = m.get("required").and_then(|r| r.as_sequence()) {
                        let names: Vec<String> = req.iter().map(|x| x.as_str().unwrap_or("<not a string>").to_owned()).collect();
                        let mut d = names.clone();
                        d.sort();
                        d.dedup();
                        if d.len() != names.len() {
                            out.push(Problem { class: "required lists a name twice".into(), detail: format!("{at}: {names:?}") });
                        }
                        if t == "object" {
                            let props: Vec<String> = m
                                .get("properties")
                                .and_then(|p| p.as_mapping())
                                .map(|p| p.iter().map(|(k, _)| key_str(k)).collect())
                                .unwrap_or_default();
                            if let Some(n) = names.iter().find(|n| !props.contains(n)) {
                                out.push(Problem { class: "required names a property the object does not have".into(), detail: format!("{at}: {n}") });
                            }
                        }
                    }
                }
            }
            for (k, x) in m.iter() {
                let k = key_str(k);
                if names {
                    walk_schemas(x, &format!("{at}/{k}"), false, out);
                } else if k != "example" && k != "examples" && k != "default" {
                    walk_schemas(x, &format!("{at}/{k}"), NAME_MAPS.contains(&k.as_str()), out);
                }
            }
        }
        Y::Sequence(s) => {
            for (i, x) in s.iter().enumerate() {
                walk_schemas(x, &format!("{at}/{i}"), false, out);
            }
        }
        _ => {}
    }
}

fn resolve<'a>(doc: &'a Y, pointer: &str) -> Option<&'a Y> {
    let mut cur = doc;
    for seg in pointer.trim_start_matches("#/").split('/') {
        let seg = seg.replace("~1", "/").replace("~0", "~");
        cur = cur.as_mapping()?.iter().find(|(k, _)| key_str(k) == seg)?.1;
    }
    Some(cur)
}

fn template_vars(path: &str) -> Vec<String> {
    let mut out = Vec::new();
    let mut rest = path;
    while let Some(i) = rest.find('{') {
        match rest[i..].find('}') {
            Some(j) => {
                out.push(rest[i + 1..i + j].to_owned());
                rest = &rest[i + j + 1..];
            }
            None => break,
        }
    }
    out
}

fn path_params(v: Option<&Y>) -> Vec<(String, bool)> {
    let mut out = Vec::new();
    if let Some(seq) = v.and_then(|v| v.as_sequence()) {
        for p in seq {
            if p.get("in").and_then(|i| i.as_str()) == Some("path") {
                out.push((
                    p.get("name").and_then(|n| n.as_str()).unwrap_or("").to_owned(),
                    p.get("required").and_then(|r| r.as_bool()).unwrap_or(false),
                ));
            }
        }
    }
    out
}

const METHODS: [&str; 8] = ["get", "put", "post", "delete", "options", "head", "patch", "trace"];

/// `explicit_ids`: operationIds written by the program itself (their uniqueness is the
/// program's responsibility).
pub fn validate(doc: &Y, explicit_ids: &[String]) -> Vec<Problem> {
    let mut probs = Vec::new();

    // 1. every $ref resolves inside the document
    let mut refs = Vec::new();
    walk_refs(doc, "", false, &mut refs);
    for (at, r) in refs {
        if !r.starts_with("#/") {
            probs.push(Problem {
                class: "$ref is not a local reference".into(),
                detail: format!("{at}: {r}"),
            });
        } else if resolve(doc, &r).is_none() {
            let kind = if r.starts_with("#/components/schemas/") {
                "$ref to a schema component that is not in the document"
            } else {
                "$ref that does not resolve"
            };
            probs.push(Problem {
                class: kind.into(),
                detail: format!("{at}: {r}"),
            });
        }
    }

    // 1b. schema objects
    walk_schemas(doc, "", false, &mut probs);

    // 2-4. paths
    let mut ids: BTreeMap<String, Vec<(String, String)>> = BTreeMap::new();
    if let Some(paths) = doc.get("paths").and_then(|p| p.as_mapping()) {
        for (k, item) in paths.iter() {
            let key = key_str(k);
            if !key.starts_with('/') {
                probs.push(Problem { class: "path does not start with /".into(), detail: key.clone() });
            }
            for m in METHODS {
                if let Some(op) = item.get(m) {
                    if op.get("responses").and_then(|r| r.as_mapping()).map_or(true, |r| r.is_empty()) {
                        probs.push(Problem { class: "operation without responses".into(), detail: format!("{m} {key}") });
                    }
                }
            }
            {
                let mut lists: Vec<Option<&Y>> = vec![item.get("parameters")];
                for m in METHODS {
                    lists.push(item.get(m).and_then(|op| op.get("parameters")));
                }
                for p in lists.into_iter().flatten().filter_map(|l| l.as_sequence()).flatten() {
                    if p.get("$ref").is_some() {
                        continue;
                    }
                    let name = p.get("name").and_then(|n| n.as_str()).unwrap_or("");
                    let place = p.get("in").and_then(|n| n.as_str()).unwrap_or("");
                    if name.is_empty() || !["query", "header", "path", "cookie"].contains(&place) || (p.get("schema").is_none() && p.get("content").is_none()) {
                        probs.push(Problem { class: "malformed parameter".into(), detail: format!("{key}: name {name:?} in {place:?}") });
                    }
                }
            }
            let mut vars = template_vars(&key);
            let distinct = {
                let mut v = vars.clone();
                v.sort();
                v.dedup();
                v.len() == vars.len()
            };
            vars.sort();
            let item_params = path_params(item.get("parameters"));
            // a parameter is identified by (in, name): one list must not hold it twice
            {
                let mut lists: Vec<(String, Option<&Y>)> = vec![(key.clone(), item.get("parameters"))];
                for m in METHODS {
                    if let Some(op) = item.get(m) {
                        lists.push((format!("{m} {key}"), op.get("parameters")));
                    }
                }
                for (at, l) in lists {
                    let mut seen: Vec<(String, String)> = Vec::new();
                    for p in l.and_then(|v| v.as_sequence()).into_iter().flatten() {
                        let k = (
                            p.get("in").and_then(|i| i.as_str()).unwrap_or("").to_owned(),
                            p.get("name").and_then(|n| n.as_str()).unwrap_or("").to_owned(),
                        );
                        if seen.contains(&k) {
                            probs.push(Problem {
                                class: "parameter listed twice".into(),
                                detail: format!("{at}: in {} name {}", k.0, k.1),
                            });
                        } else {
                            seen.push(k);
                        }
                    }
                }
            }
            let mut ops: Vec<(&str, &Y)> = Vec::new();
            for m in METHODS {
                if let Some(op) = item.get(m) {
                    ops.push((m, op));
                }
            }
            // The set of path parameters that applies to each operation (or to the item
            // itself when it has no operation).
            let mut scopes: Vec<(String, Vec<(String, bool)>)> = Vec::new();
            if ops.is_empty() {
                scopes.push((key.clone(), item_params.clone()));
            }
            for (m, op) in ops.iter() {
                let mut ps = item_params.clone();
                ps.extend(path_params(op.get("parameters")));
                scopes.push((format!("{m} {key}"), ps));
            }
            if distinct {
                for (at, ps) in scopes {
                    let mut names: Vec<String> = ps.iter().map(|p| p.0.clone()).collect();
                    names.sort();
                    if names != vars {
                        probs.push(Problem {
                            class: "path variables and path parameters differ".into(),
                            detail: format!("{at}: template {vars:?}, parameters {names:?}"),
                        });
                    }
                    if ps.iter().any(|p| !p.1) {
                        probs.push(Problem {
                            class: "path parameter not required".into(),
                            detail: at.clone(),
                        });
                    }
                }
            }
            for (m, op) in ops.iter() {
                if let Some(rs) = op.get("responses").and_then(|r| r.as_mapping()) {
                    for (rk, _) in rs.iter() {
                        let rk = key_str(rk);
                        let ok = rk == "default"
                            || (rk.len() == 3
                                && rk.ends_with("XX")
                                && matches!(rk.as_bytes()[0], b'1'..=b'5'))
                            || rk.parse::<u32>().map_or(false, |n| (100..=599).contains(&n) && rk.len() == 3);
                        if !ok {
                            probs.push(Problem {
                                class: "response key is not an HTTP status".into(),
                                detail: format!("{m} {key}: {rk:?}"),
                            });
                        }
                    }
                }
                if let Some(id) = op.get("operationId").and_then(|i| i.as_str()) {
                    ids.entry(id.to_owned())
                        .or_default()
                        .push((m.to_string(), key.clone()));
                }
            }
        }
    }
    for (id, uses) in ids.iter() {
        if uses.len() > 1 && !explicit_ids.contains(id) {
            let same_path = uses.iter().all(|u| u.1 == uses[0].1);
            // The documented scheme: method, then one label per segment (lower-cased literal,
            // `root` for the empty segment, the name of a variable), joined by `-`.
            let documented = |m: &str, path: &str| -> String {
                let mut parts = vec![m.to_owned()];
                for seg in path.split('/').skip(1) {
                    parts.push(if seg.is_empty() {
                        "root".to_owned()
                    } else if seg.starts_with('{') && seg.ends_with('}') {
                        seg[1..seg.len() - 1].to_lowercase()
                    } else {
                        seg.to_lowercase()
                    });
                }
                parts.join("-")
            };
            let by_scheme = uses.iter().all(|u| documented(&u.0, &u.1) == *id);
            // Different paths whose label sequences coincide (variable vs literal segment,
            // letter case, `-` inside a segment, the `root` label).
            probs.push(Problem {
                class: if same_path {
                    "operationId not unique | methods of one path".into()
                } else if by_scheme {
                    "operationId not unique | different paths with the same generated label".into()
                } else {
                    "operationId not unique | paths whose labels differ under the documented scheme".into()
                },
                detail: format!("{id}: {uses:?}"),
            });
        }
    }
    probs
}

/// operationIds that appear in annotations of the source texts.
pub fn explicit_operation_ids(texts: &[(String, String)]) -> Vec<String> {
    let mut out = Vec::new();
    for (_, t) in texts {
        let mut rest = t.as_str();
        while let Some(i) = rest.find("operationId:") {
            let tail = rest[i + "operationId:".len()..].trim_start();
            let id: String = tail
                .chars()
                .take_while(|c| !matches!(c, ',' | '`' | '\n' | '}' | ' '))
                .collect();
            out.push(id.trim_matches('"').trim_matches('\'').to_owned());
            rest = &rest[i + 1..];
        }
    }
    out
}
