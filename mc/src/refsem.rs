//! Reference semantics of Oxlip: from the generator's abstract syntax to the abstract
//! OpenAPI document of `doc.rs`.
//!
//! Written from the rule tables of DESIGN.md Appendix A, in the most boring style
//! available: an environment-passing evaluator with *lexical* scoping (closures never see
//! a caller's bindings), call-by-value arguments, annotations that flow top-down, and
//! recursion that produces a *graph* (a node per recursion point) instead of names.
//!
//! Constructs to which the language gives no defined meaning are not guessed: the
//! evaluator reports them as `Unspecified(reason)` and the engines then only require the
//! implementation not to crash.

use crate::doc::{self, Doc, S, SK};
use crate::gen::*;
use serde_yaml::{Mapping, Value as Y};
use std::collections::{BTreeMap, HashMap};
use std::rc::Rc;

pub type Ann = Mapping;

#[derive(Debug, Clone, PartialEq)]
pub enum Stop {
    /// The program uses a construct outside the reference fragment.
    Unspecified(String),
    /// The language defines an evaluation error here (kind name as in errors::Kind).
    Error(&'static str),
    /// The reference cannot give a value (ill-kinded program): the compiler should have
    /// rejected it. Carries the cast that failed.
    Stuck(String),
}

type R<T> = Result<T, Stop>;

fn unspec<T>(why: &str) -> R<T> {
    Err(Stop::Unspecified(why.to_owned()))
}
fn stuck<T>(why: &str) -> R<T> {
    Err(Stop::Stuck(why.to_owned()))
}

// --- annotations -----------------------------------------------------------

fn deep_extend(prev: &mut Mapping, other: &Mapping) {
    for (k, ov) in other.iter() {
        match (prev.get_mut(k), ov) {
            (Some(Y::Mapping(pm)), Y::Mapping(om)) => deep_extend(pm, om),
            (Some(Y::Sequence(ps)), Y::Sequence(os)) => ps.extend(os.iter().cloned()),
            (Some(pv), _) => *pv = ov.clone(),
            (None, _) => {
                prev.insert(k.clone(), ov.clone());
            }
        }
    }
}

fn parse_ann(text: &str) -> R<Mapping> {
    serde_yaml::from_str::<Mapping>(&format!("{{ {text} }}")).map_err(|_| Stop::Error("Yaml"))
}

fn a_str(a: &Ann, k: &str) -> Option<String> {
    a.get(k).and_then(|v| v.as_str()).map(|s| s.to_owned())
}
fn a_bool(a: &Ann, k: &str) -> Option<bool> {
    a.get(k).and_then(|v| v.as_bool())
}
fn a_f64(a: &Ann, k: &str) -> Option<f64> {
    a.get(k).and_then(|v| v.as_f64())
}
fn a_i64(a: &Ann, k: &str) -> Option<i64> {
    a.get(k).and_then(|v| v.as_i64())
}
fn a_u64(a: &Ann, k: &str) -> Option<u64> {
    a.get(k).and_then(|v| v.as_u64())
}
fn a_strs(a: &Ann, k: &str) -> Option<Vec<String>> {
    a.get(k).and_then(|v| v.as_sequence()).map(|s| {
        s.iter()
            .filter_map(|x| x.as_str().map(|s| s.to_owned()))
            .collect()
    })
}
fn a_props(a: &Ann, k: &str) -> Option<Vec<(String, String)>> {
    a.get(k).and_then(|v| v.as_mapping()).map(|m| {
        let mut out: Vec<(String, String)> = Vec::new();
        for (k, v) in m.iter() {
            if let (Some(k), Some(v)) = (k.as_str(), v.as_str()) {
                out.push((k.to_owned(), v.to_owned()));
            }
        }
        out
    })
}

// --- values ------------------------------------------------------------------

#[derive(Clone, Debug)]
pub struct SchV {
    pub s: S,
    pub required: Option<bool>,
    pub examples: Option<Vec<(String, String)>>,
    /// "number" | "string" | "boolean" | "integer" | "unknown" (for URI examples)
    pub type_word: &'static str,
}

#[derive(Clone, Debug)]
pub struct PropV {
    pub name: String,
    pub schema: SchV,
    pub desc: Option<String>,
    pub required: Option<bool>,
}

#[derive(Clone, Debug)]
pub enum SegV {
    Lit(String),
    Var(PropV),
}

#[derive(Clone, Debug)]
pub struct UriV {
    pub path: Vec<SegV>,
    pub params: Option<Vec<PropV>>,
    pub example: Option<String>,
}

#[derive(Clone, Debug, Default)]
pub struct ContentV {
    pub schema: Option<SchV>,
    /// "200" | "4XX"
    pub status: Option<String>,
    pub media: Option<String>,
    pub headers: Option<Vec<PropV>>,
    pub desc: Option<String>,
    pub examples: Option<Vec<(String, String)>>,
}

#[derive(Clone, Debug)]
pub struct XferV {
    pub methods: Vec<Method>,
    pub domain: ContentV,
    pub ranges: Vec<ContentV>,
    pub params: Option<Vec<PropV>>,
    pub desc: Option<String>,
    pub summary: Option<String>,
    pub tags: Vec<String>,
    pub id: Option<String>,
}

#[derive(Clone, Debug)]
pub struct RelV {
    pub uri: UriV,
    pub xfers: BTreeMap<Method, XferV>,
}

#[derive(Clone, Debug)]
pub enum Val {
    Num,
    Int,
    Str,
    Bool,
    /// Primitive schemas carry their constraints, read from the annotation at construction.
    Prim(Box<SK>, &'static str),
    Uri(Box<UriV>),
    Rel(Box<RelV>),
    Obj(Vec<PropV>),
    Arr(Box<SchV>),
    Alt(Op, Vec<SchV>),
    Ranges(Vec<ContentV>),
    Content(Box<ContentV>),
    Prop(Box<PropV>),
    Xfer(Box<XferV>),
    Text(String),
    Number(u64),
    StatusRange(u8),
    /// (module, statement index)
    Fun(usize, usize),
    Concat,
    /// `@name` component
    Named(String),
    /// implicit recursion point
    Node(usize),
}

#[derive(Clone)]
enum Locals {
    Nil,
    Cons(String, (Val, Ann), Rc<Locals>),
}

impl Locals {
    fn get(&self, n: &str) -> Option<&(Val, Ann)> {
        match self {
            Locals::Nil => None,
            Locals::Cons(k, v, rest) => {
                if k == n {
                    Some(v)
                } else {
                    rest.get(n)
                }
            }
        }
    }
}

#[derive(Clone)]
struct Env {
    module: usize,
    locals: Rc<Locals>,
}

pub struct Ev<'p> {
    prog: &'p Program,
    nodes: Vec<Option<S>>,
    named: BTreeMap<String, S>,
    named_vals: HashMap<String, (Val, Ann)>,
    named_from: HashMap<String, usize>,
    /// Plain declarations being evaluated: key -> recursion node allocated on demand.
    in_progress: HashMap<(usize, usize), Option<usize>>,
    depth: usize,
    /// Number of schema-valued `rec` / recursive declarations met (information).
    pub recursion_points: usize,
    /// Collisions that the property texts name explicitly and that the program contains
    /// (they qualify the signature of a difference).
    pub notes: Vec<&'static str>,
    rec_depth: usize,
}

fn module_index(p: &Program, from: usize, path: &str) -> Option<usize> {
    // Paths are relative to the importing module; all generated modules live in one
    // directory, spellings "./m.oal" and "d/../m.oal" denote "m.oal".
    let mut segs: Vec<&str> = Vec::new();
    let base = p.modules[from].name.as_str();
    for s in base.split('/') {
        segs.push(s);
    }
    segs.pop();
    for s in path.split('/') {
        match s {
            "." | "" => {}
            ".." => {
                if segs.last().map_or(true, |l| *l == "..") {
                    segs.push("..");
                } else {
                    segs.pop();
                }
            }
            s => segs.push(s),
        }
    }
    let target = segs.join("/");
    p.modules.iter().position(|m| m.name == target)
}

impl<'p> Ev<'p> {
    pub fn new(prog: &'p Program) -> Self {
        Ev {
            prog,
            nodes: Vec::new(),
            named: BTreeMap::new(),
            named_vals: HashMap::new(),
            named_from: HashMap::new(),
            in_progress: HashMap::new(),
            depth: 0,
            recursion_points: 0,
            notes: Vec::new(),
            rec_depth: 0,
        }
    }

    // --- name lookup (lexical) ---------------------------------------------

    fn lookup(&mut self, env: &Env, q: &Option<String>, n: &str, ann: Ann) -> R<(Val, Ann)> {
        if q.is_none() {
            if let Some((v, a)) = env.locals.get(n) {
                // Parameter or rec binder: the annotation of the bound value, overridden
                // by the use-site annotation.
                let mut out = a.clone();
                deep_extend(&mut out, &ann);
                return Ok((v.clone(), out));
            }
            let m = &self.prog.modules[env.module];
            let decls: Vec<usize> = m
                .stmts
                .iter()
                .enumerate()
                .filter(|(_, s)| matches!(s, Stmt::Let { name, .. } if name == n))
                .map(|(i, _)| i)
                .collect();
            if decls.len() > 1 {
                return unspec("duplicate declaration");
            }
            if let Some(i) = decls.first() {
                // A declaration wins over a built-in of the same name (the statement orders
                // them: declaration, import, built-in), and
                // a declaration wins over an unqualified import of the same name (the
                // compiler may also report the pair as a duplicate).
                return self.decl(env.module, *i, ann);
            }
        }
        if let Some((m, i)) = self.imported(env.module, q, n)? {
            if q.is_none() && n == "concat" {
                return unspec("import shadows a built-in");
            }
            return self.decl(m, i, ann);
        }
        if q.is_none() && n == "concat" {
            return Ok((Val::Concat, ann));
        }
        stuck(&format!("unbound identifier {n}"))
    }

    /// Looks a name up in the imports of a module (last import wins is *not* assumed:
    /// two imports providing the same entry are unspecified).
    fn imported(&self, module: usize, q: &Option<String>, n: &str) -> R<Option<(usize, usize)>> {
        let mut found: Vec<(usize, usize)> = Vec::new();
        for s in self.prog.modules[module].stmts.iter() {
            if let Stmt::Use(path, qual) = s {
                if qual != q {
                    continue;
                }
                let Some(mi) = module_index(self.prog, module, path) else {
                    return stuck("import of a missing module");
                };
                for (i, t) in self.prog.modules[mi].stmts.iter().enumerate() {
                    if matches!(t, Stmt::Let { name, .. } if name == n) {
                        found.push((mi, i));
                    }
                }
            }
        }
        found.dedup();
        match found.len() {
            0 => Ok(None),
            1 => Ok(Some(found[0])),
            _ => unspec("two imports provide the same name"),
        }
    }

    /// True when the schema stored for recursion node `n` is a bare chain of references
    /// leading back to `n`: the recursion never passes through a schema constructor.
    fn unguarded(&self, n: usize) -> bool {
        let mut cur = n;
        for _ in 0..=self.nodes.len() {
            match &self.nodes[cur] {
                Some(S::Ref(name)) if name.starts_with('#') => {
                    cur = name[1..].parse().unwrap_or(usize::MAX);
                    if cur == n {
                        return true;
                    }
                    if cur >= self.nodes.len() {
                        return false;
                    }
                }
                _ => return false,
            }
        }
        true
    }

    fn decl(&mut self, module: usize, idx: usize, use_ann: Ann) -> R<(Val, Ann)> {
        let Stmt::Let {
            anns,
            name,
            params,
            body,
        } = &self.prog.modules[module].stmts[idx]
        else {
            unreachable!()
        };
        if !params.is_empty() {
            return Ok((Val::Fun(module, idx), use_ann));
        }
        let mut ann = Mapping::new();
        for a in anns {
            deep_extend(&mut ann, &parse_ann(a)?);
        }
        let has_use_ann = !use_ann.is_empty();
        // Declaration annotations, overridden / extended by the use-site annotation.
        deep_extend(&mut ann, &use_ann);
        let env = Env {
            module,
            locals: Rc::new(Locals::Nil),
        };
        if name.starts_with('@') {
            // The component keeps the annotations of its first evaluation, which makes
            // use-site keys that reach the component body order dependent (unspecified).
            // `required` and `examples` are only read from the use itself.
            if has_use_ann && !use_ann.keys().all(|k| matches!(k.as_str(), Some("required") | Some("examples"))) {
                return unspec("use-site annotation on a @reference");
            }
            let mut bare = name.trim_start_matches('@').to_owned();
            if let Some(m) = self.named_from.get(&bare) {
                if *m != module {
                    // Two different declarations cannot share one component: whatever the
                    // compiler does (reject, rename), a use must keep denoting its own
                    // declaration. The reference keeps them apart under a distinct name.
                    if !self.notes.contains(&"the same @name declared in two modules") {
                        self.notes.push("the same @name declared in two modules");
                    }
                    bare = format!("{bare} (declared in {})", self.prog.modules[module].name);
                }
            }
            match self.named_from.get(&bare) {
                Some(_) => return Ok((Val::Named(bare), ann)),
                None => {}
            }
            self.named_from.insert(bare.clone(), module);
            let mut decl_ann = Mapping::new();
            for a in anns {
                deep_extend(&mut decl_ann, &parse_ann(a)?);
            }
            let (v, a) = self.eval(body, &env, decl_ann)?;
            let sch = self.to_schema(&v, &a)?;
            self.named.insert(bare.clone(), sch.s);
            self.named_vals.insert(bare.clone(), (v, a));
            return Ok((Val::Named(bare), ann));
        }
        let key = (module, idx);
        if let Some(slot) = self.in_progress.get_mut(&key) {
            // Recursion through this declaration: the use denotes the recursion point.
            if has_use_ann {
                return unspec("use-site annotation on a recursive declaration");
            }
            let n = match slot {
                Some(n) => *n,
                None => {
                    self.nodes.push(None);
                    let n = self.nodes.len() - 1;
                    *self.in_progress.get_mut(&key).unwrap() = Some(n);
                    n
                }
            };
            return Ok((Val::Node(n), ann));
        }
        self.in_progress.insert(key, None);
        let res = self.eval(body, &env, ann.clone());
        let slot = self.in_progress.remove(&key).unwrap();
        let (v, a) = res?;
        if let Some(n) = slot {
            if has_use_ann {
                return unspec("use-site annotation on a recursive declaration");
            }
            self.recursion_points += 1;
            let sch = self.to_schema(&v, &a)?;
            self.nodes[n] = Some(sch.s);
            if self.unguarded(n) {
                return stuck("unguarded recursion");
            }
            return Ok((Val::Node(n), ann));
        }
        Ok((v, a))
    }

    // --- coercions -----------------------------------------------------------

    fn deref_named(&self, v: &Val) -> Option<(Val, Ann)> {
        match v {
            Val::Named(n) => self.named_vals.get(n).cloned(),
            _ => None,
        }
    }

    fn uri_example(&self, u: &UriV) -> Option<String> {
        if let Some(e) = &u.example {
            return Some(e.clone());
        }
        if u.path.is_empty() {
            return None;
        }
        let mut b = String::new();
        for s in u.path.iter() {
            b.push('/');
            match s {
                SegV::Lit(l) => b.push_str(l),
                SegV::Var(p) => b.push_str(&format!("_{}_{}_", p.name, p.schema.type_word)),
            }
        }
        Some(b)
    }

    pub fn to_schema(&mut self, v: &Val, ann: &Ann) -> R<SchV> {
        let desc = a_str(ann, "description");
        let title = a_str(ann, "title");
        let required = a_bool(ann, "required");
        let examples = a_props(ann, "examples");
        let mut type_word = "unknown";
        let kind = match v {
            Val::Prim(k, w) => {
                type_word = w;
                (**k).clone()
            }
            Val::Uri(u) => SK::Str {
                pattern: None,
                enumeration: vec![],
                format: Some("uri-reference".into()),
                example: self.uri_example(u),
                min_length: None,
                max_length: None,
            },
            Val::Rel(r) => SK::Str {
                pattern: None,
                enumeration: vec![],
                format: Some("uri-reference".into()),
                example: self.uri_example(&r.uri),
                min_length: None,
                max_length: None,
            },
            Val::Obj(props) => {
                let mut names: Vec<&String> = props.iter().map(|p| &p.name).collect();
                names.sort();
                names.dedup();
                if names.len() != props.len() {
                    return unspec("duplicate property name in an object");
                }
                SK::Object {
                    props: props.iter().map(|p| (p.name.clone(), p.schema.s.clone())).collect(),
                    required: props
                        .iter()
                        .filter(|p| p.required.or(p.schema.required).unwrap_or(false))
                        .map(|p| p.name.clone())
                        .collect(),
                }
            }
            Val::Arr(i) => SK::Array(i.s.clone()),
            Val::Alt(op, ss) => {
                let v = ss.iter().map(|s| s.s.clone()).collect();
                match op {
                    Op::Join => SK::AllOf(v),
                    Op::Sum => SK::OneOf(v),
                    Op::Any => SK::AnyOf(v),
                    Op::Range => return stuck("ranges are not a schema"),
                }
            }
            Val::Named(n) => {
                return Ok(SchV {
                    s: S::Ref(n.clone()),
                    required,
                    examples,
                    type_word,
                })
            }
            Val::Node(n) => {
                return Ok(SchV {
                    s: S::Ref(format!("#{n}")),
                    required,
                    examples,
                    type_word,
                })
            }
            other => return stuck(&format!("not a schema: {}", val_name(other))),
        };
        Ok(SchV {
            s: S::Node(Box::new(doc::SchemaNode {
                kind,
                desc,
                title,
                extra: vec![],
            })),
            required,
            examples,
            type_word,
        })
    }

    fn to_content(&mut self, v: &Val, ann: &Ann) -> R<ContentV> {
        match v {
            Val::Content(c) => Ok((**c).clone()),
            Val::Ranges(_) => stuck("a :: value where one content is required"),
            Val::Named(_) | Val::Node(_) => {
                // A reference in content position is used as a schema.
                let s = self.to_schema(v, ann)?;
                Ok(ContentV {
                    desc: a_str(ann, "description"),
                    schema: Some(s),
                    ..Default::default()
                })
            }
            other => {
                let s = self.to_schema(other, ann)?;
                Ok(ContentV {
                    desc: a_str(ann, "description"),
                    schema: Some(s),
                    ..Default::default()
                })
            }
        }
    }

    fn to_ranges(&mut self, v: &Val, ann: &Ann) -> R<Vec<ContentV>> {
        match v {
            Val::Ranges(r) => Ok(r.clone()),
            other => Ok(vec![self.to_content(other, ann)?]),
        }
    }

    fn to_object(&self, v: &Val) -> R<Vec<PropV>> {
        match v {
            Val::Obj(p) => Ok(p.clone()),
            Val::Named(_) => match self.deref_named(v) {
                Some((inner, _)) => self.to_object(&inner),
                None => stuck("not an object: unresolved reference"),
            },
            other => stuck(&format!("not an object: {}", val_name(other))),
        }
    }

    fn to_property(&self, v: &Val) -> R<PropV> {
        match v {
            Val::Prop(p) => Ok((**p).clone()),
            other => stuck(&format!("not a property: {}", val_name(other))),
        }
    }

    fn to_uri(&self, v: &Val) -> R<UriV> {
        match v {
            Val::Uri(u) => Ok((**u).clone()),
            Val::Rel(r) => Ok(r.uri.clone()),
            Val::Named(_) => match self.deref_named(v) {
                Some((inner, _)) => self.to_uri(&inner),
                None => stuck("not a uri: unresolved reference"),
            },
            other => stuck(&format!("not a uri: {}", val_name(other))),
        }
    }

    fn to_relation(&self, v: &Val) -> R<RelV> {
        match v {
            Val::Rel(r) => Ok((**r).clone()),
            Val::Uri(u) => Ok(RelV {
                uri: (**u).clone(),
                xfers: BTreeMap::new(),
            }),
            Val::Named(_) => match self.deref_named(v) {
                Some((inner, _)) => self.to_relation(&inner),
                None => stuck("not a relation: unresolved reference"),
            },
            other => stuck(&format!("not a relation: {}", val_name(other))),
        }
    }

    fn to_status(&self, v: &Val) -> R<String> {
        match v {
            Val::StatusRange(n) => Ok(format!("{n}XX")),
            Val::Number(n) => {
                if (100..=599).contains(n) {
                    Ok(n.to_string())
                } else {
                    Err(Stop::Error("InvalidLiteral"))
                }
            }
            other => stuck(&format!("not a status: {}", val_name(other))),
        }
    }

    // --- evaluation ------------------------------------------------------------

    fn props_of(&mut self, items: &[E], env: &Env) -> R<Vec<PropV>> {
        let mut out = Vec::new();
        for it in items {
            let (v, _) = self.eval(it, env, Mapping::new())?;
            out.push(self.to_property(&v)?);
        }
        Ok(out)
    }

    pub fn eval(&mut self, e: &E, env: &Env, ann: Ann) -> R<(Val, Ann)> {
        self.depth += 1;
        if self.depth > 400 {
            self.depth -= 1;
            return unspec("evaluation deeper than the reference supports");
        }
        let r = self.eval_inner(e, env, ann);
        self.depth -= 1;
        r
    }

    fn eval_inner(&mut self, e: &E, env: &Env, ann: Ann) -> R<(Val, Ann)> {
        let empty = Mapping::new;
        match e {
            E::Ann(pre, inner, post) => {
                let mut own = Mapping::new();
                for a in pre {
                    deep_extend(&mut own, &parse_ann(a)?);
                }
                if let Some(a) = post {
                    deep_extend(&mut own, &parse_ann(a)?);
                }
                let mut next = ann;
                deep_extend(&mut next, &own);
                self.eval(inner, env, next)
            }
            E::Paren(inner) => self.eval(inner, env, ann),
            E::Prim(p) => {
                let v = match p {
                    Prim::Bool => Val::Prim(Box::new(SK::Bool), "boolean"),
                    Prim::Int => Val::Prim(
                        Box::new(SK::Int {
                            minimum: a_i64(&ann, "minimum"),
                            maximum: a_i64(&ann, "maximum"),
                            multiple_of: a_i64(&ann, "multipleOf"),
                            example: a_i64(&ann, "example"),
                        }),
                        "integer",
                    ),
                    Prim::Num => Val::Prim(
                        Box::new(SK::Num {
                            minimum: a_f64(&ann, "minimum"),
                            maximum: a_f64(&ann, "maximum"),
                            multiple_of: a_f64(&ann, "multipleOf"),
                            example: a_f64(&ann, "example"),
                        }),
                        "number",
                    ),
                    Prim::Str => {
                        let enumeration = a_strs(&ann, "enum").unwrap_or_default();
                        Val::Prim(
                            Box::new(SK::Str {
                                pattern: a_str(&ann, "pattern"),
                                example: a_str(&ann, "example").or_else(|| enumeration.first().cloned()),
                                enumeration,
                                format: a_str(&ann, "format"),
                                min_length: a_u64(&ann, "minLength"),
                                max_length: a_u64(&ann, "maxLength"),
                            }),
                            "string",
                        )
                    }
                    Prim::Uri => Val::Uri(Box::new(UriV {
                        path: vec![],
                        params: None,
                        example: a_str(&ann, "example"),
                    })),
                };
                Ok((v, ann))
            }
            E::Str(s) => Ok((Val::Text(s.clone()), ann)),
            E::Num(n) => Ok((Val::Number(*n), ann)),
            E::StatusRange(n) => Ok((Val::StatusRange(*n), ann)),
            E::Var(q, n) => self.lookup(env, q, n, ann),
            E::App(q, f, args) => {
                let (fv, _) = self.lookup(env, q, f, empty())?;
                match fv {
                    Val::Concat => {
                        if args.len() != 2 {
                            return stuck("concat arity");
                        }
                        let (l, _) = self.eval(&args[0], env, empty())?;
                        let (r, _) = self.eval(&args[1], env, empty())?;
                        let mut l = self.to_uri(&l)?;
                        let r = self.to_uri(&r)?;
                        if l.path.is_empty() || r.path.is_empty() {
                            return unspec("concat of the abstract `uri`");
                        }
                        if matches!(l.path.last(), Some(SegV::Lit(s)) if s.is_empty()) {
                            l.path.pop();
                        }
                        l.path.extend(r.path);
                        l.params = r.params;
                        l.example = None;
                        Ok((Val::Uri(Box::new(l)), ann))
                    }
                    Val::Fun(m, i) => {
                        let Stmt::Let {
                            anns, params, body, ..
                        } = &self.prog.modules[m].stmts[i]
                        else {
                            unreachable!()
                        };
                        if params.len() != args.len() {
                            return stuck("function arity");
                        }
                        let mut dup = params.clone();
                        dup.sort();
                        dup.dedup();
                        if dup.len() != params.len() {
                            return unspec("duplicate parameter name");
                        }
                        // Call by value: arguments are evaluated in the caller's environment,
                        // each from the empty annotation.
                        let mut locals = Rc::new(Locals::Nil);
                        for (p, a) in params.iter().zip(args.iter()) {
                            let va = self.eval(a, env, empty())?;
                            locals = Rc::new(Locals::Cons(p.clone(), va, locals));
                        }
                        let mut body_ann = Mapping::new();
                        for a in anns {
                            deep_extend(&mut body_ann, &parse_ann(a)?);
                        }
                        deep_extend(&mut body_ann, &ann);
                        // Lexical scoping: the body sees its own module and parameters only.
                        let fenv = Env { module: m, locals };
                        self.eval(body, &fenv, body_ann)
                    }
                    other => stuck(&format!("not a function: {}", val_name(&other))),
                }
            }
            E::Obj(items) => Ok((Val::Obj(self.props_of(items, env)?), ann)),
            E::Arr(inner) => {
                let (v, a) = self.eval(inner, env, empty())?;
                let s = self.to_schema(&v, &a)?;
                Ok((Val::Arr(Box::new(s)), ann))
            }
            E::Prop(name, mark, inner) => {
                let desc = a_str(&ann, "description");
                let req_ann = a_bool(&ann, "required");
                if req_ann.is_some() && mark.is_some() {
                    return unspec("required given both by mark and by annotation");
                }
                let (v, a) = self.eval(inner, env, empty())?;
                let schema = self.to_schema(&v, &a)?;
                Ok((
                    Val::Prop(Box::new(PropV {
                        name: name.clone(),
                        schema,
                        desc,
                        required: req_ann.or(*mark),
                    })),
                    ann,
                ))
            }
            E::Mark(inner, req) => {
                let (v, _) = self.eval(inner, env, empty())?;
                let mut p = self.to_property(&v)?;
                if p.required.is_some() && p.required != Some(*req) {
                    return unspec("conflicting optionality marks");
                }
                p.required = Some(*req);
                Ok((Val::Prop(Box::new(p)), ann))
            }
            E::Op(Op::Range, operands) => {
                let mut out: Vec<ContentV> = Vec::new();
                for o in operands {
                    let (v, a) = self.eval(o, env, empty())?;
                    for c in self.to_ranges(&v, &a)? {
                        if out.iter().any(|d| d.status == c.status && d.media == c.media) {
                            return unspec("identical (status, media) twice in one range");
                        }
                        out.push(c);
                    }
                }
                Ok((Val::Ranges(out), ann))
            }
            E::Op(op, operands) => {
                let mut ss = Vec::new();
                for o in operands {
                    let (v, a) = self.eval(o, env, empty())?;
                    ss.push(self.to_schema(&v, &a)?);
                }
                Ok((Val::Alt(*op, ss), ann))
            }
            E::Content(metas, body) => {
                let desc = a_str(&ann, "description");
                let examples = a_props(&ann, "examples");
                let schema = match body {
                    Some(b) => {
                        let (v, a) = self.eval(b, env, empty())?;
                        Some(self.to_schema(&v, &a)?)
                    }
                    None => None,
                };
                let mut c = ContentV {
                    status: if schema.is_none() { Some("204".into()) } else { None },
                    schema,
                    desc,
                    examples,
                    ..Default::default()
                };
                let mut seen = Vec::new();
                for (k, rhs) in metas {
                    if seen.contains(k) {
                        return unspec("the same content meta twice");
                    }
                    seen.push(*k);
                    let (v, _) = self.eval(rhs, env, empty())?;
                    match k {
                        Meta::Media => match &v {
                            Val::Text(s) => c.media = Some(s.clone()),
                            other => return stuck(&format!("not a string: {}", val_name(other))),
                        },
                        Meta::Headers => c.headers = Some(self.to_object(&v)?),
                        Meta::Status => c.status = Some(self.to_status(&v)?),
                    }
                }
                Ok((Val::Content(Box::new(c)), ann))
            }
            E::Uri(segs, params) => {
                let example = a_str(&ann, "example");
                let mut path = Vec::new();
                for s in segs {
                    match s {
                        Seg::Root => path.push(SegV::Lit(String::new())),
                        Seg::Lit(l) => path.push(SegV::Lit(l.clone())),
                        Seg::Var(v) => {
                            let (v, _) = self.eval(v, env, empty())?;
                            path.push(SegV::Var(self.to_property(&v)?));
                        }
                    }
                }
                let params = match params {
                    Some(ps) => Some(self.props_of(ps, env)?),
                    None => None,
                };
                Ok((
                    Val::Uri(Box::new(UriV {
                        path,
                        params,
                        example,
                    })),
                    ann,
                ))
            }
            E::Xfer {
                methods,
                params,
                domain,
                range,
            } => {
                let desc = a_str(&ann, "description");
                let summary = a_str(&ann, "summary");
                let tags = a_strs(&ann, "tags").unwrap_or_default();
                let id = a_str(&ann, "operationId");
                let domain = match domain {
                    Some(d) => {
                        let (v, a) = self.eval(d, env, empty())?;
                        self.to_content(&v, &a)?
                    }
                    None => ContentV::default(),
                };
                let (rv, ra) = self.eval(range, env, empty())?;
                let ranges = self.to_ranges(&rv, &ra)?;
                let params = match params {
                    Some(ps) => Some(self.props_of(ps, env)?),
                    None => None,
                };
                let mut ms = methods.clone();
                ms.sort();
                ms.dedup();
                Ok((
                    Val::Xfer(Box::new(XferV {
                        methods: ms,
                        domain,
                        ranges,
                        params,
                        desc,
                        summary,
                        tags,
                        id,
                    })),
                    ann,
                ))
            }
            E::Rel(uri, xfers) => {
                let (uv, _) = self.eval(uri, env, empty())?;
                let uri = self.to_uri(&uv)?;
                let mut map = BTreeMap::new();
                for x in xfers {
                    let (xv, _) = self.eval(x, env, empty())?;
                    let Val::Xfer(x) = xv else {
                        return stuck(&format!("not a transfer: {}", val_name(&xv)));
                    };
                    for m in x.methods.iter() {
                        if map.contains_key(m) {
                            return unspec("the same method in two transfers of one relation");
                        }
                        map.insert(*m, (*x).clone());
                    }
                }
                Ok((Val::Rel(Box::new(RelV { uri, xfers: map })), ann))
            }
            E::Rec(x, body) => {
                if self.rec_depth > 0 && !self.notes.contains(&"a rec nested in a rec") {
                    self.notes.push("a rec nested in a rec");
                }
                self.rec_depth += 1;
                self.nodes.push(None);
                let n = self.nodes.len() - 1;
                let locals = Rc::new(Locals::Cons(
                    x.clone(),
                    (Val::Node(n), Mapping::new()),
                    env.locals.clone(),
                ));
                let renv = Env {
                    module: env.module,
                    locals,
                };
                let r = self.eval(body, &renv, ann);
                self.rec_depth -= 1;
                let (v, a) = r?;
                let s = self.to_schema(&v, &a)?;
                self.nodes[n] = Some(s.s);
                if self.unguarded(n) {
                    return stuck("unguarded recursion");
                }
                self.recursion_points += 1;
                Ok((Val::Node(n), Mapping::new()))
            }
        }
    }

    // --- emission ----------------------------------------------------------------

    fn param(&self, p: &PropV, loc: &str, required: bool) -> doc::Param {
        doc::Param {
            name: p.name.clone(),
            loc: loc.to_owned(),
            required,
            desc: p.desc.clone(),
            schema: p.schema.s.clone(),
        }
    }

    fn media(&self, c: &ContentV) -> doc::Media {
        let examples = c
            .examples
            .clone()
            .or_else(|| c.schema.as_ref().and_then(|s| s.examples.clone()))
            .unwrap_or_default();
        doc::Media {
            schema: c.schema.as_ref().map(|s| s.s.clone()),
            examples,
        }
    }

    fn path_key(u: &UriV) -> String {
        let mut b = String::new();
        for s in u.path.iter() {
            b.push('/');
            match s {
                SegV::Lit(l) => b.push_str(l),
                SegV::Var(p) => b.push_str(&format!("{{{}}}", p.name)),
            }
        }
        b
    }

    fn operation_id(m: Method, u: &UriV) -> String {
        let mut parts = vec![m.name().to_owned()];
        for s in u.path.iter() {
            parts.push(match s {
                SegV::Lit(l) if l.is_empty() => "root".to_owned(),
                SegV::Lit(l) => l.to_lowercase(),
                SegV::Var(p) => p.name.to_lowercase(),
            });
        }
        parts.join("-")
    }

    fn path_item(&self, r: &RelV) -> R<doc::PathItem> {
        let mut pi = doc::PathItem::default();
        let mut names = Vec::new();
        for s in r.uri.path.iter() {
            if let SegV::Var(p) = s {
                if names.contains(&p.name) {
                    return unspec("repeated variable name inside one path");
                }
                names.push(p.name.clone());
                pi.params.push(self.param(p, "path", true));
            }
        }
        for p in r.uri.params.iter().flatten() {
            pi.params.push(self.param(p, "query", p.required.unwrap_or(false)));
        }
        for (m, x) in r.xfers.iter() {
            let id = x.id.clone().unwrap_or_else(|| Self::operation_id(*m, &r.uri));
            let mut op = doc::Operation {
                id: Some(id.clone()),
                summary: x.summary.clone().or_else(|| x.desc.clone()).or(Some(id)),
                desc: x.desc.clone(),
                tags: x.tags.clone(),
                ..Default::default()
            };
            for p in x.params.iter().flatten() {
                op.params.push(self.param(p, "query", p.required.unwrap_or(false)));
            }
            for p in x.domain.headers.iter().flatten() {
                op.params.push(self.param(p, "header", p.required.unwrap_or(false)));
            }
            if x.domain.schema.is_some() {
                let media = x.domain.media.clone().unwrap_or_else(|| "application/json".into());
                op.body = Some(doc::Body {
                    desc: x.domain.desc.clone(),
                    content: vec![(media, self.media(&x.domain))],
                });
            }
            for c in x.ranges.iter() {
                let key = c.status.clone().unwrap_or_else(|| "default".into());
                let pos = match op.responses.iter().position(|(k, _)| *k == key) {
                    Some(p) => {
                        // Several contents under one response key: one description and one
                        // header set only.
                        let prev = &op.responses[p].1;
                        let headers: Vec<(String, doc::Header)> = self.headers(c);
                        if prev.desc != c.desc.clone().unwrap_or_default() || prev.headers != headers {
                            return unspec(
                                "two contents with the same status but different headers or descriptions",
                            );
                        }
                        p
                    }
                    None => {
                        op.responses.push((
                            key,
                            doc::Response {
                                desc: c.desc.clone().unwrap_or_default(),
                                headers: self.headers(c),
                                content: vec![],
                            },
                        ));
                        op.responses.len() - 1
                    }
                };
                if c.schema.is_some() {
                    let media = c.media.clone().unwrap_or_else(|| "application/json".into());
                    if op.responses[pos].1.content.iter().any(|(m, _)| *m == media) {
                        return unspec("identical (status, media) twice in one range");
                    }
                    op.responses[pos].1.content.push((media, self.media(c)));
                }
            }
            pi.ops.insert(m.name().to_owned(), op);
        }
        Ok(pi)
    }

    fn headers(&self, c: &ContentV) -> Vec<(String, doc::Header)> {
        c.headers
            .iter()
            .flatten()
            .map(|p| {
                (
                    p.name.clone(),
                    doc::Header {
                        required: p.required.unwrap_or(false),
                        desc: p.desc.clone(),
                        schema: p.schema.s.clone(),
                    },
                )
            })
            .collect()
    }

    pub fn program(mut self) -> R<(Doc, usize)> {
        let env = Env {
            module: 0,
            locals: Rc::new(Locals::Nil),
        };
        let mut doc = Doc::default();
        let prog = self.prog;
        for s in prog.modules[0].stmts.iter() {
            if let Stmt::Res(e) = s {
                let (v, _) = self.eval(e, &env, Mapping::new())?;
                let r = self.to_relation(&v)?;
                let key = Self::path_key(&r.uri);
                let pi = self.path_item(&r)?;
                if let Some(pos) = doc.paths.iter().position(|(k, _)| *k == key) {
                    // One path item per path: the operations of both resources belong to it.
                    if !self.notes.contains(&"the same path in two resources") {
                        self.notes.push("the same path in two resources");
                    }
                    let prev = &mut doc.paths[pos].1;
                    if prev.params != pi.params {
                        return unspec("the same path in two resources with different path-level parameters");
                    }
                    for (m, op) in pi.ops {
                        if prev.ops.contains_key(&m) {
                            return unspec("the same method of the same path in two resources");
                        }
                        prev.ops.insert(m, op);
                    }
                } else {
                    doc.paths.push((key, pi));
                }
            }
        }
        for (n, s) in self.named.iter() {
            doc.components.insert(n.clone(), s.clone());
        }
        for (i, s) in self.nodes.iter().enumerate() {
            match s {
                Some(s) => {
                    doc.components.insert(format!("#{i}"), s.clone());
                }
                None => return stuck("recursion point without a value"),
            }
        }
        NOTES.with(|n| *n.borrow_mut() = self.notes.clone());
        Ok((doc, self.recursion_points))
    }
}

thread_local! {
    static NOTES: std::cell::RefCell<Vec<&'static str>> = const { std::cell::RefCell::new(Vec::new()) };
}

/// Collisions met by the last successful `meaning` call on this thread.
pub fn last_notes() -> Vec<&'static str> {
    NOTES.with(|n| n.borrow().clone())
}

fn val_name(v: &Val) -> &'static str {
    match v {
        Val::Num | Val::Int | Val::Str | Val::Bool | Val::Prim(..) => "primitive",
        Val::Uri(_) => "uri",
        Val::Rel(_) => "relation",
        Val::Obj(_) => "object",
        Val::Arr(_) => "array",
        Val::Alt(..) => "operator",
        Val::Ranges(_) => "ranges",
        Val::Content(_) => "content",
        Val::Prop(_) => "property",
        Val::Xfer(_) => "transfer",
        Val::Text(_) => "text",
        Val::Number(_) => "number",
        Val::StatusRange(_) => "status",
        Val::Fun(..) | Val::Concat => "function",
        Val::Named(_) => "reference",
        Val::Node(_) => "recursion",
    }
}

/// The reference meaning of a program.
pub fn meaning(p: &Program) -> Result<(Doc, usize), Stop> {
    NOTES.with(|n| n.borrow_mut().clear());
    Ev::new(p).program()
}

// ===========================================================================
// Reference resolver: identifier uses -> binders, lexically.

#[derive(Clone, Debug, PartialEq, Eq)]
pub enum Bind {
    /// Index (into `Printed::occs`) of the binder occurrence.
    Binder(usize),
    Builtin,
    Unbound,
    Unspecified(&'static str),
}

#[derive(Clone, Debug, Default)]
pub struct Resolution {
    /// For every occurrence index of kind `Use`: what it denotes.
    pub uses: Vec<(usize, Bind)>,
    pub duplicates: bool,
    pub unbound: bool,
    pub unspecified: Option<&'static str>,
    /// A declaration has the name of something an unqualified import provides: the
    /// property lets the declaration win; reporting the pair as a duplicate is tolerated.
    pub decl_vs_import: bool,
}

struct Res<'a> {
    p: &'a Program,
    printed: &'a Printed,
    next: usize,
    out: Resolution,
    /// module -> (name -> occ index of the declaration name); None value = duplicate
    decls: Vec<HashMap<String, usize>>,
}

impl Res<'_> {
    fn take(&mut self, kind: OccKind, text: &str) -> usize {
        let i = self.next;
        let o = &self.printed.occs[i];
        assert!(o.kind == kind && o.text == text, "resolver and printer disagree at {i}: {o:?} vs {kind:?} {text}");
        self.next += 1;
        i
    }

    fn lookup(&mut self, module: usize, q: &Option<String>, n: &str, locals: &[(String, usize)]) -> Bind {
        if q.is_none() {
            if let Some((_, i)) = locals.iter().rev().find(|(k, _)| k == n) {
                return Bind::Binder(*i);
            }
            if let Some(i) = self.decls[module].get(n) {
                // also when the name is that of a built-in: the declaration comes first
                return Bind::Binder(*i);
            }
        }
        let found = self.imported(module, q, n);
        match found.len() {
            0 => {}
            1 => {
                if q.is_none() && n == "concat" {
                    return Bind::Unspecified("import shadows a built-in");
                }
                return Bind::Binder(found[0]);
            }
            _ => return Bind::Unspecified("two imports provide the same name"),
        }
        if q.is_none() && n == "concat" {
            return Bind::Builtin;
        }
        Bind::Unbound
    }

    fn imported(&self, module: usize, q: &Option<String>, n: &str) -> Vec<usize> {
        let mut found = Vec::new();
        for s in self.p.modules[module].stmts.iter() {
            if let Stmt::Use(path, qual) = s {
                if qual == q {
                    if let Some(mi) = module_index(self.p, module, path) {
                        if let Some(i) = self.decls[mi].get(n) {
                            if !found.contains(i) {
                                found.push(*i);
                            }
                        }
                    }
                }
            }
        }
        found
    }

    fn var(&mut self, module: usize, q: &Option<String>, n: &str, locals: &[(String, usize)]) {
        if let Some(q) = q {
            self.take(OccKind::UseQualifier, q);
        }
        let i = self.take(OccKind::Use, n);
        let b = self.lookup(module, q, n, locals);
        match &b {
            Bind::Unbound => self.out.unbound = true,
            Bind::Unspecified(w) => self.out.unspecified = Some(w),
            _ => {}
        }
        self.out.uses.push((i, b));
    }

    fn list(&mut self, m: usize, v: &[E], l: &mut Vec<(String, usize)>) {
        for e in v {
            self.expr(m, e, l);
        }
    }

    fn expr(&mut self, m: usize, e: &E, l: &mut Vec<(String, usize)>) {
        match e {
            E::Prim(_) | E::Str(_) | E::Num(_) | E::StatusRange(_) => {}
            E::Var(q, n) => self.var(m, q, n, l),
            E::App(q, f, args) => {
                self.var(m, q, f, l);
                self.list(m, args, l);
            }
            E::Obj(v) | E::Op(_, v) => self.list(m, v, l),
            E::Arr(i) | E::Paren(i) | E::Mark(i, _) | E::Prop(_, _, i) | E::Ann(_, i, _) => self.expr(m, i, l),
            E::Content(metas, body) => {
                for (_, v) in metas {
                    self.expr(m, v, l);
                }
                if let Some(b) = body {
                    self.expr(m, b, l);
                }
            }
            E::Uri(segs, params) => {
                for s in segs {
                    if let Seg::Var(v) = s {
                        self.expr(m, v, l);
                    }
                }
                if let Some(ps) = params {
                    self.list(m, ps, l);
                }
            }
            E::Xfer { params, domain, range, .. } => {
                if let Some(ps) = params {
                    self.list(m, ps, l);
                }
                if let Some(d) = domain {
                    self.expr(m, d, l);
                }
                self.expr(m, range, l);
            }
            E::Rel(u, xs) => {
                self.expr(m, u, l);
                self.list(m, xs, l);
            }
            E::Rec(x, body) => {
                let i = self.take(OccKind::RecBinder, x);
                l.push((x.clone(), i));
                self.expr(m, body, l);
                l.pop();
            }
        }
    }
}

/// Resolves every identifier use of a printed program.
pub fn resolve(p: &Program, printed: &Printed) -> Resolution {
    // First pass: declaration names per module (order-free), in print order.
    let mut decls: Vec<HashMap<String, usize>> = vec![HashMap::new(); p.modules.len()];
    let mut duplicates = false;
    for (i, o) in printed.occs.iter().enumerate() {
        if o.kind == OccKind::DeclName && decls[o.module].insert(o.text.clone(), i).is_some() {
            duplicates = true;
        }
    }
    let mut r = Res {
        p,
        printed,
        next: 0,
        out: Resolution {
            duplicates,
            ..Default::default()
        },
        decls,
    };
    // Collisions the property does not order, whether or not the name is ever used.
    for mi in 0..p.modules.len() {
        let names: Vec<String> = r.decls[mi].keys().cloned().collect();
        for n in names {
            if n == "concat" || !r.imported(mi, &None, &n).is_empty() {
                // the declaration must win if the program is accepted; reporting the pair as a
                // duplicate is tolerated
                r.out.decl_vs_import = true;
            }
        }
    }
    for (mi, m) in p.modules.iter().enumerate() {
        for s in m.stmts.iter() {
            match s {
                Stmt::Use(_, q) => {
                    if let Some(q) = q {
                        r.take(OccKind::ImportQualifier, q);
                    }
                }
                Stmt::Let { name, params, body, .. } => {
                    r.take(OccKind::DeclName, name);
                    let mut locals: Vec<(String, usize)> = Vec::new();
                    for x in params {
                        let i = r.take(OccKind::Param, x);
                        if locals.iter().any(|(k, _)| k == x) {
                            r.out.unspecified = Some("duplicate parameter name");
                        }
                        locals.push((x.clone(), i));
                    }
                    r.expr(mi, body, &mut locals);
                }
                Stmt::Res(e) => {
                    let mut locals = Vec::new();
                    r.expr(mi, e, &mut locals);
                }
            }
        }
    }
    assert_eq!(r.next, printed.occs.len(), "resolver did not consume every occurrence");
    r.out
}
