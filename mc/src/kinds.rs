//! Reference kind checker for single-module programs (DESIGN.md Appendix A.1):
//! constraint table per syntax form, solved by a textbook Robinson unifier over finite
//! terms with a complete occurs check, then the kind predicates, then the cycle rule
//! ("the declaration graph restricted to non-referential declarations is acyclic").

use crate::gen::*;
use std::collections::HashMap;

#[derive(Clone, Debug, PartialEq, Eq)]
pub enum K {
    Text,
    Number,
    Status,
    Primitive,
    Relation,
    Object,
    Content,
    Transfer,
    Array,
    Uri,
    Any,
    Property(Box<K>),
    Func(Vec<K>, Box<K>),
    Var(usize),
}

#[derive(Clone, Debug, PartialEq, Eq)]
pub enum Verdict {
    Accept,
    /// unbound identifier / duplicate declaration
    NotInScope,
    Duplicate,
    /// constraints unsolvable, a kind predicate fails, or a cycle without a cut point
    InvalidType(String),
    /// outside what this checker models (imports, collisions)
    Unsupported(&'static str),
}

#[derive(Default)]
struct Subst {
    map: HashMap<usize, K>,
}

impl Subst {
    fn walk(&self, k: &K) -> K {
        match k {
            K::Var(v) => match self.map.get(v) {
                Some(t) => self.walk(t),
                None => k.clone(),
            },
            _ => k.clone(),
        }
    }
    fn resolve(&self, k: &K) -> K {
        match self.walk(k) {
            K::Property(p) => K::Property(Box::new(self.resolve(&p))),
            K::Func(a, r) => K::Func(a.iter().map(|x| self.resolve(x)).collect(), Box::new(self.resolve(&r))),
            other => other,
        }
    }
    fn occurs(&self, v: usize, k: &K) -> bool {
        match self.walk(k) {
            K::Var(w) => v == w,
            K::Property(p) => self.occurs(v, &p),
            K::Func(a, r) => a.iter().any(|x| self.occurs(v, x)) || self.occurs(v, &r),
            _ => false,
        }
    }
    fn unify(&mut self, a: &K, b: &K) -> Result<(), String> {
        let (a, b) = (self.walk(a), self.walk(b));
        match (&a, &b) {
            _ if a == b => Ok(()),
            (K::Var(v), t) | (t, K::Var(v)) => {
                if self.occurs(*v, t) {
                    Err("infinite kind".into())
                } else {
                    self.map.insert(*v, t.clone());
                    Ok(())
                }
            }
            (K::Property(x), K::Property(y)) => self.unify(x, y),
            (K::Func(xa, xr), K::Func(ya, yr)) => {
                if xa.len() != ya.len() {
                    return Err("function arity".into());
                }
                self.unify(xr, yr)?;
                for (x, y) in xa.iter().zip(ya.iter()) {
                    self.unify(x, y)?;
                }
                Ok(())
            }
            _ => Err(format!("{a:?} does not match {b:?}")),
        }
    }
}

#[derive(Clone, Copy, Debug)]
enum Pred {
    Schema,
    ContentLike,
    StatusLike,
    RelationLike,
    Property,
    SchemaNotUri,
}

fn holds(p: Pred, k: &K) -> bool {
    let var = matches!(k, K::Var(_));
    let schema = matches!(k, K::Primitive | K::Relation | K::Object | K::Array | K::Uri | K::Any);
    match p {
        Pred::Schema => var || schema,
        Pred::ContentLike => var || schema || *k == K::Content,
        Pred::StatusLike => var || matches!(k, K::Status | K::Number),
        Pred::RelationLike => var || matches!(k, K::Relation | K::Uri),
        Pred::Property => var || matches!(k, K::Property(_)),
        // An unsolved variable does not pass: is_uri(Var) holds in the implementation.
        Pred::SchemaNotUri => schema && *k != K::Uri,
    }
}

struct Ck<'a> {
    decls: HashMap<&'a str, (usize, K)>,
    next: usize,
    eqs: Vec<(K, K)>,
    checks: Vec<(Pred, K, &'static str)>,
    /// declaration index -> declaration indices it uses
    edges: Vec<Vec<usize>>,
    unbound: bool,
}

impl<'a> Ck<'a> {
    fn fresh(&mut self) -> K {
        self.next += 1;
        K::Var(self.next - 1)
    }

    fn lookup(&mut self, n: &str, locals: &[(String, K)], from: Option<usize>) -> K {
        if let Some((_, k)) = locals.iter().rev().find(|(x, _)| x == n) {
            return k.clone();
        }
        if let Some((i, k)) = self.decls.get(n) {
            if let Some(f) = from {
                self.edges[f].push(*i);
            }
            return k.clone();
        }
        if n == "concat" {
            return K::Func(vec![K::Uri, K::Uri], Box::new(K::Uri));
        }
        self.unbound = true;
        self.fresh()
    }

    fn list(&mut self, v: &[E], l: &mut Vec<(String, K)>, from: Option<usize>) -> Vec<K> {
        v.iter().map(|e| self.kind(e, l, from)).collect()
    }

    fn kind(&mut self, e: &E, l: &mut Vec<(String, K)>, from: Option<usize>) -> K {
        match e {
            E::Str(_) => K::Text,
            E::Num(_) => K::Number,
            E::StatusRange(_) => K::Status,
            E::Prim(_) => K::Primitive,
            E::Var(_, n) => self.lookup(n, l, from),
            E::App(_, f, args) => {
                let fk = self.lookup(f, l, from);
                let ak = self.list(args, l, from);
                let v = self.fresh();
                self.eqs.push((fk, K::Func(ak, Box::new(v.clone()))));
                v
            }
            E::Obj(items) => {
                for k in self.list(items, l, from) {
                    self.checks.push((Pred::Property, k, "object member"));
                }
                K::Object
            }
            E::Arr(i) => {
                let k = self.kind(i, l, from);
                self.checks.push((Pred::Schema, k, "array item"));
                K::Array
            }
            E::Prop(_, _, i) => {
                let k = self.kind(i, l, from);
                self.checks.push((Pred::Schema, k.clone(), "property value"));
                K::Property(Box::new(k))
            }
            E::Mark(i, _) => {
                let k = self.kind(i, l, from);
                let v = self.fresh();
                let node = K::Property(Box::new(v));
                self.eqs.push((node.clone(), k.clone()));
                self.checks.push((Pred::Property, k, "optionality operand"));
                node
            }
            E::Op(op, operands) => {
                let ks = self.list(operands, l, from);
                match op {
                    Op::Join => {
                        for k in ks {
                            self.eqs.push((k, K::Object));
                        }
                        K::Object
                    }
                    Op::Sum => {
                        let v = self.fresh();
                        for k in ks {
                            self.eqs.push((k.clone(), v.clone()));
                            self.checks.push((Pred::Schema, k, "alternative"));
                        }
                        v
                    }
                    Op::Any => {
                        for k in ks {
                            self.checks.push((Pred::Schema, k, "alternative"));
                        }
                        K::Any
                    }
                    Op::Range => {
                        for k in ks {
                            self.checks.push((Pred::ContentLike, k, "range operand"));
                        }
                        K::Content
                    }
                }
            }
            E::Content(metas, body) => {
                for (m, v) in metas {
                    let k = self.kind(v, l, from);
                    match m {
                        Meta::Headers => {
                            self.eqs.push((k.clone(), K::Object));
                            self.checks.push((Pred::Schema, k, "headers"));
                        }
                        Meta::Media => self.eqs.push((k, K::Text)),
                        Meta::Status => self.checks.push((Pred::StatusLike, k, "status")),
                    }
                }
                if let Some(b) = body {
                    let k = self.kind(b, l, from);
                    self.checks.push((Pred::Schema, k, "content body"));
                }
                K::Content
            }
            E::Uri(segs, params) => {
                for s in segs {
                    if let Seg::Var(v) = s {
                        let k = self.kind(v, l, from);
                        self.eqs.push((k, K::Property(Box::new(K::Primitive))));
                    }
                }
                if let Some(ps) = params {
                    for k in self.list(ps, l, from) {
                        self.checks.push((Pred::Property, k, "object member"));
                    }
                }
                K::Uri
            }
            E::Xfer { params, domain, range, .. } => {
                if let Some(ps) = params {
                    for k in self.list(ps, l, from) {
                        self.checks.push((Pred::Property, k, "object member"));
                    }
                }
                if let Some(d) = domain {
                    let k = self.kind(d, l, from);
                    self.checks.push((Pred::ContentLike, k, "domain"));
                }
                let k = self.kind(range, l, from);
                self.checks.push((Pred::ContentLike, k, "range"));
                K::Transfer
            }
            E::Rel(u, xs) => {
                let k = self.kind(u, l, from);
                self.eqs.push((k, K::Uri));
                for k in self.list(xs, l, from) {
                    self.eqs.push((k, K::Transfer));
                }
                K::Relation
            }
            E::Rec(x, body) => {
                let v = self.fresh();
                l.push((x.clone(), v.clone()));
                let k = self.kind(body, l, from);
                l.pop();
                self.eqs.push((v.clone(), k));
                self.checks.push((Pred::SchemaNotUri, v.clone(), "recursion"));
                v
            }
            E::Paren(i) | E::Ann(_, i, _) => self.kind(i, l, from),
        }
    }
}

/// The reference verdict for a single-module program.
pub fn verdict(p: &Program) -> Verdict {
    if p.modules.len() != 1 {
        return Verdict::Unsupported("several modules");
    }
    let m = &p.modules[0];
    let mut ck = Ck {
        decls: HashMap::new(),
        next: 0,
        eqs: vec![],
        checks: vec![],
        edges: vec![],
        unbound: false,
    };
    let mut duplicate = false;
    let mut idx = 0;
    for s in m.stmts.iter() {
        match s {
            Stmt::Use(..) => return Verdict::Unsupported("imports"),
            Stmt::Let { name, .. } => {
                if name == "concat" {
                    return Verdict::Unsupported("declaration shadows a built-in");
                }
                let v = ck.fresh();
                if ck.decls.insert(name.as_str(), (idx, v)).is_some() {
                    duplicate = true;
                }
                ck.edges.push(vec![]);
                idx += 1;
            }
            Stmt::Res(_) => {}
        }
    }
    if duplicate {
        return Verdict::Duplicate;
    }
    let mut decl_kinds: Vec<(K, bool)> = Vec::new();
    for s in m.stmts.iter() {
        match s {
            Stmt::Let { name, params, body, .. } => {
                let (i, dk) = ck.decls[name.as_str()].clone();
                let mut locals: Vec<(String, K)> = Vec::new();
                let mut pk = Vec::new();
                for x in params {
                    let v = ck.fresh();
                    pk.push(v.clone());
                    locals.push((x.clone(), v));
                }
                let bk = ck.kind(body, &mut locals, Some(i));
                if name.starts_with('@') {
                    ck.checks.push((Pred::Schema, bk.clone(), "@reference"));
                }
                let k = if params.is_empty() { bk } else { K::Func(pk, Box::new(bk)) };
                ck.eqs.push((dk.clone(), k));
                decl_kinds.push((dk, !params.is_empty()));
            }
            Stmt::Res(e) => {
                let mut locals = Vec::new();
                let k = ck.kind(e, &mut locals, None);
                ck.checks.push((Pred::RelationLike, k, "resource"));
            }
            Stmt::Use(..) => {}
        }
    }
    if ck.unbound {
        return Verdict::NotInScope;
    }
    let mut s = Subst::default();
    for (a, b) in ck.eqs.iter() {
        if let Err(e) = s.unify(a, b) {
            return Verdict::InvalidType(format!("unification: {e}"));
        }
    }
    // Cycle rule before the predicates, as both give the same error class.
    let referential: Vec<bool> = decl_kinds
        .iter()
        .map(|(k, _)| holds(Pred::SchemaNotUri, &s.resolve(k)))
        .collect();
    let n = decl_kinds.len();
    // DFS for a cycle inside the non-referential sub-graph (self loops included).
    let mut color = vec![0u8; n];
    fn dfs(u: usize, edges: &[Vec<usize>], referential: &[bool], color: &mut [u8]) -> bool {
        color[u] = 1;
        for &v in edges[u].iter() {
            if referential[v] {
                continue;
            }
            if color[v] == 1 || (color[v] == 0 && dfs(v, edges, referential, color)) {
                return true;
            }
        }
        color[u] = 2;
        false
    }
    for u in 0..n {
        if !referential[u] && color[u] == 0 && dfs(u, &ck.edges, &referential, &mut color) {
            return Verdict::InvalidType("cycle without a schema to cut at".into());
        }
    }
    for (p, k, what) in ck.checks.iter() {
        let k = s.resolve(k);
        if !holds(*p, &k) {
            return Verdict::InvalidType(format!("ill-formed {what}: {k:?}"));
        }
    }
    Verdict::Accept
}
