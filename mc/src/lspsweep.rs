//! Shared machinery of the cursor sweeps (C17, C18): program texts in two layouts (plain;
//! multi-byte trivia + CRLF), identifier occurrences mapped to editor positions, and the
//! enumeration of every cursor position of every file.

use crate::gen::*;
use crate::refsem::{self, Bind, Resolution};
use crate::textmodel::{LineTable, Pos};
use serde_json::Value;

pub const PREFIX: &str = "/* \u{e9}\u{1F609}\u{2028} */ ";

/// A program laid out as files, with its identifier occurrences in byte offsets of those
/// files and the reference binding relation.
pub struct Layout {
    /// Sub-directory of the scratch directory that is handed to the server as the workspace
    /// folder (files whose name starts with `../` then lie outside the folder).
    pub folder: Option<&'static str>,
    pub texts: Vec<(String, String)>,
    pub occs: Vec<Occ>,
    pub constructs: Vec<(usize, usize, usize)>,
    pub reso: Resolution,
}

fn remap(text: &str, o: usize) -> usize {
    PREFIX.len() + o + text[..o].matches('\n').count()
}

/// Applies `f` to every identifier of a program (declaration names, parameters, rec binders,
/// import qualifiers, variable and application names and qualifiers; not property names).
pub fn rename_identifiers(p: &Program, f: &dyn Fn(&str) -> String) -> Program {
    fn walk(v: &mut Value, f: &dyn Fn(&str) -> String) {
        let ren = |x: &mut Value, f: &dyn Fn(&str) -> String| {
            if let Some(s) = x.as_str() {
                *x = Value::String(f(s));
            }
        };
        match v {
            Value::Object(m) => {
                for (k, x) in m.iter_mut() {
                    match k.as_str() {
                        "Var" | "App" => {
                            if let Some(a) = x.as_array_mut() {
                                if a.len() >= 2 && a[1].is_string() {
                                    ren(&mut a[0], f);
                                    ren(&mut a[1], f);
                                }
                            }
                        }
                        "Rec" => {
                            if let Some(a) = x.as_array_mut() {
                                if !a.is_empty() {
                                    ren(&mut a[0], f);
                                }
                            }
                        }
                        "Use" => {
                            if let Some(a) = x.as_array_mut() {
                                if a.len() == 2 {
                                    ren(&mut a[1], f);
                                }
                            }
                        }
                        "Let" => {
                            if let Some(o) = x.as_object_mut() {
                                if let Some(n) = o.get_mut("name") {
                                    ren(n, f);
                                }
                                if let Some(ps) = o.get_mut("params").and_then(|p| p.as_array_mut()) {
                                    for q in ps.iter_mut() {
                                        ren(q, f);
                                    }
                                }
                            }
                        }
                        _ => {}
                    }
                    walk(x, f);
                }
            }
            Value::Array(a) => {
                for x in a.iter_mut() {
                    walk(x, f);
                }
            }
            _ => {}
        }
    }
    let mut v = serde_json::to_value(p).expect("program to json");
    walk(&mut v, f);
    serde_json::from_value(v).expect("program from json")
}

/// Variant 2 applies to programs of several modules in one directory whose main module
/// imports by plain file names: every other module then lies outside the workspace folder.
pub fn outside_applicable(p: &Program) -> bool {
    p.modules.len() > 1
        && p.modules.iter().all(|m| !m.name.contains('/'))
        && p.modules.iter().all(|m| m.stmts.iter().all(|s| !matches!(s, Stmt::Use(path, _) if path.contains('/'))))
}

/// The layouts in which a program is swept.
pub fn variants_of(p: &Program) -> Vec<usize> {
    if outside_applicable(p) {
        vec![0, 1, 2]
    } else {
        vec![0, 1]
    }
}

/// `variant` 0: as printed; 1: every identifier spelled with `-` and `$` inside, every module
/// prefixed with a multi-byte block comment, with CRLF line ends and with blanks around the
/// dot of every qualified name; 2: the workspace folder
/// holds only the main module, the others lie in a sibling directory and are imported as
/// `../shared/<file>`.
pub fn layout(p: &Program, variant: usize) -> Layout {
    let renamed;
    let p = match variant {
        1 => {
            renamed = rename_identifiers(p, &|n| if n == "concat" { n.to_owned() } else { format!("{n}-k$9") });
            &renamed
        }
        2 => {
            let mut q = p.clone();
            for (i, m) in q.modules.iter_mut().enumerate() {
                if i > 0 {
                    m.name = format!("../shared/{}", m.name);
                } else {
                    for s in m.stmts.iter_mut() {
                        if let Stmt::Use(path, _) = s {
                            *path = format!("../shared/{path}");
                        }
                    }
                }
            }
            renamed = q;
            &renamed
        }
        _ => p,
    };
    // the second layout also writes qualified names with blanks around the dot
    let printed = if variant == 1 { crate::gen::print_spaced_dots(p) } else { print(p) };
    let reso = refsem::resolve(p, &printed);
    if variant != 1 {
        return Layout {
            folder: if variant == 2 { Some("app") } else { None },
            texts: printed.texts.clone(),
            occs: printed.occs.clone(),
            constructs: printed.constructs.clone(),
            reso,
        };
    }
    let texts: Vec<(String, String)> = printed
        .texts
        .iter()
        .map(|(n, t)| (n.clone(), format!("{PREFIX}{}", t.replace('\n', "\r\n"))))
        .collect();
    let occs = printed
        .occs
        .iter()
        .map(|o| {
            let t = &printed.texts[o.module].1;
            Occ {
                start: remap(t, o.start),
                end: remap(t, o.end),
                whole: (remap(t, o.whole.0), remap(t, o.whole.1)),
                ..o.clone()
            }
        })
        .collect();
    let constructs = printed
        .constructs
        .iter()
        .map(|(m, s, e)| {
            let t = &printed.texts[*m].1;
            (*m, remap(t, *s), remap(t, *e))
        })
        .collect();
    Layout {
        folder: None,
        texts,
        occs,
        constructs,
        reso,
    }
}

#[derive(Clone, Copy, Debug, PartialEq, Eq)]
pub enum At {
    /// Inside the identifier occurrence with that index.
    Occ(usize),
    /// Exactly at the end of an identifier (the language server may or may not count it).
    IdentEnd,
    /// Not in an identifier.
    Elsewhere,
}

impl Layout {
    /// Creates the files of the layout in a scratch directory and starts the real server on
    /// its workspace folder.
    pub fn start(&self) -> Result<(crate::lspdrv::TempWorkspace, crate::lspdrv::LspServer), (String, String)> {
        use crate::lspdrv::{LspServer, TempWorkspace, OAL_TOML};
        let mut files: Vec<(String, &str)> = Vec::new();
        match self.folder {
            None => {
                for (n, t) in self.texts.iter() {
                    files.push((n.clone(), t.as_str()));
                }
            }
            Some(dir) => {
                files.push((format!("{dir}/oal.toml"), OAL_TOML));
                for (n, t) in self.texts.iter() {
                    match n.strip_prefix("../") {
                        Some(outside) => files.push((outside.to_owned(), t.as_str())),
                        None => files.push((format!("{dir}/{n}"), t.as_str())),
                    }
                }
            }
        }
        let refs: Vec<(&str, &str)> = files.iter().map(|(n, t)| (n.as_str(), *t)).collect();
        let ws = TempWorkspace::new(&refs).map_err(|e| ("harness: workspace".to_owned(), e.to_string()))?;
        let folder = match self.folder {
            None => ws.path().to_owned(),
            Some(dir) => ws.path().join(dir),
        };
        let srv = LspServer::start(&folder).map_err(|e| ("harness: cannot start oal-lsp".to_owned(), e.to_string()))?;
        Ok((ws, srv))
    }

    pub fn module_index(&self, file: &str) -> Option<usize> {
        self.texts.iter().position(|(n, _)| n == file)
    }

    pub fn classify(&self, module: usize, offset: usize) -> At {
        for (i, o) in self.occs.iter().enumerate() {
            if o.module == module && o.start <= offset && offset < o.end {
                return At::Occ(i);
            }
        }
        // Reserved words and other identifier-like tokens are not occurrences; a position
        // at the end of an occurrence is left to the server's discretion.
        if self.occs.iter().any(|o| o.module == module && o.end == offset) {
            return At::IdentEnd;
        }
        At::Elsewhere
    }

    /// What the use occurrence denotes.
    pub fn binding(&self, occ: usize) -> Option<&Bind> {
        self.reso.uses.iter().find(|(u, _)| *u == occ).map(|(_, b)| b)
    }

    /// All use occurrences bound to the binder occurrence.
    pub fn uses_of(&self, binder: usize) -> Vec<usize> {
        self.reso
            .uses
            .iter()
            .filter(|(_, b)| *b == Bind::Binder(binder))
            .map(|(u, _)| *u)
            .collect()
    }

    /// Every cursor position of every file: (module, position, byte offset).
    pub fn positions(&self) -> Vec<(usize, Pos, usize)> {
        let mut out = Vec::new();
        for (mi, (_, text)) in self.texts.iter().enumerate() {
            let t = LineTable::new(text);
            for (li, (s, ce, _)) in t.lines.iter().enumerate() {
                let mut col = 0u32;
                let mut off = *s;
                for c in text[*s..*ce].chars() {
                    out.push((mi, Pos { line: li as u32, character: col }, off));
                    col += c.len_utf16() as u32;
                    off += c.len_utf8();
                }
                out.push((mi, Pos { line: li as u32, character: col }, off));
            }
        }
        out
    }
}

/// Converts an LSP range value into byte offsets of `text`; `None` when a position is not
/// exact (past the end of its line, or inside a surrogate pair).
pub fn range_offsets(text: &str, range: &Value) -> Option<(usize, usize)> {
    let t = LineTable::new(text);
    let pos = |v: &Value| -> Option<usize> {
        let p = Pos {
            line: v.get("line")?.as_u64()? as u32,
            character: v.get("character")?.as_u64()? as u32,
        };
        let (o, exact) = t.offset(p);
        // The position must denote that offset exactly (no clamping).
        if exact && t.position(o) == p {
            Some(o)
        } else {
            None
        }
    };
    Some((pos(range.get("start")?)?, pos(range.get("end")?)?))
}

/// File name (relative to the workspace folder) of a URI.
pub fn file_of_uri(uri: &str) -> String {
    uri.rsplit('/').next().unwrap_or(uri).to_owned()
}
